import Stingray.Extracted.C02
import Stingray.Model.Decode
import Stingray.Tie.Pinned
/-!
# Tie for C02 / C18: sign-nibble tests (semantic), the cp037 table of the running interpreter,
and the pinned body of `estruct.unpack`.
-/
namespace Stingray.Tie.C02
open Stingray.Decode
open Stingray.Extracted

theorem zoned_sign_eq (sn : Nat) : C02.zonedNeg sn ↔ isNeg sn = true := by
  simp [C02.zonedNeg, isNeg]

theorem packed_sign_eq (sn : Nat) : C02.packedNeg sn ↔ isNeg sn = true := by
  simp [C02.packedNeg, isNeg]

/-- Python's cp037 codec is a bijection of the 256 byte values onto 256 distinct characters:
distinct stored bytes decode to distinct characters. -/
theorem cp037_length : C02.cp037.length = 256 := by decide +kernel
theorem cp037_injective : C02.cp037.Nodup := by decide +kernel
theorem class_tables_length :
    C02.classW.length = 256 ∧ C02.classD.length = 256 ∧ C02.classS.length = 256 := by decide +kernel

theorem unpack_src : C02.unpackSrc = Pinned.unpackSrc := by rfl

end Stingray.Tie.C02
