import Stingray.Extracted.C04
import Stingray.Model.Decode
import Stingray.Tie.Pinned
/-!
# Tie for C04: the size ladders extracted from `estruct.calcsize`, `estruct.unpack` and
`Struct.struct_format` are (semantically) the model's; the two thin wrappers are pinned.
-/
namespace Stingray.Tie.C04
open Stingray.Decode Stingray.Picture
open Stingray.Extracted

/-- `estruct.calcsize`, for every USAGE spelling and every parsed picture. -/
theorem calcsize_eq (u : Usage13) (es : List Elt) :
    C04.calcsize u.spelling (size es) (groups es).whole.length (groups es).frac.length
      = Decode.calcsize u es := by
  cases u <;>
    simp [C04.calcsize, C04.calcsizeUsage, Decode.calcsize, Usage13.spelling, Usage13.fam, binSizeBySize] <;>
    (repeat' split) <;> first | rfl | omega | simp_all

def fmtWidth : String → Option Nat
  | ">h" => some 2 | ">i" => some 4 | ">q" => some 8 | _ => none

/-- The decoder's binary width ladder. -/
theorem unpack_binary_eq (u : Usage13) (d1 : Nat) :
    (C04.unpackBinaryFormat u.spelling d1).bind fmtWidth
      = if u.fam = .binary then binWidthByDigits d1 else none := by
  cases u <;>
    simp [C04.unpackBinaryFormat, Usage13.spelling, Usage13.fam, binWidthByDigits] <;>
    (repeat' split) <;> first | rfl | (simp [fmtWidth]; done) | omega | simp_all [fmtWidth]

def codeWidth : String → Option Nat
  | "h" => some 2 | "i" => some 4 | "q" => some 8 | "f" => some 4 | "d" => some 8 | _ => none

/-- `Struct.struct_format`: DISPLAY is `"{picture_size}s"`, the other families map to fixed codes. -/
theorem struct_format_display (ps d1 : Nat) :
    C04.structFormat "DISPLAY" ps d1 = some (toString ps ++ "s") := by
  simp [C04.structFormat]

theorem struct_format_eq (u : Usage13) (es : List Elt) (h : u.fam ≠ .display) :
    (C04.structFormat u.spelling (size es) (groups es).whole.length).bind codeWidth
      = structCalcsize u es := by
  cases u <;> simp [Usage13.fam] at h <;>
    simp [C04.structFormat, Usage13.spelling, Usage13.fam, structCalcsize, binWidthByDigits] <;>
    (repeat' split) <;> first | rfl | (simp [codeWidth]; done) | omega | simp_all [codeWidth]

theorem text_calcsize_src : C04.textCalcsizeSrc = Pinned.textCalcsizeSrc := by rfl
theorem ebcdic_calcsize_src : C04.ebcdicCalcsizeSrc = Pinned.ebcdicCalcsizeSrc := by rfl
/-- `COBOL_EBCDIC_Sheet.set_schema`, the function `Facade.EFile.setSchema` was written from. -/
theorem set_schema_src : C04.setSchemaSrc = Pinned.setSchemaSrc := by rfl

end Stingray.Tie.C04
