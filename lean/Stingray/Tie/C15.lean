import Stingray.Extracted.C15
import Stingray.Tie.Pinned
/-!
# Tie for C15: `SchemaMaker.walk_schema`, `resolve`, `from_json` and `DNav` are the reviewed
functions the model `Json.walk` / `Json.dnav` was written from.
-/
namespace Stingray.Tie.C15
open Stingray.Extracted

theorem walk_schema_src : C15.walkSchemaSrc = Pinned.walkSchemaSrc := by rfl
theorem resolve_src : C15.resolveSrc = Pinned.resolveSrc := by rfl
theorem dnav_src : C15.dnavSrc = Pinned.dnavSrc := by rfl

end Stingray.Tie.C15
