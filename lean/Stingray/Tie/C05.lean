import Stingray.Extracted.C05
import Stingray.Model.Recfm
import Stingray.Tie.Pinned
/-!
# Tie for C05: the refill statement extracted from `estruct.RECFM_N` is the model's `stepN`.
Rebuilt on every run against the freshly generated `Extracted/C05.lean`.
-/
namespace Stingray.Tie.C05
open Stingray.Recfm Stingray.Extracted.C05

/-- The buffer size the model is instantiated with (z/OS maximum block is 32760 < 32768). -/
def cap : Nat := 32768

/-- `source.read(n)`: a negative `n` reads everything that is left. -/
def pyRead (src : Bytes) (n : Int) : Bytes × Bytes :=
  if n < 0 then (src, []) else (src.take n.toNat, src.drop n.toNat)

/-- The extracted statement `buffer = buffer[K:] + source.read(E)` as a state transformer. -/
def stepExtracted (s : St) (used : Nat) : St :=
  let r := pyRead s.src (recfmNRefill s.buf.length used)
  ⟨s.buf.drop (recfmNKeep s.buf.length used) ++ r.1, r.2⟩

theorem init_read_eq : recfmNInitRead = cap := by decide

/-- Whenever the consumer used no more than the buffer holds and the buffer is within `cap`
(the invariant `InvN`), the code's statement is exactly the model's `stepN cap`. -/
theorem step_eq (s : St) (used : Nat) (h1 : used ≤ s.buf.length) (h2 : s.buf.length ≤ cap) :
    stepExtracted s used = stepN cap s used := by
  have hk : recfmNKeep s.buf.length used = used := rfl
  have hr : recfmNRefill s.buf.length used = ((cap - (s.buf.length - used) : Nat) : Int) := by
    simp only [recfmNRefill, cap] at *
    omega
  simp only [stepExtracted, stepN, pyRead, hk, hr, List.length_drop]
  have : ¬ (((cap - (s.buf.length - used) : Nat) : Int) < 0) := by omega
  simp only [this, if_false, Int.toNat_natCast]

/-- the four readers' loops (`record_iter`, `rdw_iter`, `bdw_iter`, `_data_iter`, `used`) are the reviewed ones the models
`readN / readF / readV / readVB` were written from -/
theorem recfmSrcs_pinned : recfmSrcs = Stingray.Tie.Pinned.recfmSrcs := by rfl

end Stingray.Tie.C05
