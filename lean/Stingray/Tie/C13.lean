import Stingray.Extracted.C13
import Stingray.Model.Picture
import Stingray.Tie.Pinned
/-!
# Tie for C13: both scanners run the same alternation (pinned text), the generator's with
IGNORECASE, and their loop bodies and the size loop of `Representation.parse` are the reviewed ones.
-/
namespace Stingray.Tie.C13
open Stingray.Extracted

def alternation : String :=
  "(?P<sign>\\+|-|S|DB|CR)|(?P<char>\\$|,|/|\\*|B)|(?P<decimal>V|\\.)|(?P<repeat>[AX9Z0]\\(\\d+\\))|(?P<digit>[AX9Z0]+)"

theorem decoder_pattern : C13.decoderPattern = alternation := by decide
theorem generator_pattern : C13.generatorPattern = alternation := by decide
theorem same_alternation : C13.decoderPattern = C13.generatorPattern := by decide
theorem decoder_flags : C13.decoderFlags = [] := by decide
theorem generator_flags : C13.generatorFlags = ["IGNORECASE"] := by decide
theorem decoder_body : C13.decoderBody = Pinned.decoderBody := by rfl
theorem generator_body : C13.generatorBody = Pinned.generatorBody := by rfl
theorem parse_src : C13.parseSrc = Pinned.parseSrc := by rfl

end Stingray.Tie.C13
