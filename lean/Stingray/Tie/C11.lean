import Stingray.Extracted.C11
import Stingray.Tie.Pinned
/-!
# Tie for C11: the inventory of process-wide mutable objects and of the statements that mutate
them, recomputed from the source on every run, is the reviewed one the model `History.G` was
written from.  A new module-level cache, class-level counter or mutation site leaves this
obligation undischarged.
-/
namespace Stingray.Tie.C11
open Stingray.Extracted

theorem state_inventory : C11.stateInventory = Pinned.stateInventory := by rfl

end Stingray.Tie.C11
