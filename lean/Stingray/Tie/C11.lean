import Stingray.Extracted.C11
import Stingray.Tie.Pinned
/-!
# Tie for C11: the inventory of process-wide mutable objects and of the statements that mutate
them, recomputed from the source on every run, is the reviewed one the model `History.G` was
written from.  A new module-level cache, class-level counter or mutation site leaves this
obligation undischarged.
-/
/-! The inventory has three sections (separated by `--`): process-wide objects; statements that mutate process-wide state;
and **object state written after construction** -- every attribute / item assignment or deletion outside `__init__` and
every caching decorator in `src/stingray`: the places where a schema, maker, navigator, sheet or reader could come to depend
on what was done with it before.  A new lazily filled cache, a value written back into a schema, a maker kept on an
unpacker all add a line, and `state_inventory` no longer checks. -/
namespace Stingray.Tie.C11
open Stingray.Extracted

theorem state_inventory : C11.stateInventory = Pinned.stateInventory := by rfl

end Stingray.Tie.C11
