import Stingray.Extracted.C07
import Stingray.Tie.Pinned
/-!
# Tie for C07 / C08: `structure`, `DDE.__init__`, `schema_iter` and `JSONSchemaMaker` (the functions the models `Copybook`
and `Schema` were written from) are the reviewed ones (pinned sources); their behaviour is corresponded by
`harness/c07.py` and `harness/c08.py`.
-/
namespace Stingray.Tie.C07
open Stingray.Extracted

theorem structureSrc_pinned : C07.structureSrc = Pinned.structureSrc := by rfl
theorem schemaMakerSrc_pinned : C07.schemaMakerSrc = Pinned.schemaMakerSrc := by rfl

end Stingray.Tie.C07
