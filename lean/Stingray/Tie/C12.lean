import Stingray.Extracted.C12
import Stingray.Tie.Pinned
/-!
# Tie for C12: the text layers are the reviewed ones (pinned source of `reference_format`,
`dde_sentences`, the CLAUSES pattern with its building blocks, and `clause_dict`).
-/
namespace Stingray.Tie.C12
open Stingray.Extracted

theorem reference_format_src : C12.referenceFormatSrc = Pinned.referenceFormatSrc := by rfl
theorem sentence_pattern : C12.sentencePattern = Pinned.sentencePattern := by rfl
theorem clauses_pattern : C12.clausesPattern = Pinned.clausesPattern := by rfl
theorem clause_dict_src : C12.clauseDictSrc = Pinned.clauseDictSrc := by rfl

end Stingray.Tie.C12
