import Stingray.Extracted.C09
import Stingray.Tie.Pinned
/-!
# Tie for C09: the facade functions the model `Facade` was written from are the reviewed ones (pinned sources).
-/
namespace Stingray.Tie.C09
open Stingray.Extracted

theorem headerSrc_pinned : C09.headerSrc = Pinned.headerSrc := by rfl
theorem wbnavNameSrc_pinned : C09.wbnavNameSrc = Pinned.wbnavNameSrc := by rfl
theorem rowIterSrc_pinned : C09.rowIterSrc = Pinned.rowIterSrc := by rfl
theorem externalLoadSrc_pinned : C09.externalLoadSrc = Pinned.externalLoadSrc := by rfl
theorem rowValuesSrc_pinned : C09.rowValuesSrc = Pinned.rowValuesSrc := by rfl

end Stingray.Tie.C09
