import Stingray.Extracted.C16
import Stingray.Model.Convert
/-!
# Tie for C16

`digit_string` and `decimal_places` are one-liners over `str`, `int` and `decimal.Decimal`
(library behaviour, modelled); the tie pins their source so that any edit leaves an obligation
undischarged.  `CONVERSION` is extracted as a table and proved equal to the model's.
-/
namespace Stingray.Tie.C16
open Stingray.Extracted.C16 Stingray.Convert

theorem digit_string_src : digitStringSrc = ["return (size * '0' + str(int(value)))[-size:]"] := by decide

theorem decimal_places_src : decimalPlacesSrc =
    ["digits_right = Decimal((0, (1,), -digits))", "return Decimal(value).quantize(digits_right)"] := by decide

/-- What each function expression appearing in `CONVERSION` returns. -/
def returns : String → Option PyType
  | "lambda x: None" => some .none
  | "bool" => some .bool
  | "int" => some .int
  | "float" => some .float
  | "str" => some .str
  | "Decimal" => some .decimal
  | "lambda x: x" => some .same
  | _ => none

/-- Every entry of the real table maps its name to a function of the type the model states, and
the real table has exactly the names of the model. -/
theorem conversion_table_eq :
    conversionTable.map (fun p => (p.1, returns p.2))
      = ["null", "bool", "integer", "number", "string", "decimal", "None"].map
          (fun k => (k, conversionType (if k = "None" then none else some k))) := by decide

end Stingray.Tie.C16
