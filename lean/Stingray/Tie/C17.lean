import Stingray.Extracted.C17
import Stingray.Model.Clean
/-!
# Tie for C17: the loop of `workbook.name_cleaner` is, token for token, the one `Model/Clean.lean` models.

The regular-expression engine itself is not translated; this tie pins the pattern, its flags and the
`str.replace` chain (so that any edit of them leaves this obligation undischarged and starts the
failing-input search), and the exhaustive correspondence validates `rest`/`collapse` against `re`/`str.replace`.
-/
namespace Stingray.Tie.C17
open Stingray.Extracted.C17

theorem pattern_eq : cleanerPattern = "(^[A-Za-z_][-A-Za-z0-9._]*)?(.*)$" := by decide
theorem flags_eq : cleanerFlags = ["DOTALL"] := by decide
theorem replace_eq : cleanerReplace = [("<bad_char>", "_"), ("__", "_")] := by decide

end Stingray.Tie.C17
