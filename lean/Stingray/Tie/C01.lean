import Stingray.Extracted.C01
import Stingray.Tie.Pinned
/-!
# Tie for C01 / C06 / C10: the functions the models `Layout`, `Odo` and `Value` were written from are the reviewed ones
(pinned sources): `LocationMaker` (walk, size, from_instance / from_schema), the `NDNav` steps and the `Location.value`
methods, and the glue that feeds a row's announced length back to the record reader.  The method dispatch of
`LocationMaker.walk` is beyond the translator, so the semantic part of this tie is the correspondence of `harness/c01.py`,
`c06.py`, `c10.py`; these theorems make any edit of those functions visible on the run that follows it.
-/
namespace Stingray.Tie.C01
open Stingray.Extracted

theorem layoutSrc_pinned : C01.layoutSrc = Pinned.layoutSrc := by rfl
theorem navSrc_pinned : C01.navSrc = Pinned.navSrc := by rfl
theorem odoFileSrc_pinned : C01.odoFileSrc = Pinned.odoFileSrc := by rfl

end Stingray.Tie.C01
