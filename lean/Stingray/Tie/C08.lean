import Stingray.Extracted.C08
import Stingray.Model.Schema
/-!
# Tie for C08: the two `json_type` ladders extracted from `cobol_parser.py` are the model's, for
every USAGE spelling; the numeric test on the raw picture and `EBCDIC.value` are pinned.
-/
namespace Stingray.Tie.C08
open Stingray.Extracted Stingray.Schema Stingray.Decode

theorem json_type_eq (u : Usage13) (b : Bool) :
    C08.jsonType u.spelling b =
      some ((jsonType u b).type, (jsonType u b).encoding, (jsonType u b).conversion) := by
  cases u <;> cases b <;> simp [C08.jsonType, jsonType, Usage13.spelling, Usage13.fam]

theorem json_type_ext_eq (u : Usage13) (b : Bool) :
    C08.jsonTypeExt u.spelling b = some (jsonTypeExt u b, none, none) := by
  cases u <;> cases b <;> simp [C08.jsonTypeExt, jsonTypeExt, Usage13.spelling, Usage13.fam]

def numericTest : String :=
  "picture and all((cast(str, c).upper() in {'S', 'V', 'P', '9'} for c in picture))"

theorem numeric_test : C08.numericTest = numericTest ∧ C08.numericTestExt = numericTest := by decide

theorem ebcdic_value_src : C08.ebcdicValueSrc =
    ["format = cast(dict[str, Any], schema.attributes).get('cobol', 'USAGE DISPLAY')",
     "conversion_func = CONVERSION[cast(dict[str, Any], schema.attributes).get('conversion')]",
     "v, = stingray.estruct.unpack(format, cast(bytes, instance))", "return conversion_func(v)"] := by decide

end Stingray.Tie.C08
