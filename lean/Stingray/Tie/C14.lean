import Stingray.Extracted.C14
import Stingray.Tie.Pinned
/-!
# Tie for C14: the facade functions the model `Facade` was written from are the reviewed ones (pinned sources).
-/
namespace Stingray.Tie.C14
open Stingray.Extracted

theorem registrySrc_pinned : C14.registrySrc = Pinned.registrySrc := by rfl
theorem closeSrcs_pinned : C14.closeSrcs = Pinned.closeSrcs := by rfl

end Stingray.Tie.C14
