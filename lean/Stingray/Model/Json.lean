/-!
# Model of `SchemaMaker.walk_schema` / `resolve` / `from_json` and of `DNav`

A JSON Schema document of the supported subset is a `Doc`: its own keywords (`Attrs`) and its
sub-schemas (`oneOf`, `items`, `properties`, in document order).  Loading mirrors the document
into `LSch`, node for node; every node keeps the document it was made from (that is what
`Schema.json()` returns).  `$ref`s are resolved through a name cache that is filled in post-order
(key: `$anchor`, else `title`, else `*UNNAMED*`; as repaired, a `$ref` node without an `$anchor`
does not enter the cache) — backward references at once, forward references in `resolve`.
A node is identified by its path (child indices) in the document.
Imports nothing.
-/
namespace Stingray.Json

structure Attrs where
  anchor : Option String := none
  title : Option String := none
  type : Option String := none
  ref : Option String := none            -- the `$ref` URI, e.g. "#NAME"
  dependsOn : Option String := none      -- `maxItemsDependsOn.$ref`
  hasItems : Bool := false
  hasProps : Bool := false
deriving Repr, DecidableEq

inductive Doc where
  | mk (a : Attrs) (oneOf : List Doc) (items : List Doc) (props : List (String × Doc))
deriving Repr

def Doc.attrs : Doc → Attrs | .mk a _ _ _ => a

abbrev Path := List Nat

inductive Kind | atomic | array | object | oneOf | ref
deriving Repr, DecidableEq

/-- the loaded schema: the mirror of the document -/
inductive LSch where
  | atomic (d : Doc)
  | array (d : Doc) (items : List LSch) (dependsOn : Option (String × Path))   -- `items` has one element in every document
  | object (d : Doc) (props : List (String × LSch))
  | oneOf (d : Doc) (alts : List LSch)
  | ref (d : Doc) (name : String) (target : Option Path)      -- none = to be fixed up by `resolve`
deriving Repr

inductive JErr | valueError | keyError | assertionError
deriving Repr, DecidableEq

def atomicTypes : List String := ["null", "boolean", "integer", "number", "string"]

abbrev Cache := List (String × Path)

/-- `dict[key]` after a sequence of assignments: the last one wins -/
def cacheGet (c : Cache) (k : String) : Option Path :=
  (c.reverse.find? (fun p => p.1 == k)).map (·.2)

def cacheKey (a : Attrs) : String := (a.anchor.orElse fun _ => a.title).getD "*UNNAMED*"

/-- `"#NAME"` → `NAME`; `none` = the `assert ref_uri.startswith("#")` fails -/
def refName (uri : String) : Option String :=
  if uri.startsWith "#" then some (uri.drop 1).toString else none

structure WState where
  cache : Cache := []
  fixups : List (Path × String) := []
deriving Repr

mutual
/-- `walk_schema(source)` at document path `p` -/
def walk (atomic : List String) : Doc → Path → WState → Except JErr (LSch × WState)
  | .mk a oneOf items props, p, st =>
    let finish (s : LSch) (st : WState) (isRef : Bool) : Except JErr (LSch × WState) :=
      if isRef && a.anchor.isNone then .ok (s, st)
      else .ok (s, { st with cache := st.cache ++ [(cacheKey a, p)] })
    match oneOf with
    | _ :: _ =>
      match walkList atomic oneOf p 0 st with
      | .error e => .error e
      | .ok (alts, st') => finish (.oneOf (.mk a oneOf items props) alts) st' false
    | [] =>
      match a.ref with
      | some uri =>
        match refName uri with
        | none => .error .assertionError
        | some name =>
          match cacheGet st.cache name with
          | some t => finish (.ref (.mk a oneOf items props) name (some t)) st true
          | none => finish (.ref (.mk a oneOf items props) name none) { st with fixups := st.fixups ++ [(p, name)] } true
      | none =>
        match a.type with
        | none => .error .keyError                       -- `source["type"]`
        | some t =>
          if atomic.contains t then finish (.atomic (.mk a oneOf items props)) st false
          else if t == "array" || a.hasItems then
            match walkList atomic items p 0 st with
            | .error e => .error e
            | .ok ([], _) => .error .keyError             -- walking the default `{}`
            | .ok (its :: rest, st') =>
                match a.dependsOn with
                | none => finish (.array (.mk a oneOf items props) (its :: rest) none) st' false
                | some uri =>
                  match refName uri with
                  | none => .error .assertionError
                  | some name =>
                    match cacheGet st'.cache name with
                    | some t => finish (.array (.mk a oneOf items props) (its :: rest) (some (name, t))) st' false
                    | none => .error .valueError        -- forward references for maxItemsDependsOn aren't supported
          else if t == "object" || a.hasProps then
            match walkProps atomic props p 0 st with
            | .error e => .error e
            | .ok (ps, st') => finish (.object (.mk a oneOf items props) ps) st' false
          else .error .valueError
def walkList (atomic : List String) : List Doc → Path → Nat → WState → Except JErr (List LSch × WState)
  | [], _, _, st => .ok ([], st)
  | d :: ds, p, i, st =>
    match walk atomic d (p ++ [i]) st with
    | .error e => .error e
    | .ok (s, st') =>
      match walkList atomic ds p (i + 1) st' with
      | .error e => .error e
      | .ok (ss, st'') => .ok (s :: ss, st'')
def walkProps (atomic : List String) : List (String × Doc) → Path → Nat → WState → Except JErr (List (String × LSch) × WState)
  | [], _, _, st => .ok ([], st)
  | (k, d) :: ds, p, i, st =>
    match walk atomic d (p ++ [i]) st with
    | .error e => .error e
    | .ok (s, st') =>
      match walkProps atomic ds p (i + 1) st' with
      | .error e => .error e
      | .ok (ss, st'') => .ok ((k, s) :: ss, st'')
end

/-- `resolve`: every forward reference must now be in the cache -/
def resolveFixups (c : Cache) : List (Path × String) → Except JErr (List (Path × Path))
  | [] => .ok []
  | (p, name) :: rest =>
    match cacheGet c name with
    | none => .error .valueError
    | some t => match resolveFixups c rest with
      | .error e => .error e
      | .ok r => .ok ((p, t) :: r)

/-- `SchemaMaker.from_json`: the mirrored schema and the resolution of the forward references -/
def fromJson (atomic : List String) (d : Doc) : Except JErr (LSch × List (Path × Path)) :=
  match walk atomic d [] {} with
  | .error e => .error e
  | .ok (s, st) =>
    match resolveFixups st.cache st.fixups with
    | .error e => .error e
    | .ok fx => .ok (s, fx)

mutual
/-- what `resolve` does to the objects: every fixed-up reference now knows its target -/
def patch (fx : List (Path × Path)) : LSch → Path → LSch
  | .atomic d, _ => .atomic d
  | .array d its dep, p => .array d (patchL fx its p 0) dep
  | .object d ps, p => .object d (patchP fx ps p 0)
  | .oneOf d alts, p => .oneOf d (patchL fx alts p 0)
  | .ref d n (some t), _ => .ref d n (some t)
  | .ref d n none, p => .ref d n ((fx.find? (·.1 == p)).map (·.2))
def patchL (fx : List (Path × Path)) : List LSch → Path → Nat → List LSch
  | [], _, _ => []
  | s :: ss, p, i => patch fx s (p ++ [i]) :: patchL fx ss p (i + 1)
def patchP (fx : List (Path × Path)) : List (String × LSch) → Path → Nat → List (String × LSch)
  | [], _, _ => []
  | (k, s) :: ss, p, i => (k, patch fx s (p ++ [i])) :: patchP fx ss p (i + 1)
end

/-- the loaded and resolved schema -/
def load (atomic : List String) (d : Doc) : Except JErr LSch :=
  (fromJson atomic d).map fun r => patch r.2 r.1 []

/-! ## JSON instances and `DNav` -/

inductive JVal where
  | atom (repr : String)
  | arr (items : List JVal)
  | obj (props : List (String × JVal))
deriving Repr

inductive Step | name (k : String) | idx (i : Nat)
deriving Repr, DecidableEq

inductive NErr | typeError | keyError | indexError | valueError
deriving Repr, DecidableEq

def lookup {α : Type} (k : String) : List (String × α) → Option α
  | [] => none
  | (k', v) :: rest => if k' = k then some v else lookup k rest

/-- plain Python indexing of the document -/
def pyIndex : JVal → Step → Except NErr JVal
  | .obj ps, .name k => match lookup k ps with | some v => .ok v | none => .error .keyError
  | .arr xs, .idx i => match xs[i]? with | some v => .ok v | none => .error .indexError
  | _, _ => .error .typeError

def pyIndexPath : JVal → List Step → Except NErr JVal
  | v, [] => .ok v
  | v, s :: ss => match pyIndex v s with | .error e => .error e | .ok v' => pyIndexPath v' ss

/-- the node at a document path of the loaded schema -/
def nodeAt : LSch → Path → Option LSch
  | s, [] => some s
  | .array _ its _, i :: rest => (its[i]?).bind (nodeAt · rest)
  | .object _ ps, i :: rest => (ps[i]?).bind (fun kv => nodeAt kv.2 rest)
  | .oneOf _ alts, i :: rest => (alts[i]?).bind (nodeAt · rest)
  | _, _ :: _ => none

/-- follow `$ref`s (`RefToSchema.type/.properties/.items` dereference): the schema that finally
answers; `none` = an unresolved reference (`ValueError("Invalid RefToSchema")`) -/
def follow (root : LSch) (fx : List (Path × Path)) : Nat → Path → LSch → Option LSch
  | 0, _, _ => none
  | f + 1, p, .ref _ _ t =>
    match t.orElse (fun _ => (fx.find? (·.1 == p)).map (·.2)) with
    | none => none
    | some tp => (nodeAt root tp).bind (follow root fx f tp)
  | _, _, s => some s

/-- `DNav.name` / `DNav.index` on (schema, instance); `rs` dereferences the current schema -/
def dnavStep (rs : LSch → Option LSch) : LSch × JVal → Step → Except NErr (LSch × JVal)
  | (s, v), step =>
    match rs s, step with
    | none, _ => .error .valueError
    | some (.object _ ps), .name k =>
      (match lookup k ps with
       | none => .error .keyError
       | some sub => match pyIndex v (.name k) with
         | .error e => .error e
         | .ok v' => .ok (sub, v'))
    | some (.array _ (it :: _) _), .idx i =>
      (match pyIndex v (.idx i) with
       | .error e => .error e
       | .ok v' => .ok (it, v'))
    | some _, _ => .error .typeError

def dnav (rs : LSch → Option LSch) : LSch × JVal → List Step → Except NErr JVal
  | (_, v), [] => .ok v
  | sv, s :: ss => match dnavStep rs sv s with | .error e => .error e | .ok sv' => dnav rs sv' ss

end Stingray.Json
