/-!
# Model of `workbook.name_cleaner` (as repaired: the regular expression is applied with `re.DOTALL`)

```python
while (groups := re.match(r"(^[A-Za-z_][-A-Za-z0-9._]*)?(.*)$", name, re.DOTALL).groups())[1]:
    bad_char = groups[1][0]
    name = name.replace(bad_char, "_").replace("__", "_")
return name
```
`rest` is group 2 of the match: what follows the longest legal prefix.  The loop is a
well-founded recursion; its termination proof (measure: characters outside `[A-Za-z_]`) is the
first C17 theorem.  Imports nothing.
-/
namespace Stingray.Clean
def isFirst (c : Char) : Bool := ('A' ≤ c && c ≤ 'Z') || ('a' ≤ c && c ≤ 'z') || c == '_'
def isRest (c : Char) : Bool := isFirst c || ('0' ≤ c && c ≤ '9') || c == '-' || c == '.'
theorem isFirst_us : isFirst '_' = true := by decide
theorem isRest_of_isFirst {c} (h : isFirst c = true) : isRest c = true := by simp [isRest, h]

def rest : List Char → List Char
  | [] => []
  | c :: cs => if isFirst c then cs.dropWhile isRest else c :: cs

def replaceChar (b : Char) (s : List Char) : List Char := s.map (fun x => if x = b then '_' else x)

def collapse : List Char → List Char
  | '_' :: '_' :: cs => '_' :: collapse cs
  | c :: cs => c :: collapse cs
  | [] => []

def bad (s : List Char) : Nat := s.countP (fun c => !isFirst c)

theorem bad_cons (c : Char) (s : List Char) : bad (c :: s) = bad s + (if isFirst c then 0 else 1) := by
  simp only [bad, List.countP_cons]; cases isFirst c <;> simp

theorem bad_collapse (s : List Char) : bad (collapse s) ≤ bad s := by
  induction s using collapse.induct with
  | case1 cs ih => simp only [collapse, bad_cons, isFirst_us]; simp; omega
  | case2 c cs h ih => simp only [collapse, bad_cons]; omega
  | case3 => simp [collapse]

theorem bad_replace_le (b : Char) (s : List Char) : bad (replaceChar b s) ≤ bad s := by
  induction s with
  | nil => simp [replaceChar]
  | cons c cs ih =>
    simp only [replaceChar, List.map_cons] at *
    by_cases hcb : c = b
    · simp only [hcb, if_true, bad_cons, isFirst_us]; simp; omega
    · simp only [hcb, if_false, bad_cons]; omega

theorem bad_replace (b : Char) (s : List Char) (hb : isFirst b = false) (hm : b ∈ s) :
    bad (replaceChar b s) < bad s := by
  induction s with
  | nil => simp at hm
  | cons c cs ih =>
    by_cases hcb : c = b
    · have := bad_replace_le b cs
      simp only [replaceChar, List.map_cons, hcb, if_true, bad_cons, isFirst_us, hb] at *
      simp; omega
    · have hm' : b ∈ cs := by
        rcases List.mem_cons.mp hm with h | h
        · exact absurd h.symm hcb
        · exact h
      have := ih hm'
      simp only [replaceChar, List.map_cons, hcb, if_false, bad_cons] at *
      omega

theorem dropWhile_head {p : Char → Bool} : ∀ (l : List Char) (b : Char) (bs : List Char),
    l.dropWhile p = b :: bs → p b = false ∧ b ∈ l
  | [], _, _, h => by simp at h
  | c :: cs, b, bs, h => by
    simp only [List.dropWhile_cons] at h
    split at h
    · have := dropWhile_head cs b bs h
      exact ⟨this.1, List.mem_cons_of_mem _ this.2⟩
    · rename_i hc
      injection h with h1 _
      subst h1
      exact ⟨by simpa using hc, by simp⟩

theorem rest_head_bad (s : List Char) (b : Char) (bs : List Char) (h : rest s = b :: bs) :
    isFirst b = false ∧ b ∈ s := by
  cases s with
  | nil => simp [rest] at h
  | cons c cs =>
    simp only [rest] at h
    split at h
    · have ⟨h1, h2⟩ := dropWhile_head cs b bs h
      refine ⟨?_, List.mem_cons_of_mem _ h2⟩
      cases hf : isFirst b
      · rfl
      · rw [isRest_of_isFirst hf] at h1; exact absurd h1 (by simp)
    · rename_i hc
      injection h with h1 _
      subst h1
      exact ⟨by simpa using hc, by simp⟩

def clean (s : List Char) : List Char :=
  match h : rest s with
  | [] => s
  | b :: _ => clean (collapse (replaceChar b s))
termination_by bad s
decreasing_by
  have ⟨h1, h2⟩ := rest_head_bad s b _ h
  exact Nat.lt_of_le_of_lt (bad_collapse _) (bad_replace b s h1 h2)

end Stingray.Clean
