/-!
# Clause layer: `cobol_parser.clause_dict` at the level of words

`clause_dict(source)` runs `clause_pattern.finditer(source)` -- an ordered alternation, one alternative per clause kind,
the data name last -- and merges the named groups of the matches, later matches overwriting earlier ones.

This model works on *words*: the maximal runs of characters that are not separators (`[\s|,;]`).  Every alternative is
transcribed in the order of the regular expression, with its optional words and with the places where the regular
expression backtracks (`PIC IS` at the end of an entry takes `IS` as the picture, `DEPENDING ON` at the end takes `ON`
as the counter, the `ASCENDING KEY … INDEXED BY` phrase).  Words whose treatment depends on the characters inside them
(a word that is neither `[\w-]+` nor used as a picture or literal; a data name that begins with `ZERO`, `SYNC` or
`SEPARATE`) are `Tok.other`: when one turns up where the characters would matter the model answers `none` (not
modelled) instead of guessing.

Assumptions of the word view (enforced by the lexer of the driver / harness):
* `INDEXED` is preceded by exactly one separator character (with two, the regular expression can also match the
  `INDEXED BY` phrase without a preceding key phrase);
* no separator character `,` `;` directly after a picture string (finding D26) and no quote characters after a quoted
  literal in the same entry (the literal alternative `'.*'` is greedy).
-/
namespace Stingray.Clause

inductive Usage
  | binary | computational1 | computational2 | computational3 | computational4 | computational
  | comp1 | comp2 | comp3 | comp4 | comp | display | packedDecimal
  deriving DecidableEq, Repr

def Usage.text : Usage → String
  | .binary => "BINARY" | .computational1 => "COMPUTATIONAL-1" | .computational2 => "COMPUTATIONAL-2"
  | .computational3 => "COMPUTATIONAL-3" | .computational4 => "COMPUTATIONAL-4" | .computational => "COMPUTATIONAL"
  | .comp1 => "COMP-1" | .comp2 => "COMP-2" | .comp3 => "COMP-3" | .comp4 => "COMP-4" | .comp => "COMP"
  | .display => "DISPLAY" | .packedDecimal => "PACKED-DECIMAL"

/-- the words some alternative of the pattern looks for -/
inductive Kw
  | redefines | blank | when_ | zero | zeros | zeroes | external | global | justified | just | right | left
  | occurs | to | times | depending | on | ascending | descending | key | is | indexed | by_
  | pic | picture | sign | leading | trailing | separate | character | synchronized | sync | usage | value | filler
  | u (u : Usage)
  deriving DecidableEq, Repr

def Kw.text : Kw → String
  | .redefines => "REDEFINES" | .blank => "BLANK" | .when_ => "WHEN" | .zero => "ZERO" | .zeros => "ZEROS"
  | .zeroes => "ZEROES" | .external => "EXTERNAL" | .global => "GLOBAL" | .justified => "JUSTIFIED" | .just => "JUST"
  | .right => "RIGHT" | .left => "LEFT" | .occurs => "OCCURS" | .to => "TO" | .times => "TIMES"
  | .depending => "DEPENDING" | .on => "ON" | .ascending => "ASCENDING" | .descending => "DESCENDING" | .key => "KEY"
  | .is => "IS" | .indexed => "INDEXED" | .by_ => "BY" | .pic => "PIC" | .picture => "PICTURE" | .sign => "SIGN"
  | .leading => "LEADING" | .trailing => "TRAILING" | .separate => "SEPARATE" | .character => "CHARACTER"
  | .synchronized => "SYNCHRONIZED" | .sync => "SYNC" | .usage => "USAGE" | .value => "VALUE" | .filler => "FILLER"
  | .u x => x.text

inductive Tok
  | kw (k : Kw)
  | num (digits : String)      -- `\d+`
  | name (s : String)          -- `[\w-]+`, not a key word, not all digits, no hazardous prefix
  | other (s : String)         -- anything else
  deriving DecidableEq, Repr

def Tok.text : Tok → String
  | .kw k => k.text | .num d => d | .name s => s | .other s => s

/-- the text the `NAME` sub-pattern `[\w-]+` takes from a word, when it takes all of it -/
def Tok.asName : Tok → Option String
  | .kw k => some k.text | .num d => some d | .name s => some s | .other _ => none

def Tok.isName (t : Tok) : Bool := t.asName.isSome

structure CDict where
  name : Option String := none
  filler : Option String := none
  redefines : Option String := none
  blank : Option String := none
  justified : Option String := none
  occurs : Option String := none
  odoMin : Option String := none
  odoMax : Option String := none
  dependingOn : Option String := none
  picture : Option String := none
  sign : Option String := none
  signSep : Option String := none
  synch : Option String := none
  usage : Option String := none
  value : Option String := none
  deriving DecidableEq, Repr

/-- outcome of trying one alternative at the head of the remaining words -/
inductive R
  | hit (f : CDict → CDict) (rest : List Tok)
  | miss
  | unmodelled

/-! ### the `ASCENDING/DESCENDING KEY … INDEXED BY …` phrase (no named groups: only its extent matters) -/

def isAscDesc : Tok → Bool
  | .kw .ascending => true | .kw .descending => true | _ => false

/-- `INDEXED (BY )?NAME` at the head -/
def indexedOK : List Tok → Bool
  | .kw .indexed :: .kw .by_ :: t :: _ => t.isName      -- BY taken as the optional word (or, failing that, as the name)
  | .kw .indexed :: t :: _ => t.isName
  | _ => false

/-- can `((ASC|DESC) (KEY )?(IS )?NAME)+ INDEXED (BY )?NAME` be matched at the head (with backtracking)? -/
def keyOK : Nat → List Tok → Bool
  | 0, _ => false
  | fuel + 1, t :: r =>
    if isAscDesc t then
      let after (r' : List Tok) : Bool := match r' with
        | n :: r'' => n.isName && (keyOK fuel r'' || indexedOK r'')
        | [] => false
      (match r with | .kw .key :: .kw .is :: r' => after r' | _ => false)
      || (match r with | .kw .key :: r' => after r' | _ => false)
      || (match r with | .kw .is :: r' => after r' | _ => false)
      || after r
    else false
  | _ + 1, [] => false

/-- the optional `KEY` phrase after `OCCURS n [TIMES]`: when it matches, `INDEXED BY` takes every following word that
`[\w-]+` can take, and so do the key phrases before it.  `none`: an `other` word follows the run, whose first characters
would be taken as one more index name. -/
def afterKey (ts : List Tok) : Option (List Tok) :=
  if keyOK ts.length ts then
    match ts.dropWhile Tok.isName with
    | .other _ :: _ => none
    | rest => some rest
  else some ts

/-! ### the alternatives, in the order of the pattern -/

def altRedefines : List Tok → R
  | .kw .redefines :: t :: rest => match t with
    | .other _ => .unmodelled
    | _ => .hit (fun d => { d with redefines := t.asName }) rest
  | _ => .miss

/-- `BLANK (WHEN )?(ZERO|ZEROES|ZEROS)`: the alternation takes `ZERO` first and there is no word boundary after it, so
`ZEROS` / `ZEROES` leave `S` / `ES` behind as the next word (finding D42, pinned by the project's tests) -/
def blankTail (rest : List Tok) : Tok → R
  | .kw .zero => .hit (fun d => { d with blank := some "ZERO" }) rest
  | .kw .zeros => .hit (fun d => { d with blank := some "ZERO" }) (.name "S" :: rest)
  | .kw .zeroes => .hit (fun d => { d with blank := some "ZERO" }) (.name "ES" :: rest)
  | .other _ => .unmodelled
  | _ => .miss

def altBlank : List Tok → R
  | .kw .blank :: .kw .when_ :: t :: rest => blankTail rest t   -- (leaving WHEN out of the optional word cannot help)
  | .kw .blank :: t :: rest => blankTail rest t
  | _ => .miss

def altExternalGlobal : List Tok → R
  | .kw .external :: rest => .hit id rest
  | .kw .global :: rest => .hit id rest
  | _ => .miss

def justTail : List Tok → R
  | .kw .right :: rest => .hit (fun d => { d with justified := some "RIGHT" }) rest
  | .other _ :: _ => .unmodelled
  | rest => .hit id rest

def altJustified : List Tok → R
  | .kw .justified :: rest => justTail rest
  | .kw .just :: rest => justTail rest
  | _ => .miss

/-- after `OCCURS [min TO] max [TIMES]`: `DEPENDING (ON )?NAME` then the optional key phrase -/
def odoTail (upd : CDict → CDict) : List Tok → R
  | .kw .depending :: .kw .on :: t :: rest =>
    match t with
    | .other _ => .unmodelled
    | _ => match afterKey rest with
      | some rest' => .hit (fun d => { upd d with dependingOn := t.asName }) rest'
      | none => .unmodelled
  | [.kw .depending, .kw .on] => .hit (fun d => { upd d with dependingOn := some "ON" }) []
  | .kw .depending :: t :: rest =>
    match t with
    | .other _ => .unmodelled
    | _ => match afterKey rest with
      | some rest' => .hit (fun d => { upd d with dependingOn := t.asName }) rest'
      | none => .unmodelled
  | _ => .miss

def skipTimes : List Tok → List Tok
  | .kw .times :: rest => rest
  | ts => ts

def altOccursOdo : List Tok → R
  | .kw .occurs :: .num lo :: .kw .to :: .num hi :: rest =>
    odoTail (fun d => { d with odoMin := some lo, odoMax := some hi }) (skipTimes rest)
  | .kw .occurs :: .num hi :: rest => odoTail (fun d => { d with odoMax := some hi }) (skipTimes rest)
  | _ => .miss

def altOccursFixed : List Tok → R
  | .kw .occurs :: .num n :: rest =>
    match afterKey (skipTimes rest) with
    | some rest' => .hit (fun d => { d with occurs := some n }) rest'
    | none => .unmodelled
  | _ => .miss

/-- `(IS )?(\S+)`: the optional word, then one whole word as the argument; `IS` at the very end is the argument itself -/
def takeArg (set : String → CDict → CDict) : List Tok → R
  | .kw .is :: t :: rest => .hit (set t.text) rest
  | t :: rest => .hit (set t.text) rest
  | [] => .miss

def altPicture : List Tok → R
  | .kw .pic :: rest => takeArg (fun p d => { d with picture := some p }) rest
  | .kw .picture :: rest => takeArg (fun p d => { d with picture := some p }) rest
  | _ => .miss

/-- the mandatory `SEPARATE [CHARACTER]` after `LEADING` / `TRAILING` -/
def sepTail (s : String) : List Tok → R
  | .kw .separate :: .kw .character :: rest => .hit (fun d => { d with sign := some s, signSep := some "SEPARATE CHARACTER" }) rest
  | .kw .separate :: .other _ :: _ => .unmodelled
  | .kw .separate :: rest => .hit (fun d => { d with sign := some s, signSep := some "SEPARATE" }) rest
  | .other _ :: _ => .unmodelled
  | _ => .miss

def signCore : List Tok → R
  | .kw .leading :: rest => sepTail "LEADING" rest
  | .kw .trailing :: rest => sepTail "TRAILING" rest
  | _ => .miss

def altSign : List Tok → R
  | .kw .sign :: .kw .is :: rest => signCore rest
  | .kw .sign :: rest => signCore rest
  | .kw .is :: rest => signCore rest
  | ts => signCore ts

def syncTail : List Tok → R
  | .kw .left :: rest => .hit (fun d => { d with synch := some "LEFT" }) rest
  | .kw .right :: rest => .hit (fun d => { d with synch := some "RIGHT" }) rest
  | .other _ :: _ => .unmodelled
  | rest => .hit id rest

def altSync : List Tok → R
  | .kw .synchronized :: rest => syncTail rest
  | .kw .sync :: rest => syncTail rest
  | _ => .miss

def altUsage : List Tok → R
  | .kw .usage :: .kw .is :: .kw (.u x) :: rest => .hit (fun d => { d with usage := some x.text }) rest
  | .kw .usage :: .kw (.u x) :: rest => .hit (fun d => { d with usage := some x.text }) rest
  | .kw .is :: .kw (.u x) :: rest => .hit (fun d => { d with usage := some x.text }) rest
  | .kw (.u x) :: rest => .hit (fun d => { d with usage := some x.text }) rest
  | _ => .miss

def altValue : List Tok → R
  | .kw .value :: rest => takeArg (fun v d => { d with value := some v }) rest
  | _ => .miss

def altFiller : List Tok → R
  | .kw .filler :: rest => .hit (fun d => { d with filler := some "FILLER" }) rest
  | _ => .miss

def altName : List Tok → R
  | .other _ :: _ => .unmodelled
  | t :: rest => .hit (fun d => { d with name := t.asName }) rest
  | [] => .miss

/-- first alternative that matches, in the order of the pattern -/
def firstOf : List (List Tok → R) → List Tok → R
  | [], _ => .miss
  | a :: as, ts => match a ts with
    | .miss => firstOf as ts
    | r => r

def alternatives : List (List Tok → R) :=
  [altRedefines, altBlank, altExternalGlobal, altJustified, altOccursOdo, altOccursFixed, altPicture, altSign, altSync,
   altUsage, altValue, altFiller, altName]

def step (ts : List Tok) : R := firstOf alternatives ts

/-- `finditer` + merge; the fuel is the number of words (every match consumes one at least; `ZEROS` gives one back after
consuming two) -/
def parseGo : Nat → List Tok → CDict → Option CDict
  | _, [], d => some d
  | 0, _ :: _, _ => none
  | fuel + 1, ts@(_ :: _), d =>
    match step ts with
    | .hit f rest => parseGo fuel rest (f d)
    | .miss => none           -- cannot happen: `altName` takes any word that is not `other`
    | .unmodelled => none

def parse (ts : List Tok) : Option CDict := parseGo (2 * ts.length + 1) ts {}

/-!
## The second reader of the same text: `estruct.Representation.parse`

The schema generator stores the whole entry text in the `cobol` keyword and `estruct` scans it again with its own, smaller
pattern: `VALUE [IS] literal` (consumed, nothing captured), `[USAGE] [IS] usage-word`, `PIC|PICTURE [IS] string`; everything
else is skipped; the last USAGE and the last PICTURE win, the default usage is DISPLAY.  Same words as above (separators
between clauses only).
-/

structure ERep where
  usage : String := "DISPLAY"
  picture : Option String := none
  deriving DecidableEq, Repr

/-- one `finditer` step of `estruct.clause_pattern`: the words consumed and what they set; `none` = not modelled -/
def estructStep : List Tok → Option ((ERep → ERep) × List Tok)
  | .kw .value :: .kw .is :: _ :: rest => some (id, rest)
  | .kw .value :: _ :: rest => some (id, rest)
  | .kw .usage :: .kw .is :: .kw (.u x) :: rest => some (fun r => { r with usage := x.text }, rest)
  | .kw .usage :: .kw (.u x) :: rest => some (fun r => { r with usage := x.text }, rest)
  | .kw .is :: .kw (.u x) :: rest => some (fun r => { r with usage := x.text }, rest)
  | .kw (.u x) :: rest => some (fun r => { r with usage := x.text }, rest)
  | .kw .pic :: .kw .is :: t :: rest => some (fun r => { r with picture := some t.text }, rest)
  | .kw .picture :: .kw .is :: t :: rest => some (fun r => { r with picture := some t.text }, rest)
  | .kw .pic :: t :: rest => some (fun r => { r with picture := some t.text }, rest)
  | .kw .picture :: t :: rest => some (fun r => { r with picture := some t.text }, rest)
  | .other _ :: _ => none          -- a word with other characters in a skipped position may hide a key word
  | _ :: rest => some (id, rest)
  | [] => some (id, [])

def estructGo : Nat → List Tok → ERep → Option ERep
  | _, [], r => some r
  | 0, _ :: _, _ => none
  | fuel + 1, ts@(_ :: _), r =>
    match estructStep ts with
    | some (f, rest) => estructGo fuel rest (f r)
    | none => none

def estructParse (ts : List Tok) : Option ERep := estructGo ts.length ts {}

end Stingray.Clause
