/-!
# Model of `cobol_parser.reference_format` and `cobol_parser.dde_sentences`

Lines are character lists (each normally ending in a line feed).  `refFormat` is the code as
repaired (D18: with a REPLACING list every source line is emitted once, all replacements applied).
`sentences` is a hand-written scanner for the regular expression
`\s*(?P<level>\d\d)\s*(?P<clauses>.*?)\.\s` applied with `finditer` to the joined text.
Imports nothing.
-/
namespace Stingray.RefFormat

abbrev Line := List Char

def isWs (c : Char) : Bool :=
  c == ' ' || c == '\n' || c == '\t' || c == '\r' || c == '\x0b' || c == '\x0c'

def lstrip (l : Line) : Line := l.dropWhile isWs
def rstrip (l : Line) : Line := (l.reverse.dropWhile isWs).reverse
def strip (l : Line) : Line := rstrip (lstrip l)

def directives : List Line := ["EJECT".toList, "SKIP1".toList, "SKIP2".toList, "SKIP3".toList]

/-- column 7 (index 6): the indicator -/
def indicator (l : Line) : Char := l.getD 6 ' '
/-- columns 8–72 (`line[7:72]`) -/
def body (l : Line) : Line := (l.drop 7).take 65

/-- the four filters of `reference_format`: non-blank, not a directive, at least 7 characters,
indicator neither `*` nor `D` -/
def kept (l : Line) : Bool :=
  rstrip l != [] && !(directives.contains (strip l)) && decide (7 ≤ l.length) &&
    indicator l != '*' && indicator l != 'D'

/-- `str.replace(old, new)` for a non-empty `old`: non-overlapping, left to right. Fuel = length. -/
def replaceGo (old new : Line) : Nat → Line → Line
  | 0, s => s
  | _, [] => []
  | fuel + 1, c :: cs =>
    if old.isPrefixOf (c :: cs) then new ++ replaceGo old new fuel ((c :: cs).drop old.length)
    else c :: replaceGo old new fuel cs

def replace1 (s : Line) (p : Line × Line) : Line :=
  if p.1 = [] then s else replaceGo p.1 p.2 s.length s

/-- all the replacements of a REPLACING list, applied in order to one line -/
def applyAll (reps : List (Line × Line)) (s : Line) : Line := reps.foldl replace1 s

inductive RErr | runtimeError | valueError
deriving Repr, DecidableEq

def startsWithCopy (l : Line) : Bool := "COPY".toList.isPrefixOf (strip l)

/-- the continuation loop: a `-` indicator glues the line onto the previous one; a finished line
that starts with COPY is refused -/
def glueGo (cur : Line) : List (Char × Line) → Except RErr (List Line)
  | [] => .ok [cur]
  | (ind, next) :: rest =>
    if ind = '-' then glueGo (cur ++ next) rest
    else if startsWithCopy cur then .error .valueError
    else match glueGo next rest with
      | .error e => .error e
      | .ok ls => .ok (cur :: ls)

def glue : List (Char × Line) → Except RErr (List Line)
  | [] => .error .runtimeError          -- `next()` on an exhausted iterator inside the generator
  | (_, first) :: rest => glueGo first rest

/-- the (indicator, text) pairs after filtering and replacing: one per kept source line -/
def pairs (reps : List (Line × Line)) (ls : List Line) : List (Char × Line) :=
  (ls.filter kept).map fun l => (indicator l, applyAll reps (body l))

def refFormat (reps : List (Line × Line)) (ls : List Line) : Except RErr (List Line) :=
  glue (pairs reps ls)

/-- the same, at the pinned commit (D18): with k replacement pairs every line came out k times,
each copy with ONE of the replacements applied -/
def pairsOrig (reps : List (Line × Line)) (ls : List Line) : List (Char × Line) :=
  if reps = [] then (ls.filter kept).map fun l => (indicator l, body l)
  else (ls.filter kept).flatMap fun l => reps.map fun p => (indicator l, replace1 (body l) p)

/-! ## sentences -/

def isDigit (c : Char) : Bool := '0' ≤ c && c ≤ '9'

def isQuote (c : Char) : Bool := c == '\'' || c == '"'

/-- `'[^']*'` (resp. `"[^"]*"`) after the opening quote `q`: the literal's body and what follows its closing quote -/
def closeQuote (q : Char) : Line → Option (Line × Line)
  | [] => none
  | c :: rest => if c == q then some ([], rest) else (closeQuote q rest).map fun p => (c :: p.1, p.2)

theorem closeQuote_shorter (q : Char) : ∀ (l : Line) (b a : Line), closeQuote q l = some (b, a) → a.length < l.length
  | [], _, _, h => by simp [closeQuote] at h
  | c :: rest, b, a, h => by
    unfold closeQuote at h
    split at h
    · simp at h; obtain ⟨_, rfl⟩ := h; simp
    · cases hr : closeQuote q rest with
      | none => simp [hr] at h
      | some p =>
        simp [hr] at h
        obtain ⟨_, rfl⟩ := h
        have := closeQuote_shorter q rest p.1 p.2 (by rw [hr])
        simp; omega

/-- the clauses of an entry: the text up to the first period followed by white space that is not inside a quoted literal
(`(?>'[^']*'|"[^"]*"|.)*?\.\s`: a quote that is closed later in the text starts a literal, which is skipped as a whole -- an
atomic group, the scanner never re-enters it; a quote that is never closed is an ordinary character); `none` if there is none.
Fuel = length of the text. -/
def untilPeriodGo : Nat → Line → Option (Line × Line)
  | 0, _ => none
  | _, [] => none
  | fuel + 1, c :: rest =>
    if c == '.' then
      match rest with
      | w :: rest' =>
        if isWs w then some ([], rest')
        else (untilPeriodGo fuel rest).map fun p => ('.' :: p.1, p.2)
      | [] => none
    else if isQuote c then
      match closeQuote c rest with
      | some (lit, after) => (untilPeriodGo fuel after).map fun p => (c :: lit ++ c :: p.1, p.2)
      | none => (untilPeriodGo fuel rest).map fun p => (c :: p.1, p.2)
    else (untilPeriodGo fuel rest).map fun p => (c :: p.1, p.2)

def untilPeriod (l : Line) : Option (Line × Line) := untilPeriodGo (l.length + 1) l

/-- one `finditer` attempt at the head of the text -/
def sentenceAt (s : Line) : Option ((Line × Line) × Line) :=
  match s.dropWhile isWs with
  | a :: b :: rest =>
    if isDigit a && isDigit b then
      (untilPeriod (rest.dropWhile isWs)).map fun p => (([a, b], p.1), p.2)
    else none
  | _ => none

/-- `dde_sentences`: all matches, left to right. Fuel = length of the text. -/
def sentencesGo : Nat → Line → List (Line × Line)
  | 0, _ => []
  | _, [] => []
  | fuel + 1, c :: cs =>
    match sentenceAt (c :: cs) with
    | some (m, rest) => m :: sentencesGo fuel rest
    | none => sentencesGo fuel cs

def sentences (text : Line) : List (Line × Line) := sentencesGo (text.length + 1) text

/-- from source lines to (level, clause text) pairs -/
def parseText (reps : List (Line × Line)) (ls : List Line) : Except RErr (List (Line × Line)) :=
  (refFormat reps ls).map fun out => sentences out.flatten

end Stingray.RefFormat
