import Stingray.Model.Picture
/-!
# Model of `estruct.unpack` / `estruct.calcsize` (as repaired) and of the sizes the other unpackers report

Bytes are `Nat`s below 256.  Values are exact: a decimal is `(sign, coefficient, exponent)`
(what `Decimal.as_tuple()` shows), a binary item an `Int`, text a list of code points.
Imports only the picture model.
-/
namespace Stingray.Decode
open Stingray.Picture

/-! ## USAGE -/

inductive Usage13
  | display | comp3 | computational3 | packedDecimal | comp1 | computational1 | comp2 | computational2
  | comp4 | computational4 | binary | comp | computational
deriving DecidableEq, Repr

def Usage13.all : List Usage13 :=
  [.display, .comp3, .computational3, .packedDecimal, .comp1, .computational1, .comp2, .computational2,
   .comp4, .computational4, .binary, .comp, .computational]

def Usage13.spelling : Usage13 → String
  | .display => "DISPLAY" | .comp3 => "COMP-3" | .computational3 => "COMPUTATIONAL-3"
  | .packedDecimal => "PACKED-DECIMAL" | .comp1 => "COMP-1" | .computational1 => "COMPUTATIONAL-1"
  | .comp2 => "COMP-2" | .computational2 => "COMPUTATIONAL-2" | .comp4 => "COMP-4"
  | .computational4 => "COMPUTATIONAL-4" | .binary => "BINARY" | .comp => "COMP"
  | .computational => "COMPUTATIONAL"

def Usage13.ofString (s : String) : Option Usage13 := Usage13.all.find? (·.spelling == s)

inductive Fam | display | packed | float4 | float8 | binary
deriving DecidableEq, Repr

def Usage13.fam : Usage13 → Fam
  | .display => .display
  | .comp3 | .computational3 | .packedDecimal => .packed
  | .comp1 | .computational1 => .float4
  | .comp2 | .computational2 => .float8
  | .comp4 | .computational4 | .binary | .comp | .computational => .binary

/-! ## errors and values -/

inductive DErr
  | valueError | indexError | structError | runtimeError | reError | typeError
deriving DecidableEq, Repr

inductive Val
  | dec (neg : Bool) (coeff : Nat) (exp : Int)
  | int (v : Int)
  | str (cps : List Nat)
deriving DecidableEq, Repr

/-! ## sizes -/

/-- The 2/4/8 ladder of `calcsize` (applied by the code to `picture_size`, which counts the `S`). -/
def binSizeBySize (ps : Nat) : Nat := if ps < 5 then 2 else if ps < 10 then 4 else 8

/-- The 2/4/8 ladder of `unpack` and `Struct.struct_format` (applied to the integer digit count);
`none` = `ValueError("… too large")`. -/
def binWidthByDigits (d : Nat) : Option Nat :=
  if d < 5 then some 2 else if d < 10 then some 4 else if d ≤ 18 then some 8 else none

/-- `estruct.calcsize` on a parsed picture; `none` = `ValueError` (empty picture). -/
def calcsize (u : Usage13) (es : List Elt) : Option Nat :=
  let ps := size es
  let g := groups es
  if ps = 0 then none else
  match u.fam with
  | .display => some ps
  | .packed => some ((g.whole.length + g.frac.length + 2) / 2)
  | .float4 => some 4
  | .float8 => some 8
  | .binary => some (binSizeBySize ps)

/-- `Struct.calcsize`: `struct.calcsize` of `"{ps}s"`, `f`, `d`, `h/i/q` (native alignment irrelevant
for single codes). `none` = error (`ValueError` for packed / too large). -/
def structCalcsize (u : Usage13) (es : List Elt) : Option Nat :=
  match u.fam with
  | .display => some (size es)
  | .packed => none
  | .float4 => some 4
  | .float8 => some 8
  | .binary => binWidthByDigits (groups es).whole.length

/-- `TextUnpacker.calcsize` without `maxLength`: the picture size. -/
def textCalcsize (es : List Elt) : Nat := size es

/-! ## numeric decoders -/

def ofDigits (ds : List Nat) : Nat := ds.foldl (fun a d => a * 10 + d) 0

/-- bytes → half-bytes -/
def nibbles : List Nat → List Nat
  | [] => []
  | b :: bs => (b / 16 % 16) :: (b % 16) :: nibbles bs

def isNeg (sn : Nat) : Bool := sn == 0x0B || sn == 0x0D

/-- zoned decimal (`USAGE DISPLAY`, purely numeric picture). -/
def unpackZoned (frac : Nat) (buf : List Nat) : Except DErr Val :=
  if buf.any (fun b => b % 16 > 9) then .error .valueError else
  match buf.getLast? with
  | none => .error .indexError
  | some last => .ok (.dec (isNeg (last / 16 % 16)) (ofDigits (buf.map (· % 16))) (-(frac : Int)))

/-- packed decimal (`COMP-3`); `declared` = integer + fraction digits of the picture. -/
def unpackPacked (declared frac : Nat) (buf : List Nat) : Except DErr Val :=
  let hb := nibbles buf
  match hb.getLast? with
  | none => .error .valueError
  | some sn =>
    let digits := hb.dropLast
    if digits.any (· > 9) then .error .valueError else
    if digits.length = declared + 1 ∧ digits.head? ≠ some 0 then .error .valueError else
    .ok (.dec (isNeg sn) (ofDigits digits) (-(frac : Int)))

def fromBE (bs : List Nat) : Nat := bs.foldl (fun a b => a * 256 + b) 0

/-- two's complement of width `w` bytes -/
def signedOf (w : Nat) (u : Nat) : Int :=
  if u < 256 ^ w / 2 then (u : Int) else (u : Int) - (256 ^ w : Nat)

/-- binary (`COMP`, `BINARY`, …): `struct.unpack(">h" | ">i" | ">q", buffer)`. -/
def unpackBinary (intDigits : Nat) (buf : List Nat) : Except DErr Val :=
  match binWidthByDigits intDigits with
  | none => .error .valueError
  | some w => if buf.length = w then .ok (.int (signedOf w (fromBE buf))) else .error .structError

/-! ## text -/

/-- What the generated validation pattern demands of one character. -/
inductive M | optSign | lit (c : Char) | word | digit | space | any
deriving DecidableEq, Repr

/-- Per-byte facts about the cp037 decoding of a byte, extracted from Python on every run:
code point, `\w`, `\d`, `\s`. -/
structure ByteInfo where
  cp : Nat
  w : Bool
  d : Bool
  s : Bool
deriving Repr, DecidableEq

/-- `Representation.pattern`, one matcher per pattern atom.  `none` = the pattern contains a bare
`+` (an unescaped quantifier: `re.error` or a different language) — outside the model. -/
def patternOf : List Elt → Option (List M)
  | [] => some []
  | .sign s :: es =>
    if s = ['S'] then (patternOf es).map (M.optSign :: ·)
    else if s = ['+'] then none
    else (patternOf es).map (s.map M.lit ++ ·)
  | .chr c :: es => (patternOf es).map ((if c = 'B' then M.space else M.lit c) :: ·)
  | .dec c :: es => (patternOf es).map ((if c = '.' then [M.lit '.'] else []) ++ ·)
  | .digit cs :: es =>
    (patternOf es).map (cs.map (fun c => if c = 'A' then M.word else if c = 'X' then M.any else M.digit) ++ ·)

def isSignChar (i : ByteInfo) : Bool := i.cp == 32 || i.cp == 43 || i.cp == 45

/-- `re.match(pattern, text, re.DOTALL)` (prefix match, with backtracking over the optional sign). -/
def matchPat : List M → List ByteInfo → Bool
  | [], _ => true
  | .optSign :: ms, t =>
    (match t with
     | i :: t' => isSignChar i && matchPat ms t'
     | [] => false) || matchPat ms t
  | _ :: _, [] => false
  | .lit c :: ms, i :: t => i.cp == c.toNat && matchPat ms t
  | .word :: ms, i :: t => i.w && matchPat ms t
  | .digit :: ms, i :: t => i.d && matchPat ms t
  | .space :: ms, i :: t => i.s && matchPat ms t
  | .any :: ms, _ :: t => matchPat ms t

def unpackText (tbl : List ByteInfo) (es : List Elt) (buf : List Nat) : Except DErr Val :=
  let infos := buf.map fun b => tbl.getD b ⟨0, false, false, false⟩
  match patternOf es with
  | none => .error .reError
  | some pat => if matchPat pat infos then .ok (.str (infos.map (·.cp))) else .error .valueError

/-- `estruct.unpack(format, buffer)` on a parsed format. -/
def unpack (tbl : List ByteInfo) (u : Usage13) (es : List Elt) (buf : List Nat) : Except DErr Val :=
  let g := groups es
  match u.fam with
  | .display => if zonedDecimal es then unpackZoned g.frac.length buf else unpackText tbl es buf
  | .packed => unpackPacked (g.whole.length + g.frac.length) g.frac.length buf
  | .binary => unpackBinary g.whole.length buf
  | .float4 | .float8 => .error .runtimeError

end Stingray.Decode
