import Stingray.Model.Copybook
/-!
# Model of the process-wide state of the library and of the operations that could depend on it

The only objects that outlive a call (state inventory, `Tie/C11.lean`): the class-level counter
`DDE.filler_count`, the class-level set `SchemaMaker.ATOMIC`, and the suffix registry (C14).
`step` is the code as repaired; `stepOrig` is the code at the pinned commit (kept for the
machine-checked counter-witnesses D15, D16).
-/
namespace Stingray.History
open Stingray.Copybook Stingray.Layout

structure G where
  fillerCount : Nat
  atomic : List String
deriving Repr, DecidableEq

def atomic0 : List String := ["null", "boolean", "integer", "number", "string"]
def g0 : G := ⟨0, atomic0⟩

/-- `DDE(*s) for s in sentences` starting from a given counter value -/
def assignNamesFrom (c0 : Nat) (es : List Entry) : Nat × List Entry :=
  let r := es.foldl nameStep (c0, [])
  (r.1, r.2.reverse)

inductive Op where
  | parse (es : List Entry)            -- parse a copybook (structure ∘ dde_sentences ∘ reference_format)
  | mkStd                              -- JSONSchemaMaker()
  | mkExt                              -- JSONSchemaMakerExtendedVocabulary()
  | load (types : List String)         -- SchemaMaker.from_json on a document using these `type` names
  | read (it : Item) (path : List Step)  -- navigate a record of a loaded schema (fixed counts)

inductive Out where
  | names (l : List String)
  | unit
  | kinds (atomic : List Bool)
  | range (r : Option (Nat × Nat))
deriving Repr, DecidableEq

/-- the library as repaired -/
def step (g : G) : Op → G × Out
  | .parse es =>
    let r := assignNamesFrom 0 es           -- `structure()` starts every parse from zero
    ({ g with fillerCount := r.1 }, .names (r.2.map (·.uname)))
  | .mkStd => (g, .unit)
  | .mkExt => (g, .unit)                    -- uses its own SchemaMaker subclass
  | .load types => (g, .kinds (types.map fun t => g.atomic.contains t))
  | .read it path => (g, .range (navRecord (fun _ => 0) it path))

/-- the library at the pinned commit -/
def stepOrig (g : G) : Op → G × Out
  | .parse es =>
    let r := assignNamesFrom g.fillerCount es      -- only a level-01 entry resets the counter
    ({ g with fillerCount := r.1 }, .names (r.2.map (·.uname)))
  | .mkStd => (g, .unit)
  | .mkExt => ({ g with atomic := if g.atomic.contains "decimal" then g.atomic else g.atomic ++ ["decimal"] }, .unit)
  | .load types => (g, .kinds (types.map fun t => g.atomic.contains t))
  | .read it path => (g, .range (navRecord (fun _ => 0) it path))

def run (st : G → Op → G × Out) : G → List Op → List Out
  | _, [] => []
  | g, op :: ops => (st g op).2 :: run st (st g op).1 ops

def finalState (st : G → Op → G × Out) : G → List Op → G
  | g, [] => g
  | g, op :: ops => finalState st (st g op).1 ops

end Stingray.History
