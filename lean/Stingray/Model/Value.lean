import Stingray.Model.Layout
/-!
# Model of `Location.value` / `Location.raw` (what `NDNav.value()` and `Row.values()` return)

The decoder of an elementary item is a parameter `dec : Key → List Nat → Except String V`
(C02 models the real one); values are trees.  `fuel` bounds the depth of the evaluation (every
node and every `$ref` hop consumes one unit; the driver supplies more than any schema needs).
`touched` lists the byte ranges an evaluation reads: the evaluation depends on nothing else
(`Props/C10.lean`).
-/
namespace Stingray.Layout

inductive Val (V : Type) where
  | atom (v : V)
  | arr (items : List (Val V))
  | obj (props : List (Key × Val V))

abbrev Bytes := List Nat

def slice (inst : Bytes) (s sz : Nat) : Bytes := (inst.drop s).take sz

section
variable {V : Type} (env : Env) (dec : Key → Bytes → Except String V) (anch : Anch) (inst : Bytes)

def sequence {α : Type} : List (Except String α) → Except String (List α)
  | [] => .ok []
  | x :: xs =>
    match x with
    | .error e => .error e
    | .ok v => match sequence xs with
      | .error e => .error e
      | .ok vs => .ok (v :: vs)

/-- evaluate the properties of an object left to right with the evaluator `ev`, each at its own
recorded start (the running sum of the sizes) -/
def evalProps {α : Type} (ev : Sch → Nat → Except String α) : List (Key × Sch) → Nat → Except String (List (Key × α))
  | [], _ => .ok []
  | (k, p) :: ps, s0 =>
    match ev p s0 with
    | .error e => .error e
    | .ok v => match evalProps ev ps (s0 + size env p) with
      | .error e => .error e
      | .ok vs => .ok ((k, v) :: vs)

/-- `loc.value(instance, offset)` for the location of `sch` whose recorded start is `s0`
(the start of element 0 when it sits inside arrays); the bytes read are at `s0 + off`. -/
def valueAt : Nat → Sch → Nat → Nat → Except String (Val V)
  | 0, _, _, _ => .error "fuel"
  | _ + 1, .atomic a sz, s0, off => (dec a (slice inst (s0 + off) sz)).map Val.atom
  | f + 1, .array _ n it, s0, off =>
    (sequence ((List.range (cnt env n)).map fun i => valueAt f it s0 (off + size env it * i))).map Val.arr
  | f + 1, .object _ ps, s0, off => (evalProps env (fun p s => valueAt f p s off) ps s0).map Val.obj
  | f + 1, .oneOf _ alts, s0, off =>
    match alts with
    | [] => .error "ValueError"          -- `first, *others = …` on an empty dict
    | a :: _ => valueAt f a s0 off
  | f + 1, .ref t, _, off =>
    -- `self.referent.value(instance, offset)`: the referent's own recorded start, same offset
    match lookupLast anch t with
    | some (sch', s0') => valueAt f sch' s0' off
    | none => .error "KeyError"

def touchProps (tv : Sch → Nat → List (Nat × Nat)) : List (Key × Sch) → Nat → List (Nat × Nat)
  | [], _ => []
  | (_, p) :: ps, s0 => tv p s0 ++ touchProps tv ps (s0 + size env p)

/-- the byte ranges `(start, size)` the evaluation reads -/
def touched : Nat → Sch → Nat → Nat → List (Nat × Nat)
  | 0, _, _, _ => []
  | _ + 1, .atomic _ sz, s0, off => [(s0 + off, sz)]
  | f + 1, .array _ n it, s0, off =>
    (List.range (cnt env n)).flatMap fun i => touched f it s0 (off + size env it * i)
  | f + 1, .object _ ps, s0, off => touchProps env (fun p s => touched f p s off) ps s0
  | f + 1, .oneOf _ alts, s0, off => match alts with | [] => [] | a :: _ => touched f a s0 off
  | f + 1, .ref t, _, off =>
    match lookupLast anch t with | some (sch', s0') => touched f sch' s0' off | none => []

end

/-- `Row.values()`: the values of the top-level properties in schema order. -/
def rowValues {V : Type} (env : Env) (dec : Key → Bytes → Except String V) (anch : Anch) (inst : Bytes)
    (fuel : Nat) (sch : Sch) : Except String (List (Val V)) :=
  match sch with
  | .object _ ps => (evalProps env (fun p s => valueAt env dec anch inst fuel p s 0) ps 0).map (·.map (·.2))
  | _ => .error "TypeError"

end Stingray.Layout
