import Stingray.Model.Decode
import Stingray.Model.Layout
/-!
# Model of what the schema generator says about an elementary item (`JSONSchemaMaker.json_type`,
both vocabularies) and of the Python type each decoder delivers.
-/
namespace Stingray.Schema
open Stingray.Decode Stingray.Picture

/-- (`type`, `contentEncoding`, `conversion`) -/
structure JType where
  type : String
  encoding : Option String
  conversion : Option String
deriving Repr, DecidableEq

/-- `JSONSchemaMaker.json_type`: decided by the USAGE and, for DISPLAY, by the *raw* picture text -/
def jsonType (u : Usage13) (numericRaw : Bool) : JType :=
  match u.fam with
  | .display => if numericRaw then ⟨"string", some "cp037", some "decimal"⟩ else ⟨"string", some "cp037", none⟩
  | .packed => ⟨"string", some "packed-decimal", some "decimal"⟩
  | .binary => ⟨"integer", some "bigendian-int", none⟩
  | .float4 => ⟨"number", some "bigendian-float", none⟩
  | .float8 => ⟨"number", some "bigendian-double", none⟩

/-- `JSONSchemaMakerExtendedVocabulary.json_type`: vocabulary types in place of encodings -/
def jsonTypeExt (u : Usage13) (numericRaw : Bool) : String :=
  match u.fam with
  | .display => if numericRaw then "decimal" else "string"
  | .packed => "decimal"
  | .binary => "integer"
  | .float4 | .float8 => "number"

inductive PyType | decimal | int | str | float
deriving Repr, DecidableEq

/-- the Python type the schema DECLARES for the values of an item -/
def declared (j : JType) : PyType :=
  match j.conversion, j.type with
  | some "decimal", _ => .decimal
  | _, "integer" => .int
  | _, "number" => .float
  | _, _ => .str

/-- the Python type `EBCDIC.value` DELIVERS (the decoder's result passed through the conversion) -/
def delivered (u : Usage13) (es : List Elt) : PyType :=
  match u.fam with
  | .display => if zonedDecimal es then .decimal else .str
  | .packed => .decimal
  | .binary => .int
  | .float4 | .float8 => .float       -- (not decoded by the code at all)

end Stingray.Schema
