/-!
# Model of the conversion helpers of `schema_instance` (as repaired)

```python
def digit_string(size, value):  return (size * "0" + str(int(value)))[-size:]
def decimal_places(digits, value):
    digits_right = Decimal((0, (1,), -digits))
    return Decimal(value).quantize(digits_right)
```
`str(int)` is `Nat.toDigits 10`; an exact `Decimal` is a triple (sign, coefficient, exponent);
`quantize` is round-half-even to the exponent `-digits`, refused (`InvalidOperation`) when the
result would need more than `prec = 28` digits.  Imports nothing.
-/
namespace Stingray.Convert

/-- Python `s[-n:]` for a list. (`n = 0` gives the whole list, as in Python.) -/
def lastN (n : Nat) (l : List α) : List α := if n = 0 then l else l.drop (l.length - n)

/-- `digit_string(size, v)` for a non-negative integer value `v` (however it arrived). -/
def digitString (size v : Nat) : List Char :=
  lastN size (List.replicate size '0' ++ Nat.toDigits 10 v)

/-- An exact decimal: `(-1)^neg * coeff * 10^exp`. -/
structure Dec where
  neg : Bool
  coeff : Nat
  exp : Int
deriving Repr, DecidableEq

/-- Context precision of Python's default decimal context. -/
def prec : Nat := 28

/-- Round-half-even division of `c` by `m`. -/
def divHalfEven (c m : Nat) : Nat :=
  let q := c / m
  let r := c % m
  if 2 * r > m ∨ (2 * r = m ∧ q % 2 = 1) then q + 1 else q

/-- The coefficient after rescaling to exponent `-d` (exact when digits are appended, half-even when dropped). -/
def qcoeff (d : Nat) (x : Dec) : Nat :=
  if x.exp ≥ -(d : Int) then x.coeff * 10 ^ (x.exp + d).toNat
  else divHalfEven x.coeff (10 ^ (-(d : Int) - x.exp).toNat)

/-- `Decimal.quantize(Decimal((0,(1,),-d)))`; `none` = `decimal.InvalidOperation`. -/
def quantize (d : Nat) (x : Dec) : Option Dec :=
  if qcoeff d x < 10 ^ prec then some ⟨x.neg, qcoeff d x, -(d : Int)⟩ else none

/-- `decimal_places(d, value)` where `Decimal(value)` is the exact decimal `x`. -/
def decimalPlaces (d : Nat) (x : Dec) : Option Dec := quantize d x

/-- The result types named by the schema vocabulary's `conversion` keyword. -/
inductive PyType | none | bool | int | float | str | decimal | same
deriving Repr, DecidableEq

/-- `CONVERSION`: conversion name ↦ the Python type its function returns (`same` = identity). -/
def conversionType : Option String → Option PyType
  | some "null" => some .none
  | some "bool" => some .bool
  | some "integer" => some .int
  | some "number" => some .float
  | some "string" => some .str
  | some "decimal" => some .decimal
  | Option.none => some .same
  | _ => Option.none

end Stingray.Convert
