/-!
# Model of the workbook facade (`Workbook` / `Sheet` / `Row`, schema loaders, `WBNav`, the suffix
registry and the open/close life cycle)

A physical format is abstracted to what its unpacker delivers: sheets, each a list of rows, each a
list of cells (`sheet_iter`, `instance_iter`).  Everything above that is this repository's code
and is modelled here.  Imports nothing.
-/
namespace Stingray.Facade

abbrev Cell := String
abbrev RowData := List Cell

/-- what an unpacker delivers for an open workbook -/
abbrev Delivered := List (String × List RowData)

/-! ## schema loaders and `Sheet.row_iter` -/

inductive Loader | none | headingRow
deriving Repr, DecidableEq

/-- `HeadingRowSchemaLoader.header`: the property table `name ↦ position` (a Python dict keyed by
`str(name)`: a repeated heading keeps its first position in the order and takes the last value) -/
def dictInsert {α : Type} : List (String × α) → String → α → List (String × α)
  | [], k, v => [(k, v)]
  | (k', v') :: rest, k, v => if k' == k then (k, v) :: rest else (k', v') :: dictInsert rest k v

def headingSchemaGo : List String → Nat → List (String × Nat) → List (String × Nat)
  | [], _, acc => acc
  | h :: hs, n, acc => headingSchemaGo hs (n + 1) (dictInsert acc h n)

def headingSchema (hdr : List String) : List (String × Nat) := headingSchemaGo hdr 0 []

/-- `Sheet.row_iter` (as repaired: an empty sheet yields no rows): (schema taken from the sheet, rows delivered) -/
def rowIter : Loader → List RowData → Option (List (String × Nat)) × List RowData
  | .none, rows => (none, rows)
  | .headingRow, [] => (none, [])
  | .headingRow, hdr :: body => (some (headingSchema hdr), body)

/-! ## the `Sheet` object over its life: `set_schema`, `set_schema_loader`, any number of passes -/

/-- what a `Sheet` keeps between calls: its loader and the schema bound to it (if any) -/
structure Sheet where
  loader : Loader := .none
  schema : Option (List (String × Nat)) := none
  deriving Repr, DecidableEq

inductive SOp
  | setSchema (s : List (String × Nat))     -- `set_schema`: binds the schema AND installs the do-nothing loader
  | setLoader (l : Loader)                  -- `set_schema_loader`
  | pass (rows : List RowData)              -- one complete `rows()` pass over what the unpacker delivers this time
  deriving Repr

/-- one operation: the new sheet state and, for a pass, (schema in force, rows delivered) -/
def Sheet.step (s : Sheet) : SOp → Sheet × Option (Option (List (String × Nat)) × List RowData)
  | .setSchema sch => ({ loader := .none, schema := some sch }, none)
  | .setLoader l => ({ s with loader := l }, none)
  | .pass rows =>
    match rowIter s.loader rows with
    | (some sch, body) => ({ s with schema := some sch }, some (some sch, body))   -- the header phase re-binds the schema
    | (none, body) => (s, some (s.schema, body))

def Sheet.run (s : Sheet) (ops : List SOp) : Sheet := ops.foldl (fun s op => (s.step op).1) s

/-! ## `WBNav.name`, `Row.values` -/

def lookup {α : Type} (k : String) : List (String × α) → Option α
  | [] => none
  | (k', v) :: rest => if k' == k then some v else lookup k rest

inductive FErr | keyError
deriving Repr, DecidableEq

/-- `row.name(k).value()`: the cell at the property's position; a row too short for it gives the
library's "absent" marker (`none` here, `[None]` in the code) -/
def nameValue (schema : List (String × Nat)) (r : RowData) (k : String) : Except FErr (Option Cell) :=
  match lookup k schema with
  | none => .error .keyError
  | some p => .ok r[p]?

/-- `row.values()`: the values of the properties in schema order -/
def rowValues (schema : List (String × Nat)) (r : RowData) : List (Option Cell) :=
  schema.map fun p => r[p.2]?

/-- `ExternalSchemaLoader.load`: one property per row of the (name, description, type) sheet -/
def externalSchema (rows : List (String × String × String)) : List (String × Nat) :=
  headingSchema (rows.map (·.1))

/-! ## what a client observes of a workbook through the uniform calls -/

structure SheetObs where
  name : String
  header : List String
  rows : List (List (Option Cell))        -- per row: the value under every header name, in header order
deriving Repr, DecidableEq

def observeSheet (s : String × List RowData) : SheetObs :=
  match rowIter .headingRow s.2 with
  | (some sch, body) => ⟨s.1, sch.map (·.1), body.map (rowValues sch)⟩
  | (none, body) => ⟨s.1, [], body.map fun r => r.map some⟩

def observe (d : Delivered) : List SheetObs := d.map observeSheet

/-! ## the suffix registry -/

abbrev Registry := List (String × String)         -- suffix ↦ class name, in registration order

def register (r : Registry) (suffixes : List String) (cls : String) : Registry :=
  suffixes.foldl (fun acc s => dictInsert acc s cls) r

inductive OpenResult | opened (cls : String) | notImplemented
deriving Repr, DecidableEq

/-- `open_workbook(path)`: by suffix only; an unknown suffix is refused before anything is opened -/
def openWorkbook (r : Registry) (suffix : String) : OpenResult :=
  match lookup suffix r with
  | some c => .opened c
  | none => .notImplemented

/-! ## life cycle: handles held on the workbook's file -/

structure WB where
  handles : Nat            -- OS handles this workbook holds on its file (0 or 1)
  closed : Bool
deriving Repr, DecidableEq

inductive LOp
  | openFile               -- the constructor opens the file (or adopts the caller's file object)
  | iterate                -- sheets / rows are read
  | raise                  -- the body of the with-block raises
  | exit                   -- __exit__ (normal or exceptional) calls close()
  | close                  -- an explicit close()
deriving Repr, DecidableEq

def lstep (w : WB) : LOp → WB
  | .openFile => ⟨1, false⟩
  | .iterate => w
  | .raise => w
  | .exit => ⟨0, true⟩       -- `if hasattr(self, "the_file") and self.the_file: close(); del the_file`
  | .close => ⟨0, true⟩

def lrun (w : WB) (ops : List LOp) : WB := ops.foldl lstep w

/-! ## the record length an EBCDIC sheet works with (`COBOL_EBCDIC_Sheet.set_schema`)

The workbook carries the `lrecl` argument of its constructor (absent or 0 = not given; `if wb.lrecl:`).  Each `set_schema` on any
sheet of the workbook stores the length the SHEET works with: the given one, else the end of the layout just bound.  The
workbook itself is not written. -/

structure EFile where
  lrecl : Option Nat
deriving Repr, DecidableEq

def EFile.given (f : EFile) : Option Nat :=
  match f.lrecl with
  | some n => if n = 0 then none else some n
  | none => none

/-- one `set_schema(schema)` whose layout ends at `layoutLen`: the workbook afterwards and the sheet's `lrecl` -/
def EFile.setSchema (f : EFile) (layoutLen : Nat) : EFile × Nat := (f, f.given.getD layoutLen)

/-- a history of `set_schema` calls (on the same sheet or on new sheets of the workbook): each call's sheet `lrecl` -/
def EFile.run (f : EFile) : List Nat → EFile × List Nat
  | [] => (f, [])
  | l :: ls =>
    let (f1, x) := f.setSchema l
    let (f2, xs) := f1.run ls
    (f2, x :: xs)

end Stingray.Facade
