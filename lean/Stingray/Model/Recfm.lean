/-!
# Model of `estruct.RECFM_N / RECFM_F / RECFM_V / RECFM_VB`

A file is a `List Nat` (bytes); `source.read n` returns the next `min n remaining` bytes.
Every definition here is executable and is run by `Driver.lean` against the real readers
(`harness/c05.py`).  The theorems about these definitions are in `Stingray/Props/C05.lean`.
Imports nothing.
-/
namespace Stingray.Recfm

abbrev Bytes := List Nat

/-! ## Length words: `struct.pack(">H2x", n)` / `struct.unpack(">H2x", b)` -/

/-- `struct.pack(">H2x", n)`; Python raises `struct.error` when `n ≥ 65536`. -/
def word (n : Nat) : Bytes := [n / 256, n % 256, 0, 0]

/-- `struct.unpack(">H2x", b)[0]`: needs exactly four bytes. -/
def unword : Bytes → Option Nat
  | [a, b, _, _] => some (a * 256 + b)
  | _ => none

/-! ## RECFM_N — no headers, the consumer announces the length it used -/

structure St where
  buf : Bytes
  src : Bytes
deriving Repr

/-- `RECFM_N.__init__`: `self.buffer = self.source.read(cap)` (cap = 32768 in the code). -/
def initN (cap : Nat) (file : Bytes) : St := ⟨file.take cap, file.drop cap⟩

/-- The refill statement of `RECFM_N.record_iter` as repaired (`fix:` commit for D9):
`remaining = buffer[used:]; buffer = remaining + source.read(cap - len(remaining))`. -/
def stepN (cap : Nat) (s : St) (used : Nat) : St :=
  let rem := s.buf.drop used
  ⟨rem ++ s.src.take (cap - rem.length), s.src.drop (cap - rem.length)⟩

/-- The refill statement as it was at the pinned commit:
`buffer = buffer[used:] + source.read(cap - used)`.  Kept for the machine-checked
counter-witness `C05.N_orig_counterexample`. -/
def stepNOrig (cap : Nat) (s : St) (used : Nat) : St :=
  let rem := s.buf.drop used
  ⟨rem ++ s.src.take (cap - used), s.src.drop (cap - used)⟩

/-- How the generator loop ends. -/
inductive EndN | exhausted | noBytesConsumed | consumerStopped
deriving Repr, DecidableEq

/-- The consumer loop.  At each `yield` the consumer sees the whole buffer, takes its first `l`
bytes as its record and announces `l` through `used()`.  `l = 0` is the code's
`RuntimeError("no bytes consumed…")`. -/
def runN (step : St → Nat → St) : St → List Nat → List Bytes × EndN × St
  | s, [] => ([], if s.buf = [] then .exhausted else .consumerStopped, s)
  | s, l :: ls =>
    if s.buf = [] then ([], .exhausted, s) else
    if l = 0 then ([s.buf.take 0], .noBytesConsumed, s) else
    let (rs, e, s') := runN step (step s l) ls
    (s.buf.take l :: rs, e, s')

/-- Read a whole RECFM_N file with the consumer announcing `lens`. -/
def readN (cap : Nat) (file : Bytes) (lens : List Nat) : List Bytes × EndN × St :=
  runN (stepN cap) (initN cap file) lens

/-! ## RECFM_F / FB -/

/-- `RECFM_F.record_iter` body after the `lrecl` guard: `read(lrecl)` until empty.
Fuel = file length (each step consumes `lrecl > 0` bytes). -/
def chunks (lrecl : Nat) : Nat → Bytes → List Bytes
  | 0, _ => []
  | fuel + 1, file =>
    if file = [] then [] else file.take lrecl :: chunks lrecl fuel (file.drop lrecl)

/-- `RECFM_F(source, lrecl).record_iter()`; `none` = `TypeError` (lrecl missing or 0). -/
def readF (lrecl : Nat) (file : Bytes) : Option (List Bytes) :=
  if lrecl = 0 then none else some (chunks lrecl file.length file)

/-- `RECFM_F.rdw_iter`: each record with a freshly made RDW in front.
`none` = `TypeError`, or `struct.error` when a length word would not fit 16 bits. -/
def rdwF (lrecl : Nat) (file : Bytes) : Option (List Bytes) :=
  match readF lrecl file with
  | none => none
  | some rs => if rs.all (fun r => r.length + 4 < 65536)
               then some (rs.map fun r => word (r.length + 4) ++ r) else none

/-! ## RECFM_V -/

inductive Err | structError | assertion | diverges
deriving Repr, DecidableEq

/-- `RECFM_V._data_iter`: `(rdw, data)` pairs.  A length word below 4 makes Python call
`read(negative)`, i.e. read everything that is left.  Fuel = file length + 1. -/
def dataV : Nat → Bytes → Except Err (List (Bytes × Bytes))
  | 0, _ => .ok []
  | fuel + 1, file =>
    let rdw := file.take 4
    if rdw = [] then .ok [] else
    match unword rdw with
    | none => .error .structError
    | some size =>
      let rest := file.drop 4
      let n := if size < 4 then rest.length else size - 4
      match dataV fuel (rest.drop n) with
      | .error e => .error e
      | .ok ps => .ok ((rdw, rest.take n) :: ps)

def readV (file : Bytes) : Except Err (List Bytes) :=
  (dataV (file.length + 1) file).map (·.map (·.2))

def rdwV (file : Bytes) : Except Err (List Bytes) :=
  (dataV (file.length + 1) file).map (·.map fun p => p.1 ++ p.2)

/-! ## RECFM_VB -/

/-- The inner loop of `RECFM_VB._data_iter` over one block's data.
`offset != len(block)`; `assert offset + 4 < len(block)`; a zero length word never advances
(`.diverges`).  Fuel = block length. -/
def splitBlock : Nat → Bytes → Except Err (List (Bytes × Bytes))
  | 0, blk => if blk = [] then .ok [] else .error .diverges
  | fuel + 1, blk =>
    if blk = [] then .ok [] else
    if ¬ (4 < blk.length) then .error .assertion else
    let rdw := blk.take 4
    match unword rdw with
    | none => .error .structError
    | some size =>
      if size = 0 then .error .diverges else
      if blk.length < size then .error .assertion else   -- offset overshoots: next pass fails the assert
      match splitBlock fuel (blk.drop size) with
      | .error e => .error e
      | .ok ps => .ok ((rdw, (blk.take size).drop 4) :: ps)

/-- `RECFM_VB.bdw_iter`: blocks with their BDW.  Fuel = file length + 1. -/
def blocksVB : Nat → Bytes → Except Err (List (Bytes × Bytes))
  | 0, _ => .ok []
  | fuel + 1, file =>
    let bdw := file.take 4
    if bdw = [] then .ok [] else
    match unword bdw with
    | none => .error .structError
    | some size =>
      let rest := file.drop 4
      let n := if size < 4 then rest.length else size - 4
      match blocksVB fuel (rest.drop n) with
      | .error e => .error e
      | .ok bs => .ok ((bdw, rest.take n) :: bs)

def bdwVB (file : Bytes) : Except Err (List Bytes) :=
  (blocksVB (file.length + 1) file).map (·.map fun p => p.1 ++ p.2)

/-- `RECFM_VB._data_iter`: read a BDW, the block, split it, then the next BDW (in that order, so
an error in a block is met before the following BDW is looked at).  Fuel = file length + 1. -/
def dataVBgo : Nat → Bytes → Except Err (List (Bytes × Bytes))
  | 0, _ => .ok []
  | fuel + 1, file =>
    let bdw := file.take 4
    if bdw = [] then .ok [] else
    match unword bdw with
    | none => .error .structError
    | some size =>
      let rest := file.drop 4
      let n := if size < 4 then rest.length else size - 4
      let blk := rest.take n
      match splitBlock blk.length blk with
      | .error e => .error e
      | .ok ps => match dataVBgo fuel (rest.drop n) with
        | .error e => .error e
        | .ok qs => .ok (ps ++ qs)

def dataVB (file : Bytes) : Except Err (List (Bytes × Bytes)) := dataVBgo (file.length + 1) file

def readVB (file : Bytes) : Except Err (List Bytes) := (dataVB file).map (·.map (·.2))
def rdwVB (file : Bytes) : Except Err (List Bytes) := (dataVB file).map (·.map fun p => p.1 ++ p.2)

/-! ## the source: a file object at some position

`RECFM_Reader.__init__` keeps the caller's file object as it is (`self.source = source`): a reader made on a source that the caller
has positioned -- past a label, past junk, or after another reader took some records -- reads from THAT position on.  `pos` bytes of
`data` have been consumed already. -/

structure Source where
  data : Bytes
  pos : Nat
deriving Repr

/-- what `source.read(-1)` would still deliver -/
def Source.rest (s : Source) : Bytes := s.data.drop s.pos

def Source.readF (lrecl : Nat) (s : Source) : Option (List Bytes) := Recfm.readF lrecl s.rest
def Source.readV (s : Source) : Except Err (List Bytes) := Recfm.readV s.rest
def Source.rdwV (s : Source) : Except Err (List Bytes) := Recfm.rdwV s.rest
def Source.readVB (s : Source) : Except Err (List Bytes) := Recfm.readVB s.rest
def Source.readN (cap : Nat) (s : Source) (lens : List Nat) : List Bytes × EndN × St := Recfm.readN cap s.rest lens

end Stingray.Recfm
