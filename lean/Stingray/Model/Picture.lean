/-!
# Model of COBOL PICTURE scanning

Two scanners exist in the code: `estruct.Representation.normalize_picture` (decoder side) and
`cobol_parser.normalize_picture` (schema-generator side).  Both run the same alternation

    sign  \+|-|S|DB|CR      char  \$|,|/|\*|B      decimal  V|\.
    repeat [AX9Z0]\(\d+\)   digit [AX9Z0]+

with `finditer`, case-insensitively (ASCII), and — as repaired — refuse a picture unless the
matches tile it from the first to the last character (no character is skipped) and no repeat count
is zero.  `tok` is one step of `finditer` at the current position; `scan` is the loop.
Imports nothing.
-/
namespace Stingray.Picture

/-- ASCII upper-casing (the scanners are ASCII case-insensitive; non-ASCII text is refused). -/
def upc : Char → Char
  | 'a' => 'A' | 'b' => 'B' | 'c' => 'C' | 'd' => 'D' | 'e' => 'E' | 'f' => 'F' | 'g' => 'G'
  | 'h' => 'H' | 'i' => 'I' | 'j' => 'J' | 'k' => 'K' | 'l' => 'L' | 'm' => 'M' | 'n' => 'N'
  | 'o' => 'O' | 'p' => 'P' | 'q' => 'Q' | 'r' => 'R' | 's' => 'S' | 't' => 'T' | 'u' => 'U'
  | 'v' => 'V' | 'w' => 'W' | 'x' => 'X' | 'y' => 'Y' | 'z' => 'Z' | c => c

def isRep (c : Char) : Bool := c == 'A' || c == 'X' || c == '9' || c == 'Z' || c == '0'
def isDig (c : Char) : Bool := '0' ≤ c && c ≤ '9'

/-- One normalised picture element (`{"sign": …}`, `{"char": …}`, `{"decimal": …}`, `{"digit": …}`). -/
inductive Elt
  | sign (s : List Char)          -- "+", "-", "S", "DB", "CR"
  | chr (c : Char)                -- $ , / * B
  | dec (c : Char)                -- V or .
  | digit (cs : List Char)        -- run of A X 9 Z 0 (a repeat is expanded here)
deriving Repr, DecidableEq

inductive PErr | invalidChars | zeroRepeat | nonAscii
deriving Repr, DecidableEq

deriving instance DecidableEq for Except

def digitsVal (ds : List Char) : Nat := ds.foldl (fun a d => a * 10 + (d.toNat - '0'.toNat)) 0

/-- The alternative `[AX9Z0]\(\d+\)` after its first character `c`: `r` is what follows `c`. -/
def repeatAt (c : Char) (r : List Char) : Option (Except PErr Elt × List Char) :=
  match r with
  | '(' :: r' =>
    if r'.takeWhile isDig = [] then none else
    match r'.dropWhile isDig with
    | ')' :: r'' =>
      if digitsVal (r'.takeWhile isDig) = 0 then some (.error .zeroRepeat, r'')
      else some (.ok (.digit (List.replicate (digitsVal (r'.takeWhile isDig)) c)), r'')
    | _ => none
  | _ => none

/-- `[AX9Z0]` at `c`: the repeat alternative is tried before the plain run `[AX9Z0]+`. -/
def tokRep (c : Char) (r : List Char) : Except PErr Elt × List Char :=
  match repeatAt c r with
  | some x => x
  | none => (.ok (.digit (c :: r.takeWhile isRep)), r.dropWhile isRep)

/-- One `finditer` step at the head of (upper-cased) `s`: the element matched and what follows;
`none` = no alternative matches here. -/
def tok : List Char → Option (Except PErr Elt × List Char)
  | '+' :: r => some (.ok (.sign ['+']), r)
  | '-' :: r => some (.ok (.sign ['-']), r)
  | 'S' :: r => some (.ok (.sign ['S']), r)
  | 'D' :: 'B' :: r => some (.ok (.sign ['D', 'B']), r)
  | 'C' :: 'R' :: r => some (.ok (.sign ['C', 'R']), r)
  | '$' :: r => some (.ok (.chr '$'), r)
  | ',' :: r => some (.ok (.chr ','), r)
  | '/' :: r => some (.ok (.chr '/'), r)
  | '*' :: r => some (.ok (.chr '*'), r)
  | 'B' :: r => some (.ok (.chr 'B'), r)
  | 'V' :: r => some (.ok (.dec 'V'), r)
  | '.' :: r => some (.ok (.dec '.'), r)
  | c :: r => if isRep c then some (tokRep c r) else none
  | [] => none

/-- The `finditer` loop with the tiling check: every position must start a match. Fuel = length. -/
def scanGo : Nat → List Char → Except PErr (List Elt)
  | _, [] => .ok []
  | 0, _ :: _ => .error .invalidChars
  | fuel + 1, s =>
    match tok s with
    | none => .error .invalidChars
    | some (.error e, _) => .error e
    | some (.ok e, r) =>
      match scanGo fuel r with
      | .error x => .error x
      | .ok es => .ok (e :: es)

/-- `normalize_picture(source)`: `ValueError` or the element list. -/
def scan (s : List Char) : Except PErr (List Elt) :=
  if s.all (fun c => c.toNat < 128) then scanGo s.length (s.map upc) else .error .nonAscii

/-! ## What `Representation` derives from the elements -/

/-- `Representation.parse`: the size sum. -/
def eltSize : Elt → Nat
  | .sign s => s.length
  | .chr _ => 1
  | .dec c => if c = '.' then 1 else 0
  | .digit cs => cs.length

def size (es : List Elt) : Nat := (es.map eltSize).sum

/-- `digit_groups`: [sign, whole, separator, fraction]. -/
structure Groups where
  sign : List Char
  whole : List Char
  sep : List Char
  frac : List Char
deriving Repr, DecidableEq

def groupsGo : List Elt → Bool → Groups → Groups
  | [], _, g => g
  | .dec c :: es, _, g => groupsGo es true { g with sep := [c] }
  | .digit cs :: es, inFrac, g =>
    groupsGo es inFrac (if inFrac then { g with frac := g.frac ++ cs } else { g with whole := g.whole ++ cs })
  | .chr c :: es, inFrac, g =>
    let add := if c = '*' then ['9'] else []
    groupsGo es inFrac (if inFrac then { g with frac := g.frac ++ add } else { g with whole := g.whole ++ add })
  | .sign s :: es, inFrac, g => groupsGo es inFrac { g with sign := s }

def groups (es : List Elt) : Groups := groupsGo es false ⟨[], [], [], []⟩

def hasEdit (es : List Elt) : Bool := es.any fun | .chr _ => true | _ => false

/-- `zoned_decimal`: the decoder's numeric-versus-text classification. -/
def zonedDecimal (es : List Elt) : Bool :=
  let g := groups es
  size es != 0 && (g.sign == [] || g.sign == ['S']) && g.whole.all (· == '9')
    && (g.sep == [] || g.sep == ['V']) && g.frac.all (· == '9') && !hasEdit es

/-- `json_type`'s test on the *raw* picture text: every character is one of S V P 9 (any case). -/
def genNumeric (raw : List Char) : Bool :=
  !raw.isEmpty && raw.all fun c => let u := upc c; u == 'S' || u == 'V' || u == 'P' || u == '9'

/-- What both sides agree on for an accepted picture. -/
structure Summary where
  positions : Nat
  signed : Bool
  intDigits : Nat
  fracDigits : Nat
  numeric : Bool
deriving Repr, DecidableEq

def summary (es : List Elt) : Summary :=
  let g := groups es
  ⟨size es, g.sign != [], g.whole.length, g.frac.length, zonedDecimal es⟩

end Stingray.Picture
