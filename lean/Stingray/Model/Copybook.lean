import Stingray.Model.Layout
/-!
# Model of `cobol_parser.structure()` and of the path from DDE entries to item trees

* `Entry` — one data description entry as `clause_dict` delivers it (level number, data name or
  FILLER/none, REDEFINES target, OCCURS, elementary size).
* `assignNames` — `DDE.__init__`: FILLER / unnamed entries get `FILLER-n`, numbered in source order;
  the counter restarts at every level-01 entry (and, as repaired, at the start of `structure()`).
* `buildForest` — `structure()`: the stack walk over level numbers (66/77/88 entries contribute
  nothing; the first entry always opens the first tree).
* `toItem` — the shape `build_json_schema` gives a DDE tree: adjacent redefiners are grouped with
  their base item (`Layout.Item` clusters), ready for `Layout.emit`.
-/
namespace Stingray.Copybook
open Stingray.Layout

structure Entry where
  level : Nat
  name : Option String          -- none = unnamed or FILLER
  redefines : Option String := none
  occ : Option Count := none
  size : Option Nat := none     -- some = elementary (has a PICTURE); none = group
  uname : String := ""          -- the unique name, filled in by `assignNames`
deriving Repr, DecidableEq

inductive Tree where
  | node (e : Entry) (kids : List Tree)
deriving Repr

mutual
def preorder : Tree → List Entry
  | .node e ks => e :: preorderL ks
def preorderL : List Tree → List Entry
  | [] => []
  | t :: ts => preorder t ++ preorderL ts
end

/-! ## unique names -/

def nameStep (acc : Nat × List Entry) (e : Entry) : Nat × List Entry :=
  let count := if e.level = 1 then 0 else acc.1
  match e.name with
  | some n => (count, { e with uname := n } :: acc.2)
  | none => (count + 1, { e with uname := "FILLER-" ++ toString (count + 1) } :: acc.2)

/-- `DDE(*s) for s in sentences`: names are assigned in source order, to every entry (also to the
66/77/88 entries that `structure()` then skips). -/
def assignNames (es : List Entry) : List Entry := (es.foldl nameStep (0, [])).2.reverse

/-! ## `structure()` -/

/-- an open node: its entry and the children closed so far, most recent first -/
structure Frame where
  e : Entry
  kidsRev : List Tree

structure St where
  rootsRev : List Tree      -- finished trees, most recent first
  stack : List Frame        -- innermost open node first  (Python: `bottom` and its parent chain)

def closeTop : St → St
  | ⟨roots, []⟩ => ⟨roots, []⟩
  | ⟨roots, f :: []⟩ => ⟨Tree.node f.e f.kidsRev.reverse :: roots, []⟩
  | ⟨roots, f :: p :: rest⟩ => ⟨roots, { p with kidsRev := Tree.node f.e f.kidsRev.reverse :: p.kidsRev } :: rest⟩

/-- `while bottom and node.level <= bottom.level: bottom = bottom.parent` -/
def closeWhile (lv : Nat) : (fuel : Nat) → St → St
  | 0, s => s
  | n + 1, s =>
    match s.stack with
    | [] => s
    | f :: _ => if lv ≤ f.e.level then closeWhile lv n (closeTop s) else s

def skip (e : Entry) : Bool := e.level = 66 || e.level = 77 || e.level = 88

def step (s : St) (e : Entry) : St :=
  if skip e then s else
  let s' := closeWhile e.level s.stack.length s
  ⟨s'.rootsRev, ⟨e, []⟩ :: s'.stack⟩

def closeAll : (fuel : Nat) → St → St
  | 0, s => s
  | n + 1, s => match s.stack with
    | [] => s
    | _ :: _ => closeAll n (closeTop s)

/-- `structure(sentences)`; `none` = `StopIteration` on an empty copybook. -/
def buildForest : List Entry → Option (List Tree)
  | [] => none
  | e :: es =>
    let s := es.foldl step ⟨[], [⟨e, []⟩]⟩     -- the first entry opens the first tree unconditionally
    some (closeAll s.stack.length s).rootsRev.reverse

/-! ## DDE tree → item tree -/

/-- right-to-left pass: (clusters built so far, redefiners waiting for the base item to their left) -/
def clusterR : List (Item × Bool) → List (Item × List Item) × List Item
  | [] => ([], [])
  | (it, r) :: rest =>
    let (cs, pend) := clusterR rest
    if r then (cs, it :: pend) else ((it, pend) :: cs, [])

/-- group each run "base, redefiner, redefiner, …" of siblings into one cluster (a redefiner with
no base to its left — not valid COBOL — stands as its own base) -/
def cluster (l : List (Item × Bool)) : List (Item × List Item) :=
  match clusterR l with
  | (cs, []) => cs
  | (cs, p :: ps) => (p, ps) :: cs

mutual
def toItem : Tree → Item
  | .node e ks =>
    match e.size with
    | some sz => .elem e.uname e.occ sz
    | none => .group e.uname e.occ (cluster (toItems ks))
def toItems : List Tree → List (Item × Bool)
  | [] => []
  | .node e ks :: ts => (toItem (.node e ks), e.redefines.isSome) :: toItems ts
end

/-- the whole pipeline from the entries of a copybook to the item trees of its records -/
def records (es : List Entry) : Option (List Item) :=
  (buildForest (assignNames es)).map (·.map toItem)

end Stingray.Copybook
