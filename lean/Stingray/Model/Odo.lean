import Stingray.Model.Layout
import Stingray.Model.Recfm
/-!
# Model of `LocationMaker.walk` as the stateful, instance-reading pass it really is, and of
`COBOL_EBCDIC_Sheet.row_iter` over a `RECFM_N` file (OCCURS DEPENDING ON, C06)

`walkM inst sch start anchorsSoFar` walks the schema once, threading the anchors collected so far;
when it reaches a DEPENDING ON table it looks the counter up *in those anchors* and decodes the
counter field out of the instance bytes (`decode`).  `Stingray/Props/C06.lean` proves this agrees
with the pure, environment-indexed layout of `Model/Layout.lean`.
-/
namespace Stingray.Layout

abbrev Inst := List Nat

/-- `self.anchors[name].value(self.instance)`: the counter must resolve to an atomic location. -/
def readCounter (decode : String → Inst → Nat) (inst : Inst) (anch : Anch) (c : String) : Option Nat :=
  match lookupLast anch (.item c) with
  | some (.atomic _ sz, s) => some (decode c ((inst.drop s).take sz))
  | _ => none

def selfAnchor (a : Option Key) (sch : Sch) (s : Nat) : Anch :=
  match a with | some a => [(a, (sch, s))] | none => []

mutual
def walkM (decode : String → Inst → Nat) (inst : Inst) : Sch → Nat → Anch → Option (Nat × Anch)
  | .atomic a sz, s, anch => some (sz, anch ++ [(a, (.atomic a sz, s))])
  | .array a (.fixed n) it, s, anch =>
    match walkM decode inst it s anch with
    | some (isz, anch') => some (isz * n, anch' ++ selfAnchor a (.array a (.fixed n) it) s)
    | none => none
  | .array a (.odo c) it, s, anch =>
    match readCounter decode inst anch c with
    | some n =>
      match walkM decode inst it s anch with
      | some (isz, anch') => some (isz * n, anch' ++ selfAnchor a (.array a (.odo c) it) s)
      | none => none
    | none => none
  | .object a ps, s, anch =>
    match walkProps decode inst ps s anch with
    | some (sz, anch') => some (sz, anch' ++ selfAnchor a (.object a ps) s)
    | none => none
  | .oneOf a alts, s, anch =>
    match walkAlts decode inst alts s anch with
    | some (sz, anch') => some (sz, anch' ++ [(a, (.oneOf a alts, s))])
    | none => none
  | .ref _, _, anch => some (0, anch)
def walkProps (decode : String → Inst → Nat) (inst : Inst) : List (Key × Sch) → Nat → Anch → Option (Nat × Anch)
  | [], _, anch => some (0, anch)
  | (_, p) :: ps, s, anch =>
    match walkM decode inst p s anch with
    | some (sz, anch') =>
      match walkProps decode inst ps (s + sz) anch' with
      | some (sz', anch'') => some (sz + sz', anch'')
      | none => none
    | none => none
def walkAlts (decode : String → Inst → Nat) (inst : Inst) : List Sch → Nat → Anch → Option (Nat × Anch)
  | [], _, anch => some (0, anch)
  | a :: as, s, anch =>
    match walkM decode inst a s anch with
    | some (sz, anch') =>
      match walkAlts decode inst as s anch' with
      | some (sz', anch'') => some (max sz sz', anch'')
      | none => none
    | none => none
end

/-- `Row(...).nav.location.end` for a record buffer: the number of bytes the row announces. -/
def rowLength (decode : String → Inst → Nat) (sch : Sch) (buf : Inst) : Option Nat :=
  (walkM decode buf sch 0 []).map (·.1)

/-- The environment a buffer induces: every counter read where the reader finds it. -/
def envOf (decode : String → Inst → Nat) (sch : Sch) (buf : Inst) : Env := fun c =>
  match walkM decode buf sch 0 [] with
  | some (_, anch) => (readCounter decode buf anch c).getD 0
  | none => 0

/-- ONE `LocationMaker` object used for several records (`maker.from_instance(r)` again and again; `self.anchors` is never
emptied): the anchors it holds afterwards and, per record, the size it computed (`none`: the walk raised) -/
def makerRun (decode : String → Inst → Nat) (sch : Sch) : Anch → List Inst → Anch × List (Option Nat)
  | st, [] => (st, [])
  | st, r :: rs =>
    match walkM decode r sch 0 st with
    | some (sz, st') => let (fin, outs) := makerRun decode sch st' rs; (fin, some sz :: outs)
    | none => let (fin, outs) := makerRun decode sch st rs; (fin, none :: outs)

open Stingray.Recfm in
/-- `COBOL_EBCDIC_Sheet.row_iter` over `RECFM_N`: each buffer is handed to a row, the row's length
is announced with `used()`, the reader advances.  Returns the records delivered (the first
`length` bytes of each buffer) and whether a row could not be laid out.  Fuel = file length + 1. -/
def rowsN (lenOf : Inst → Option Nat) (cap : Nat) : Nat → St → List Bytes × Bool
  | 0, _ => ([], true)
  | fuel + 1, s =>
    if s.buf = [] then ([], true) else
    match lenOf s.buf with
    | none => ([], false)
    | some 0 => ([[]], false)                  -- RuntimeError: no bytes consumed
    | some (l + 1) =>
      let (rs, ok) := rowsN lenOf cap fuel (stepN cap s (l + 1))
      (s.buf.take (l + 1) :: rs, ok)

end Stingray.Layout
