/-!
# Model of the COBOL-to-layout pipeline

`structure()` → `JSONSchemaMaker.build_json_schema` (`emit`) → `SchemaMaker.walk_schema` (the
schema is a value here) → `LocationMaker.walk` (`size`, `anchors`) → `NDNav.name` / `NDNav.index`
(`navStep`, `nav`).

An item tree is *cluster-structured*: the children of a group are clusters `(base, redefiners)`,
because COBOL requires the entries that redefine an item to follow it directly.  OCCURS counts are
`Count`s: fixed, or DEPENDING ON a counter whose value comes from an environment `env` (for a
record: the values its own counter fields hold; C06 ties `env` to the instance bytes).
Imports nothing.
-/
namespace Stingray.Layout

inductive Count where
  | fixed (n : Nat)
  | odo (counter : String)
deriving DecidableEq, Repr

abbrev Env := String → Nat

def cnt (env : Env) : Count → Nat
  | .fixed n => n
  | .odo c => env c

def occN (env : Env) : Option Count → Nat
  | none => 1
  | some c => cnt env c

inductive Item where
  | elem (name : String) (occ : Option Count) (size : Nat)
  | group (name : String) (occ : Option Count) (clusters : List (Item × List Item))

/-- property keys / anchor names: a data name, or the synthetic `REDEFINES-x` -/
inductive Key where
  | item (n : String)
  | redef (n : String)
deriving DecidableEq, Repr

/-- The JSON Schema the generator emits, reduced to what layout depends on. -/
inductive Sch where
  | atomic (anchor : Key) (size : Nat)
  | array (anchor : Option Key) (n : Count) (items : Sch)
  | object (anchor : Option Key) (props : List (Key × Sch))
  | oneOf (anchor : Key) (alts : List Sch)
  | ref (target : Key)

inductive Step where
  | name (k : String)
  | idx (i : Nat)
deriving DecidableEq, Repr

def Item.name : Item → String
  | .elem n _ _ => n
  | .group n _ _ => n
def Item.occ : Item → Option Count
  | .elem _ o _ => o
  | .group _ o _ => o

/-! ## `build_json_schema` (as repaired: a REDEFINES `oneOf` sits where its base item is) -/
mutual
def emit : Item → Sch
  | .elem n none sz => .atomic (.item n) sz
  | .elem n (some k) sz => .array none k (.object none [(.item n, .atomic (.item n) sz)])
  | .group n none cs => .object (some (.item n)) (emitClusters cs)
  | .group n (some k) cs => .array (some (.item n)) k (.object none (emitClusters cs))
def emitClusters : List (Item × List Item) → List (Key × Sch)
  | [] => []
  | (b, rs) :: cs =>
    (match rs with
     | [] => [(Key.item b.name, emit b)]
     | _ :: _ => (Key.redef b.name, Sch.oneOf (.redef b.name) (emit b :: emitList rs))
                 :: (Key.item b.name, Sch.ref (.item b.name)) :: refList rs) ++ emitClusters cs
def emitList : List Item → List Sch
  | [] => []
  | r :: rs => emit r :: emitList rs
def refList : List Item → List (Key × Sch)
  | [] => []
  | r :: rs => (Key.item r.name, Sch.ref (.item r.name)) :: refList rs
end

/-- `build_json_schema` at the pinned commit: every `REDEFINES-x` property was inserted *before
all* children of the group (finding D1).  Kept for the machine-checked counter-witness. -/
def hoistRedefs (ps : List (Key × Sch)) : List (Key × Sch) :=
  ps.filter (fun p => match p.1 with | .redef _ => true | .item _ => false) ++
  ps.filter (fun p => match p.1 with | .redef _ => false | .item _ => true)

/-! ## `LocationMaker.walk`: sizes -/
mutual
def size (env : Env) : Sch → Nat
  | .atomic _ sz => sz
  | .array _ n it => size env it * cnt env n
  | .object _ ps => sizeProps env ps
  | .oneOf _ alts => maxAlts env alts
  | .ref _ => 0
def sizeProps (env : Env) : List (Key × Sch) → Nat
  | [] => 0
  | (_, s) :: ps => size env s + sizeProps env ps
def maxAlts (env : Env) : List Sch → Nat
  | [] => 0
  | a :: as => max (size env a) (maxAlts env as)
end

/-- the per-`LocationMaker` `anchors` map, in assignment order (last writer wins) -/
abbrev Anch := List (Key × (Sch × Nat))

mutual
def anchors (env : Env) : Sch → Nat → Anch
  | .atomic a sz, s => [(a, (.atomic a sz, s))]
  | .array a n it, s => anchors env it s ++ (match a with | some a => [(a, (.array (some a) n it, s))] | none => [])
  | .object a ps, s => anchorsProps env ps s ++ (match a with | some a => [(a, (.object (some a) ps, s))] | none => [])
  | .oneOf a alts, s => anchorsAlts env alts s ++ [(a, (.oneOf a alts, s))]
  | .ref _, _ => []
def anchorsProps (env : Env) : List (Key × Sch) → Nat → Anch
  | [], _ => []
  | (_, p) :: ps, s => anchors env p s ++ anchorsProps env ps (s + size env p)
def anchorsAlts (env : Env) : List Sch → Nat → Anch
  | [], _ => []
  | a :: as, s => anchors env a s ++ anchorsAlts env as s
end

def lookupLast (l : Anch) (k : Key) : Option (Sch × Nat) :=
  (l.reverse.find? (fun p => p.1 == k)).map (·.2)

def findProp (env : Env) : List (Key × Sch) → Nat → Key → Option (Sch × Nat)
  | [], _, _ => none
  | (n, p) :: ps, s, k => if n = k then some (p, s) else findProp env ps (s + size env p) k

/-- `.referent` -/
def deref (anch : Anch) : Sch × Nat → Option (Sch × Nat)
  | (.ref t, _) => lookupLast anch t
  | x => some x

/-! ## `NDNav.name` / `NDNav.index` -/
def navStep (env : Env) (anch : Anch) (cur : Sch) (s : Nat) : Step → Option (Anch × Sch × Nat)
  | .name k =>
    match cur with
    | .object _ ps => ((findProp env ps s (.item k)).bind (deref anch)).map (fun v => (anch, v.1, v.2))
    | _ => none
  | .idx i =>
    match cur with
    | .array _ n it =>
      if i < cnt env n then some (anchors env it (s + size env it * i), it, s + size env it * i) else none
    | _ => none

/-- follow a path; the result is the byte range `[start, end)` of the location reached -/
def nav (env : Env) (anch : Anch) (cur : Sch) (s : Nat) : List Step → Option (Nat × Nat)
  | [] => some (s, s + size env cur)
  | p :: ps => match navStep env anch cur s p with
    | some (a', c', s') => nav env a' c' s' ps
    | none => none

/-- follow a path and return the location reached: its anchors map, schema and start -/
def navTo (env : Env) (anch : Anch) (cur : Sch) (s : Nat) : List Step → Option (Anch × Sch × Nat)
  | [] => some (anch, cur, s)
  | p :: ps => match navStep env anch cur s p with
    | some (a', c', s') => navTo env a' c' s' ps
    | none => none

/-- the record as the library sees it: layout of the emitted schema from offset 0 -/
def navRecord (env : Env) (it : Item) (path : List Step) : Option (Nat × Nat) :=
  nav env (anchors env (emit it) 0) (emit it) 0 path

def keys (l : Anch) : List Key := l.map (·.1)

end Stingray.Layout
