-- All executable models and the driver-side glue.
import Stingray.Model.Recfm
import Stingray.Driver.C05
import Stingray.Model.Clean
import Stingray.Driver.C17
