-- All executable models and the driver-side glue.
import Stingray.Model.Recfm
import Stingray.Driver.C05
import Stingray.Model.Clean
import Stingray.Driver.C17
import Stingray.Model.Convert
import Stingray.Driver.C16
import Stingray.Model.Picture
import Stingray.Model.Decode
import Stingray.Driver.Decode
import Stingray.Model.Layout
import Stingray.Driver.Layout
import Stingray.Model.Odo
import Stingray.Model.Value
import Stingray.Driver.Value
import Stingray.Model.Copybook
import Stingray.Driver.Copybook
