import Stingray.Model.Recfm
import Stingray.Driver.Util
/-! Line protocol for C05 (see harness/c05.py). -/
namespace Stingray.Drv.C05
open Stingray.Recfm Stingray.Drv

def showRecs (rs : List Bytes) : String :=
  "n=" ++ toString rs.length ++ " " ++
    joinWith "," (rs.map fun r => toString r.length ++ ":" ++ toString (rolling r))

def showErr : Err → String
  | .structError => "StructError"
  | .assertion => "AssertionError"
  | .diverges => "Diverges"

def showEx : Except Err (List Bytes) → String
  | .ok rs => showRecs rs
  | .error e => showErr e

def showEnd : EndN → String
  | .exhausted => "exhausted"
  | .noBytesConsumed => "RuntimeError"
  | .consumerStopped => "stopped"

def handle : List String → String
  | ["N", cap, lens, file] =>
    let f := unhex file
    let (rs, e, s) := readN cap.toNat! f (natList lens)
    showRecs rs ++ " end=" ++ showEnd e ++ " tell=" ++ toString (f.length - s.src.length)
  | ["F", lrecl, file] =>
    match readF lrecl.toNat! (unhex file) with
    | none => "TypeError"
    | some rs => showRecs rs
  | ["Frdw", lrecl, file] =>
    match rdwF lrecl.toNat! (unhex file) with
    | none => "Error"
    | some rs => showRecs rs
  | ["V", file] => showEx (readV (unhex file))
  | ["Vrdw", file] => showEx (rdwV (unhex file))
  | ["VB", file] => showEx (readVB (unhex file))
  | ["VBrdw", file] => showEx (rdwVB (unhex file))
  | ["VBbdw", file] => showEx (bdwVB (unhex file))
  -- positioned sources: `<kind>@ <pos> [lrecl] <whole file>`: the reader is made when `pos` bytes have been consumed
  | ["F@", pos, lrecl, file] =>
    match (Source.mk (unhex file) pos.toNat!).readF lrecl.toNat! with
    | none => "TypeError"
    | some rs => showRecs rs
  | ["V@", pos, file] => showEx (Source.mk (unhex file) pos.toNat!).readV
  | ["Vrdw@", pos, file] => showEx (Source.mk (unhex file) pos.toNat!).rdwV
  | ["VB@", pos, file] => showEx (Source.mk (unhex file) pos.toNat!).readVB
  | _ => "bad-op"

end Stingray.Drv.C05
