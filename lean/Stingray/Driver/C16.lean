import Stingray.Model.Convert
import Stingray.Driver.Util
/-! Line protocol for C16. -/
namespace Stingray.Drv.C16
open Stingray.Convert Stingray.Drv

def showType : PyType → String
  | .none => "NoneType" | .bool => "bool" | .int => "int" | .float => "float"
  | .str => "str" | .decimal => "Decimal" | .same => "same"

def handle : List String → String
  | ["digits", n, v] => String.ofList (digitString n.toNat! v.toNat!)
  | ["places", d, neg, coeff, exp] =>
    match decimalPlaces d.toNat! ⟨neg == "1", coeff.toNat!, exp.toInt!⟩ with
    | none => "InvalidOperation"
    | some y => (if y.neg then "1" else "0") ++ " " ++ toString y.coeff ++ " " ++ toString y.exp
  | ["conv", name] =>
    match conversionType (if name = "None" then none else some name) with
    | none => "KeyError"
    | some t => showType t
  | _ => "bad-op"

end Stingray.Drv.C16
