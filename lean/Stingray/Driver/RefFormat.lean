import Stingray.Model.RefFormat
import Stingray.Driver.Util
/-! Line protocol for the text layers (C12): `REF parse <reps> <lines>`; every string is hex-encoded ASCII. -/
namespace Stingray.Drv.Ref
open Stingray.RefFormat Stingray.Drv

def hexStr (s : String) : List Char := (unhex s).map Char.ofNat
def showStr (cs : List Char) : String := hex (cs.map Char.toNat)

/-- reps: `old:new;old:new` (hex) or `-`; lines: `l,l,l` (hex, each including its line feed) or `-` -/
def parseReps (s : String) : List (Line × Line) :=
  if s = "-" then [] else
  (s.splitOn ";").filterMap fun p => match p.splitOn ":" with
    | [a, b] => some (hexStr a, hexStr b)
    | _ => none

def parseLines (s : String) : List Line := if s = "-" then [] else (s.splitOn ",").map hexStr

def handle : List String → String
  | ["format", reps, lines] =>
    match refFormat (parseReps reps) (parseLines lines) with
    | .error .runtimeError => "RuntimeError"
    | .error .valueError => "ValueError"
    | .ok out => if out.isEmpty then "-" else joinWith "," (out.map showStr)
  | ["parse", reps, lines] =>
    match parseText (parseReps reps) (parseLines lines) with
    | .error .runtimeError => "RuntimeError"
    | .error .valueError => "ValueError"
    | .ok ss => if ss.isEmpty then "-" else joinWith "," (ss.map fun p => showStr p.1 ++ ":" ++ showStr p.2)
  | _ => "bad-op"

end Stingray.Drv.Ref
