import Stingray.Model.Value
import Stingray.Model.Decode
import Stingray.Driver.Layout
import Stingray.Driver.Decode
/-! Line protocol for values (C10): layout model composed with the decode model. -/
namespace Stingray.Drv.Value
open Stingray.Layout Stingray.Decode Stingray.Picture Stingray.Drv

/-- `NAME=USAGE:PICTURE;…` -/
def parseTable (s : String) : List (String × Usage13 × List Char) :=
  if s = "-" then [] else
  (s.splitOn ";").filterMap fun e =>
    match e.splitOn "=" with
    | [n, up] =>
      match up.splitOn ":" with
      | [u, p] => (Usage13.ofString u).map fun u => (n, u, p.toList)
      | _ => none
    | _ => none

def decFor (tbl : List ByteInfo) (table : List (String × Usage13 × List Char)) : Key → Layout.Bytes → Except String Val
  | .item n, bytes =>
    match table.find? (·.1 == n) with
    | some (_, u, pic) =>
      match scan pic with
      | .ok es =>
        match unpack tbl u es bytes with
        | .ok v => .ok v
        | .error e => .error (Dec.showDErr e)
      | .error _ => .error "ValueError"
    | none => .error "KeyError"
  | .redef _, _ => .error "KeyError"

partial def showTree : Layout.Val Val → String
  | .atom v => Dec.showVal v
  | .arr xs => "[" ++ joinWith ";" (xs.map showTree) ++ "]"
  | .obj ps => "{" ++ joinWith ";" (ps.map fun p => Lay.showKey p.1 ++ "=" ++ showTree p.2) ++ "}"

def handle (tbl : List ByteInfo) : List String → String
  | "value" :: env :: table :: rec :: path :: toks =>
    match Lay.parseItem toks with
    | some (it, []) =>
      let e := Lay.parseEnv env
      let sch := emit it
      match navTo e (anchors e sch 0) sch 0 (Lay.parsePath path) with
      | none => "none"
      | some (anch, cur, s) =>
        match valueAt e (decFor tbl (parseTable table)) anch (unhex rec) 64 cur s 0 with
        | .ok v => showTree v
        | .error er => "err:" ++ er
    | _ => "bad-tree"
  | "touched" :: env :: path :: toks =>
    match Lay.parseItem toks with
    | some (it, []) =>
      let e := Lay.parseEnv env
      let sch := emit it
      match navTo e (anchors e sch 0) sch 0 (Lay.parsePath path) with
      | none => "none"
      | some (anch, cur, s) =>
        let rs := touched e anch 64 cur s 0
        if rs.isEmpty then "-" else joinWith "," (rs.map fun r => toString r.1 ++ ":" ++ toString r.2)
    | _ => "bad-tree"
  | _ => "bad-op"

end Stingray.Drv.Value
