import Stingray.Model.Clean
import Stingray.Driver.Util
/-! Line protocol for C17: `C17 clean <codepoints,…|->` answers the cleaned name as code points. -/
namespace Stingray.Drv.C17
open Stingray.Clean Stingray.Drv

def showCps (cs : List Char) : String :=
  if cs.isEmpty then "-" else joinWith "," (cs.map fun c => toString c.toNat)

def handle : List String → String
  | ["clean", cps] => showCps (clean ((natList cps).map Char.ofNat))
  | _ => "bad-op"

end Stingray.Drv.C17
