import Stingray.Model.Facade
import Stingray.Driver.Util
/-! Line protocol for the facade (C03, C09, C14). Cells are hex-encoded UTF-8; `-` is the empty string.
`FAC observe <sheet>|<sheet>…` with sheet := `name:row/row/…`, row := `cell.cell.…` (`~` = a row with no cells, `!` = no rows) -/
namespace Stingray.Drv.Fac
open Stingray.Facade Stingray.Drv

def decodeCell (s : String) : String :=
  if s = "-" then "" else String.ofList ((unhex s).map Char.ofNat)   -- bytes as Latin-1 code points: used only for equality

def parseRow (s : String) : RowData := if s = "~" then [] else (s.splitOn ".").map decodeCell

def parseSheet (s : String) : String × List RowData :=
  match s.splitOn ":" with
  | [n, rows] => (decodeCell n, if rows = "!" then [] else (rows.splitOn "/").map parseRow)
  | _ => ("?", [])

def encCell (c : String) : String := if c.isEmpty then "-" else hex (c.toList.map Char.toNat)

def showOpt : Option Cell → String
  | some c => encCell c
  | none => "^"

def showObs (o : SheetObs) : String :=
  encCell o.name ++ ":" ++ (if o.header.isEmpty then "~" else joinWith "." (o.header.map encCell)) ++ ":" ++
    (if o.rows.isEmpty then "!" else joinWith "/" (o.rows.map fun r => if r.isEmpty then "~" else joinWith "." (r.map showOpt)))

def handle : List String → String
  | ["observe", sheets] => joinWith "|" ((observe ((sheets.splitOn "|").map parseSheet)).map showObs)
  | ["noheader", sheets] =>
    joinWith "|" (((sheets.splitOn "|").map parseSheet).map fun s =>
      encCell s.1 ++ ":" ++ (if s.2.isEmpty then "!" else joinWith "/" ((rowIter .none s.2).2.map fun r =>
        if r.isEmpty then "~" else joinWith "." (r.map encCell))))
  | "open" :: suffix :: regs =>
    -- regs: `suffix,suffix,…=class` in registration order (one registration may name several suffixes)
    let hist : List (List String × String) := regs.filterMap fun kv =>
      match kv.splitOn "=" with | [ss, c] => some (ss.splitOn ",", c) | _ => none
    let r := hist.foldl (fun acc p => register acc p.1 p.2) ([] : Registry)
    match openWorkbook r suffix with
    | .opened c => c
    | .notImplemented => "NotImplementedError"
  | "sheet" :: ops =>
    -- one Sheet object over its life: `S=<name>.<name>…` set_schema (positions 0..), `L=h` / `L=n` set_schema_loader,
    -- `P=<rows>` one pass; answer: per pass `<schema>:<rows delivered>`
    let showRows : List RowData → String := fun rows =>
      if rows.isEmpty then "!" else joinWith "/" (rows.map fun r => if r.isEmpty then "~" else joinWith "." (r.map encCell))
    let showSchema : Option (List (String × Nat)) → String := fun
      | none => "none"
      | some sch => if sch.isEmpty then "~" else joinWith "." (sch.map fun p => encCell p.1 ++ "@" ++ toString p.2)
    let parseOp : String → Option SOp := fun o =>
      match o.splitOn "=" with
      | ["S", names] => some (.setSchema (((parseRow names).zipIdx).map fun p => (p.1, p.2)))
      | ["L", "h"] => some (.setLoader .headingRow)
      | ["L", "n"] => some (.setLoader .none)
      | ["P", rows] => some (.pass (if rows = "!" then [] else (rows.splitOn "/").map parseRow))
      | _ => none
    match ops.mapM parseOp with
    | none => "bad-op"
    | some l =>
      let (_, outs) := l.foldl (fun (acc : Sheet × List String) op =>
        let (s', o) := acc.1.step op
        (s', match o with | some (sch, rows) => acc.2 ++ [showSchema sch ++ ":" ++ showRows rows] | none => acc.2)) (({} : Sheet), [])
      if outs.isEmpty then "-" else joinWith "|" outs
  | ["lrecl", given, lens] =>
    -- `FAC lrecl <given|-> <len,len,…>`: the sheet lrecl after each set_schema of the history
    let g : Option Nat := if given = "-" then none else given.toNat?
    let ls := (lens.splitOn ",").filterMap String.toNat?
    joinWith "," (((EFile.mk g).run ls).2.map toString)
  | "life" :: ops =>
    let parse : String → Option LOp := fun
      | "open" => some .openFile | "iter" => some .iterate | "raise" => some .raise | "exit" => some .exit | "close" => some .close
      | _ => none
    match ops.mapM parse with
    | none => "bad-op"
    | some l => let w := lrun ⟨0, false⟩ l; toString w.handles ++ " " ++ toString w.closed
  | _ => "bad-op"

end Stingray.Drv.Fac
