import Stingray.Model.Decode
import Stingray.Model.Schema
import Stingray.Driver.Util
/-! Line protocol for the picture / decode family (C02, C04, C13, C18). -/
namespace Stingray.Drv.Dec
open Stingray.Picture Stingray.Decode Stingray.Drv

def cpsToChars (s : String) : List Char := (natList s).map Char.ofNat
def showChars (cs : List Char) : String := if cs.isEmpty then "-" else String.ofList cs

def showPErr : PErr → String
  | .invalidChars => "ValueError" | .zeroRepeat => "ValueError" | .nonAscii => "ValueError"

def showDErr : DErr → String
  | .valueError => "ValueError" | .indexError => "IndexError" | .structError => "StructError"
  | .runtimeError => "RuntimeError" | .reError => "ReError" | .typeError => "TypeError"

def showVal : Val → String
  | .dec neg c e => "dec " ++ (if neg then "1" else "0") ++ " " ++ toString c ++ " " ++ toString e
  | .int v => "int " ++ toString v
  | .str cps => "str " ++ (if cps.isEmpty then "-" else joinWith "," (cps.map toString))

def bits (s : String) : List Bool := s.toList.map (· == '1')

/-- tables line: `<cp,cp,…> <wbits> <dbits> <sbits>` -/
def mkTables (cps w d s : String) : List ByteInfo :=
  let cs := natList cps
  let ws := bits w; let ds := bits d; let ss := bits s
  (List.range cs.length).map fun i => ⟨cs.getD i 0, ws.getD i false, ds.getD i false, ss.getD i false⟩

def showScan (raw : List Char) : String :=
  match scan raw with
  | .error e => showPErr e
  | .ok es =>
    let g := groups es
    "ok " ++ toString (size es) ++ " " ++ showChars g.sign ++ " " ++ showChars g.whole ++ " " ++
      showChars g.sep ++ " " ++ showChars g.frac ++ " " ++ toString (zonedDecimal es)

def handle (tbl : List ByteInfo) : List String → String
  | ["scan", pic] => showScan (cpsToChars pic)
  | ["gennumeric", pic] => toString (genNumeric (cpsToChars pic))
  | ["jsontype", usage, pic] =>
    match Usage13.ofString usage with
    | some u =>
      let j := Stingray.Schema.jsonType u (genNumeric (cpsToChars pic))
      j.type ++ "," ++ j.encoding.getD "-" ++ "," ++ j.conversion.getD "-" ++ "," ++
        Stingray.Schema.jsonTypeExt u (genNumeric (cpsToChars pic))
    | none => "bad-usage"
  | ["calcsize", usage, pic] =>
    match Usage13.ofString usage, scan (cpsToChars pic) with
    | some u, .ok es => match calcsize u es with | some n => toString n | none => "ValueError"
    | some _, .error e => showPErr e
    | none, _ => "bad-usage"
  | ["struct", usage, pic] =>
    match Usage13.ofString usage, scan (cpsToChars pic) with
    | some u, .ok es => match structCalcsize u es with | some n => toString n | none => "ValueError"
    | some _, .error e => showPErr e
    | none, _ => "bad-usage"
  | ["text", pic] =>
    match scan (cpsToChars pic) with
    | .ok es => toString (textCalcsize es)
    | .error e => showPErr e
  | ["unpack", usage, pic, buf] =>
    match Usage13.ofString usage, scan (cpsToChars pic) with
    | some u, .ok es =>
      match unpack tbl u es (unhex buf) with
      | .ok v => showVal v
      | .error e => showDErr e
    | some _, .error e => showPErr e
    | none, _ => "bad-usage"
  | _ => "bad-op"

end Stingray.Drv.Dec
