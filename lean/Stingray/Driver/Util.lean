/-! Helpers for the line protocol (no imports). -/
namespace Stingray.Drv

def hexVal (c : Char) : Nat :=
  if '0' ≤ c ∧ c ≤ '9' then c.toNat - '0'.toNat
  else if 'a' ≤ c ∧ c ≤ 'f' then c.toNat - 'a'.toNat + 10
  else if 'A' ≤ c ∧ c ≤ 'F' then c.toNat - 'A'.toNat + 10 else 0

/-- "-" is the empty byte string; otherwise two hex digits per byte. -/
def unhex (s : String) : List Nat :=
  if s = "-" then [] else
  let rec go : List Char → List Nat → List Nat
    | a :: b :: rest, acc => go rest ((hexVal a * 16 + hexVal b) :: acc)
    | _, acc => acc.reverse
  go s.toList []

def hexDigit (n : Nat) : Char := "0123456789abcdef".toList.getD n '?'

def hex (bs : List Nat) : String :=
  if bs.isEmpty then "-" else
  String.ofList (bs.flatMap fun b => [hexDigit (b / 16), hexDigit (b % 16)])

/-- the rolling hash used by both sides to summarise long byte strings -/
def rolling (bs : List Nat) : Nat := bs.foldl (fun h x => (h * 31 + x) % 1000003) 0

def natList (s : String) : List Nat :=
  if s = "-" then [] else (s.splitOn ",").map String.toNat!

def joinWith (sep : String) (xs : List String) : String := sep.intercalate xs

end Stingray.Drv
