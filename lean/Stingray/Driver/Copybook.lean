import Stingray.Model.Copybook
import Stingray.Driver.Layout
/-! Line protocol for the copybook family (C07, C08, C11, C12): entries as `lvl,name,redef,occ,size` tokens. -/
namespace Stingray.Drv.Cpy
open Stingray.Copybook Stingray.Layout Stingray.Drv

def opt (s : String) : Option String := if s = "-" then none else some s

def parseEntry (t : String) : Option Entry :=
  match t.splitOn "," with
  | [lv, n, r, o, sz] =>
    some { level := lv.toNat!, name := opt n, redefines := opt r, occ := Lay.parseOcc o,
           size := (opt sz).map String.toNat! }
  | _ => none

partial def dumpTree : Tree → String
  | .node e ks => "(" ++ toString e.level ++ " " ++ e.uname ++
      (if ks.isEmpty then "" else " " ++ joinWith " " (ks.map dumpTree)) ++ ")"

def handle : List String → String
  | "forest" :: toks =>
    match toks.mapM parseEntry with
    | none => "bad-entry"
    | some es =>
      match buildForest (assignNames es) with
      | none => "StopIteration"
      | some ts => joinWith " " (ts.map dumpTree)
  | "records" :: toks =>
    match toks.mapM parseEntry with
    | none => "bad-entry"
    | some es =>
      match records es with
      | none => "StopIteration"
      | some its => joinWith " | " (its.map fun it => Lay.dump (emit it))
  | _ => "bad-op"

end Stingray.Drv.Cpy
