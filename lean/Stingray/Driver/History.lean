import Stingray.Model.History
import Stingray.Driver.Copybook
/-! Line protocol for C11: `HIS run op op …` with `P:e;e;e` parse, `S`, `X`, `L:t;t` load. -/
namespace Stingray.Drv.His
open Stingray.History Stingray.Copybook Stingray.Drv

def parseOp (t : String) : Option Op :=
  if t = "S" then some .mkStd
  else if t = "X" then some .mkExt
  else if t.startsWith "P:" then
    ((t.drop 2).toString.splitOn ";").mapM Cpy.parseEntry |>.map Op.parse
  else if t.startsWith "L:" then some (.load ((t.drop 2).toString.splitOn ";"))
  else none

def showOut : Out → String
  | .names l => "names:" ++ joinWith "," l
  | .unit => "unit"
  | .kinds bs => "kinds:" ++ joinWith "," (bs.map toString)
  | .range r => "range:" ++ Lay.showRange r

def handle : List String → String
  | "run" :: toks =>
    match toks.mapM parseOp with
    | none => "bad-op"
    | some ops => joinWith " | " ((run step g0 ops).map showOut)
  | _ => "bad-op"

end Stingray.Drv.His
