import Stingray.Model.Clause
import Stingray.Driver.Util
/-! Line protocol for the clause layer (C12/C07): `CLA parse <word>,<word>,…` (each word hex-encoded; `-` = no words).
The lexer that classifies a word is part of the model: it decides which words the word-level parser may look into. -/
namespace Stingray.Drv.Cla
open Stingray.Clause Stingray.Drv

def upc (c : Char) : Char := if 'a' ≤ c ∧ c ≤ 'z' then Char.ofNat (c.toNat - 32) else c

def allKw : List Kw :=
  [.redefines, .blank, .when_, .zero, .zeros, .zeroes, .external, .global, .justified, .just, .right, .left, .occurs, .to, .times,
   .depending, .on, .ascending, .descending, .key, .is, .indexed, .by_, .pic, .picture, .sign, .leading, .trailing, .separate,
   .character, .synchronized, .sync, .usage, .value, .filler,
   .u .binary, .u .computational1, .u .computational2, .u .computational3, .u .computational4, .u .computational,
   .u .comp1, .u .comp2, .u .comp3, .u .comp4, .u .comp, .u .display, .u .packedDecimal]

def isNameChar (c : Char) : Bool := c.isAlphanum || c == '_' || c == '-'

/-- prefixes after which the pattern has no word boundary: a longer word beginning with one of them is cut in two -/
def hazards : List String := ["ZERO", "SYNC", "SEPARATE", "CHARACTER", "LEFT", "RIGHT"]

def lex (w : String) : Tok :=
  let up := String.ofList (w.toList.map upc)
  match allKw.find? (fun k => k.text == up) with
  | some k => if w == up then .kw k else .other w      -- lower-case key words: finding D20, not modelled
  | none =>
    if w.toList.all Char.isDigit && !w.isEmpty then .num w
    else if w.toList.all isNameChar && !w.isEmpty && !(hazards.any fun h => h.isPrefixOf up) then .name w
    else .other w

def showDict (d : CDict) : String :=
  let f (k : String) (v : Option String) : List String := match v with
    | some s => [k ++ "=" ++ hex (s.toList.map Char.toNat)]
    | none => []
  let parts := f "name" d.name ++ f "filler" d.filler ++ f "redefines" d.redefines ++ f "blank" d.blank ++ f "justified" d.justified
    ++ f "occurs" d.occurs ++ f "odoMin" d.odoMin ++ f "odoMax" d.odoMax ++ f "dependingOn" d.dependingOn ++ f "picture" d.picture
    ++ f "sign" d.sign ++ f "signSep" d.signSep ++ f "synch" d.synch ++ f "usage" d.usage ++ f "value" d.value
  if parts.isEmpty then "-" else joinWith ";" parts

def words (s : String) : List String :=
  if s = "-" then [] else (s.splitOn ",").map fun h => String.ofList ((unhex h).map Char.ofNat)

def handle : List String → String
  | ["parse", ws] =>
    match parse ((words ws).map lex) with
    | some d => showDict d
    | none => "unmodelled"
  | ["estruct", ws] =>
    match estructParse ((words ws).map lex) with
    | some r => "usage=" ++ hex (r.usage.toList.map Char.toNat) ++ ";picture=" ++
        (match r.picture with | some p => hex (p.toList.map Char.toNat) | none => "~")
    | none => "unmodelled"
  | ["lex", ws] => joinWith "," ((words ws).map fun w => match lex w with
      | .kw _ => "k" | .num _ => "n" | .name _ => "a" | .other _ => "o")
  | _ => "bad-op"

end Stingray.Drv.Cla
