import Stingray.Model.Json
import Stingray.Driver.Util
/-! Line protocol for C15.
doc  := `N anchor title type ref dep hasItems hasProps nOneOf nItems nProps` children…  (props as `key doc`)
val  := `a<repr>` | `l n vals…` | `o n key val …` -/
namespace Stingray.Drv.Jsn
open Stingray.Json Stingray.Drv

def opt (s : String) : Option String := if s = "~" then none else some s

mutual
partial def parseDoc : List String → Option (Doc × List String)
  | "N" :: an :: ti :: ty :: rf :: dp :: hi :: hp :: no :: ni :: np :: r =>
    match parseDocs no.toNat! r with
    | none => none
    | some (oneOf, r1) =>
      match parseDocs ni.toNat! r1 with
      | none => none
      | some (items, r2) =>
        match parseProps np.toNat! r2 with
        | none => none
        | some (props, r3) =>
          some (.mk { anchor := opt an, title := opt ti, type := opt ty, ref := opt rf, dependsOn := opt dp,
                      hasItems := hi == "1", hasProps := hp == "1" } oneOf items props, r3)
  | _ => none
partial def parseDocs : Nat → List String → Option (List Doc × List String)
  | 0, r => some ([], r)
  | n + 1, r => match parseDoc r with
    | none => none
    | some (d, r1) => match parseDocs n r1 with
      | none => none
      | some (ds, r2) => some (d :: ds, r2)
partial def parseProps : Nat → List String → Option (List (String × Doc) × List String)
  | 0, r => some ([], r)
  | n + 1, k :: r => match parseDoc r with
    | none => none
    | some (d, r1) => match parseProps n r1 with
      | none => none
      | some (ds, r2) => some ((k, d) :: ds, r2)
  | _, _ => none
end

mutual
partial def parseVal : List String → Option (JVal × List String)
  | "l" :: n :: r => (parseVals n.toNat! r).map fun p => (.arr p.1, p.2)
  | "o" :: n :: r => (parseKVs n.toNat! r).map fun p => (.obj p.1, p.2)
  | t :: r => if t.startsWith "a" then some (.atom (t.drop 1).toString, r) else none
  | [] => none
partial def parseVals : Nat → List String → Option (List JVal × List String)
  | 0, r => some ([], r)
  | n + 1, r => match parseVal r with
    | none => none
    | some (v, r1) => (parseVals n r1).map fun p => (v :: p.1, p.2)
partial def parseKVs : Nat → List String → Option (List (String × JVal) × List String)
  | 0, r => some ([], r)
  | n + 1, k :: r => match parseVal r with
    | none => none
    | some (v, r1) => (parseKVs n r1).map fun p => ((k, v) :: p.1, p.2)
  | _, _ => none
end

def showPath (p : Path) : String := if p.isEmpty then "." else joinWith "." (p.map toString)

partial def dumpL : LSch → String
  | .atomic _ => "Atomic"
  | .array _ its dep => "Array" ++ (match dep with | some (n, t) => "(dep " ++ n ++ "->" ++ showPath t ++ ")" | none => "") ++
      "<" ++ joinWith "," (its.map dumpL) ++ ">"
  | .object _ ps => "Object{" ++ joinWith "," (ps.map fun p => p.1 ++ "=" ++ dumpL p.2) ++ "}"
  | .oneOf _ alts => "OneOf[" ++ joinWith "," (alts.map dumpL) ++ "]"
  | .ref _ n t => "Ref(" ++ n ++ (match t with | some t => "->" ++ showPath t | none => "->?") ++ ")"

partial def showVal : JVal → String
  | .atom r => r
  | .arr xs => "[" ++ joinWith "," (xs.map showVal) ++ "]"
  | .obj ps => "{" ++ joinWith "," (ps.map fun p => p.1 ++ ":" ++ showVal p.2) ++ "}"

def showJErr : JErr → String
  | .valueError => "ValueError" | .keyError => "KeyError" | .assertionError => "AssertionError"
def showNErr : NErr → String
  | .typeError => "TypeError" | .keyError => "KeyError" | .indexError => "IndexError" | .valueError => "ValueError"

def parseSteps (s : String) : List Step :=
  if s = "." then [] else (s.splitOn "/").map fun t => if t.startsWith "#" then Step.idx (t.drop 1).toNat! else Step.name t

def splitAtBar (l : List String) : List String × List String :=
  (l.takeWhile (· != "|"), (l.dropWhile (· != "|")).drop 1)

def handle : List String → String
  | "load" :: toks =>
    match parseDoc toks with
    | some (d, []) =>
      match fromJson atomicTypes d with
      | .error e => showJErr e
      | .ok (s, fx) => dumpL s ++ " fix:" ++
          (if fx.isEmpty then "-" else joinWith "," (fx.map fun p => showPath p.1 ++ "->" ++ showPath p.2))
    | _ => "bad-doc"
  | "nav" :: path :: toks =>
    let (dt, vt) := splitAtBar toks
    match parseDoc dt, parseVal vt with
    | some (d, []), some (v, []) =>
      match load atomicTypes d with
      | .error e => "load:" ++ showJErr e
      | .ok s =>
        let rs : LSch → Option LSch := fun x =>
          match x with
          | .ref _ _ (some t) => (nodeAt s t).bind (follow s [] 16 t)
          | .ref _ _ none => none
          | y => some y
        match dnav rs (s, v) (parseSteps path) with
        | .ok r => showVal r
        | .error e => showNErr e
    | _, _ => "bad-input"
  | _ => "bad-op"

end Stingray.Drv.Jsn
