import Stingray.Model.Odo
import Stingray.Driver.Util
/-! Line protocol for the layout family (C01, C06, C10): item trees as prefix tokens. -/
namespace Stingray.Drv.Lay
open Stingray.Layout Stingray.Drv Stingray.Recfm

def parseOcc (s : String) : Option Count :=
  if s = "-" then none
  else if s.startsWith "f" then some (.fixed (s.drop 1).toNat!)
  else some (.odo (s.drop 1).toString)

mutual
/-- `e name occ size` | `g name occ nclusters {c nredefs base redef*}` -/
partial def parseItem : List String → Option (Item × List String)
  | "e" :: n :: o :: sz :: r => some (.elem n (parseOcc o) sz.toNat!, r)
  | "g" :: n :: o :: k :: r =>
    match parseClusters k.toNat! r with
    | some (cs, r') => some (.group n (parseOcc o) cs, r')
    | none => none
  | _ => none
partial def parseClusters : Nat → List String → Option (List (Item × List Item) × List String)
  | 0, r => some ([], r)
  | k + 1, "c" :: nr :: r =>
    match parseItem r with
    | some (b, r1) =>
      match parseItems nr.toNat! r1 with
      | some (rs, r2) =>
        match parseClusters k r2 with
        | some (cs, r3) => some ((b, rs) :: cs, r3)
        | none => none
      | none => none
    | none => none
  | _, _ => none
partial def parseItems : Nat → List String → Option (List Item × List String)
  | 0, r => some ([], r)
  | k + 1, r =>
    match parseItem r with
    | some (i, r1) =>
      match parseItems k r1 with
      | some (is, r2) => some (i :: is, r2)
      | none => none
    | none => none
end

def showKey : Key → String
  | .item n => n
  | .redef n => "REDEFINES-" ++ n

def showCount : Count → String
  | .fixed n => toString n
  | .odo c => "@" ++ c

mutual
partial def dump : Sch → String
  | .atomic a sz => "atomic(" ++ showKey a ++ "," ++ toString sz ++ ")"
  | .array a n it => "array(" ++ (match a with | some a => showKey a | none => "-") ++ "," ++ showCount n ++ ")<" ++ dump it ++ ">"
  | .object a ps => "object(" ++ (match a with | some a => showKey a | none => "-") ++ "){" ++
      joinWith "," (ps.map fun p => showKey p.1 ++ "=" ++ dump p.2) ++ "}"
  | .oneOf a alts => "oneOf(" ++ showKey a ++ ")[" ++ joinWith "," (alts.map dump) ++ "]"
  | .ref t => "ref(" ++ showKey t ++ ")"
end

def parseEnv (s : String) : Env :=
  if s = "-" then fun _ => 0 else
  let pairs := (s.splitOn ",").filterMap fun kv =>
    match kv.splitOn "=" with
    | [k, v] => some (k, v.toNat!)
    | _ => none
  fun c => ((pairs.find? (·.1 == c)).map (·.2)).getD 0

def parsePath (s : String) : List Step :=
  if s = "." then [] else
  (s.splitOn "/").map fun t => if t.startsWith "#" then Step.idx (t.drop 1).toNat! else Step.name t

def showRange : Option (Nat × Nat) → String
  | some (a, b) => toString a ++ ":" ++ toString b
  | none => "none"

/-- counter decoders: `name=z` zoned decimal (low nibbles), `name=b` big-endian binary -/
def parseDecode (s : String) : String → Inst → Nat :=
  let pairs := if s = "-" then [] else (s.splitOn ",").filterMap fun kv =>
    match kv.splitOn "=" with
    | [k, v] => some (k, v)
    | _ => none
  fun c bytes =>
    match (pairs.find? (·.1 == c)).map (·.2) with
    | some "b" => bytes.foldl (fun a b => a * 256 + b) 0
    | _ => bytes.foldl (fun a b => a * 10 + b % 16) 0

def showRecs (rs : List Bytes) : String :=
  "n=" ++ toString rs.length ++ " " ++
    joinWith "," (rs.map fun r => toString r.length ++ ":" ++ toString (rolling r))

def handle : List String → String
  | "walk" :: kinds :: rec :: toks =>
    match parseItem toks with
    | some (it, []) =>
      match rowLength (parseDecode kinds) (emit it) (unhex rec) with
      | some n => toString n
      | none => "none"
    | _ => "bad-tree"
  | "maker" :: kinds :: recs :: toks =>
    -- ONE LocationMaker over the records `hex,hex,…`: the size it computes for each
    match parseItem toks with
    | some (it, []) =>
      joinWith "," ((makerRun (parseDecode kinds) (emit it) [] ((recs.splitOn ",").map unhex)).2.map fun
        | some n => toString n
        | none => "none")
    | _ => "bad-tree"
  | "rows" :: cap :: kinds :: file :: toks =>
    match parseItem toks with
    | some (it, []) =>
      let f := unhex file
      let (rs, ok) := rowsN (rowLength (parseDecode kinds) (emit it)) cap.toNat! (f.length + 1) (initN cap.toNat! f)
      showRecs rs ++ (if ok then " ok" else " error")
    | _ => "bad-tree"
  | "dump" :: toks =>
    match parseItem toks with
    | some (it, []) => dump (emit it)
    | _ => "bad-tree"
  | "nav" :: env :: paths :: toks =>
    match parseItem toks with
    | some (it, []) =>
      let e := parseEnv env
      joinWith " " ((paths.splitOn ";").map fun p => showRange (navRecord e it (parsePath p)))
    | _ => "bad-tree"
  | _ => "bad-op"

end Stingray.Drv.Lay
