import Stingray.Model.Facade
/-!
# C09 — header-row / external schemas: by-name access, any column order, no row skipped
-/
namespace Stingray.Facade

/-- **C09 (no row skipped).** With the first row taken as the schema, every later physical row
is delivered exactly once, in order. -/
theorem rows_once_in_order (hdr : RowData) (body : List RowData) :
    rowIter .headingRow (hdr :: body) = (some (headingSchema hdr), body) := rfl

/-- **C09 (empty sheet).** A sheet with no rows yields no rows (and no error). -/
theorem empty_sheet_no_rows : rowIter .headingRow [] = (none, []) := rfl

/-- without a header loader every physical row is delivered -/
theorem no_loader_all_rows (rows : List RowData) : (rowIter .none rows).2 = rows := rfl

/-! ## histories of one Sheet object -/

/-- **C09 over histories.** Whatever was done with a sheet before -- schemas bound, loaders installed, earlier passes over other
content -- once the heading-row loader is installed a pass over `hdr :: body` takes THIS header as the schema and delivers exactly
`body`: nothing of an earlier pass survives, the heading row is never delivered as data. -/
theorem pass_history_independent (s0 : Sheet) (ops : List SOp) (hdr : RowData) (body : List RowData) :
    (((s0.run ops).step (.setLoader .headingRow)).1.step (.pass (hdr :: body))).2 = some (some (headingSchema hdr), body) := by
  simp [Sheet.step, rowIter]

/-- and a second pass right after the first (the caller rewound or replaced its file object) behaves like the first -/
theorem second_pass_like_first (s0 : Sheet) (hdr hdr' : RowData) (body body' : List RowData) (h : s0.loader = .headingRow) :
    ((s0.step (.pass (hdr :: body))).1.step (.pass (hdr' :: body'))).2 = some (some (headingSchema hdr'), body') := by
  simp [Sheet.step, rowIter, h]

/-- a schema bound with `set_schema` stays in force over passes (all rows delivered) until a loader replaces it -/
theorem bound_schema_all_rows (s0 : Sheet) (sch : List (String × Nat)) (rows : List RowData) :
    ((s0.step (.setSchema sch)).1.step (.pass rows)).2 = some (some sch, rows) := by
  simp [Sheet.step, rowIter]

example : (({} : Sheet).run [.setSchema [("ZZ", 0)], .pass [["x"], ["y"]], .setLoader .headingRow, .pass [["a", "b"], ["1", "2"]]]).schema
    = some [("a", 0), ("b", 1)] := by decide

/-! ## the heading schema of distinct names is "name ↦ its column number" -/

def enumFrom (n : Nat) : List String → List (String × Nat)
  | [] => []
  | h :: hs => (h, n) :: enumFrom (n + 1) hs

theorem dictInsert_fresh {α : Type} (d : List (String × α)) (k : String) (v : α)
    (h : ∀ p ∈ d, p.1 ≠ k) : dictInsert d k v = d ++ [(k, v)] := by
  induction d with
  | nil => rfl
  | cons p ps ih =>
    obtain ⟨k', v'⟩ := p
    have hk : (k' == k) = false := by simpa using h (k', v') (by simp)
    simp only [dictInsert, hk, Bool.false_eq_true, if_false, List.cons_append]
    rw [ih (fun q hq => h q (by simp [hq]))]

theorem headingSchemaGo_nodup : ∀ (hs : List String) (n : Nat) (acc : List (String × Nat)),
    hs.Nodup → (∀ p ∈ acc, p.1 ∉ hs) → headingSchemaGo hs n acc = acc ++ enumFrom n hs
  | [], _, acc, _, _ => by simp [headingSchemaGo, enumFrom]
  | h :: hs, n, acc, hnd, hdis => by
    simp only [List.nodup_cons] at hnd
    simp only [headingSchemaGo]
    rw [dictInsert_fresh acc h n (fun p hp heq => hdis p hp (by simp [heq]))]
    rw [headingSchemaGo_nodup hs (n + 1) _ hnd.2]
    · simp [enumFrom]
    · intro p hp
      rcases List.mem_append.mp hp with hp | hp
      · intro hm; exact hdis p hp (by simp [hm])
      · simp at hp; subst hp; exact hnd.1

theorem headingSchema_nodup (hdr : List String) (h : hdr.Nodup) : headingSchema hdr = enumFrom 0 hdr := by
  simpa [headingSchema] using headingSchemaGo_nodup hdr 0 [] h (by simp)

theorem lookup_enumFrom : ∀ (hs : List String) (n j : Nat) (hj : j < hs.length), hs.Nodup →
    lookup hs[j] (enumFrom n hs) = some (n + j)
  | [], _, _, hj, _ => by simp at hj
  | h :: hs, n, 0, _, _ => by simp [enumFrom, lookup]
  | h :: hs, n, j + 1, hj, hnd => by
    simp only [List.nodup_cons] at hnd
    have hj' : j < hs.length := by simpa using hj
    have hne : (h == hs[j]) = false := by
      simp only [beq_eq_false_iff_ne, ne_eq]
      intro heq; exact hnd.1 (heq ▸ List.getElem_mem hj')
    simp only [enumFrom, lookup, List.getElem_cons_succ, hne, Bool.false_eq_true, if_false]
    rw [lookup_enumFrom hs (n + 1) j hj' hnd.2]
    congr 1; omega

/-- **C09 (by-name access).** Asking a row for a header name returns the cell under that header —
or the "absent" marker when the row is too short — and nothing else shifts. -/
theorem by_name (hdr : List String) (r : RowData) (j : Nat) (hj : j < hdr.length) (hnd : hdr.Nodup) :
    nameValue (headingSchema hdr) r hdr[j] = .ok r[j]? := by
  simp [nameValue, headingSchema_nodup hdr hnd, lookup_enumFrom hdr 0 j hj hnd]

theorem short_row_absent (hdr : List String) (r : RowData) (j : Nat) (hj : j < hdr.length) (hnd : hdr.Nodup)
    (hshort : r.length ≤ j) : nameValue (headingSchema hdr) r hdr[j] = .ok none := by
  rw [by_name hdr r j hj hnd]; simp [hshort]

theorem present_cells_unshifted (hdr : List String) (r : RowData) (i : Nat) (hi : i < hdr.length) (hnd : hdr.Nodup)
    (hir : i < r.length) : nameValue (headingSchema hdr) r hdr[i] = .ok (some r[i]) := by
  rw [by_name hdr r i hi hnd]; simp [hir]

theorem rowValues_enumFrom (r : RowData) : ∀ (hs : List String) (n : Nat),
    rowValues (enumFrom n hs) r = (List.range hs.length).map (fun i => r[n + i]?)
  | [], _ => by simp [enumFrom, rowValues]
  | h :: hs, n => by
    have ih := rowValues_enumFrom r hs (n + 1)
    simp only [rowValues] at ih ⊢
    simp only [enumFrom, List.map_cons, ih, List.length_cons, List.range_succ_eq_map, List.map_cons, List.map_map,
      Nat.add_zero]
    congr 1
    apply List.map_congr_left
    intro i _
    simp only [Function.comp]
    congr 1; omega

/-- **C09 (value list).** A row's value list is its cells in header order (padded with "absent"). -/
theorem values_in_header_order (hdr : List String) (r : RowData) (hnd : hdr.Nodup) :
    rowValues (headingSchema hdr) r = (List.range hdr.length).map (fun i => r[i]?) := by
  rw [headingSchema_nodup hdr hnd, rowValues_enumFrom]; simp

/-! ## column order does not matter -/

theorem nodup_map_on {α β : Type} (f : α → β) : ∀ (l : List α), l.Nodup →
    (∀ a ∈ l, ∀ b ∈ l, f a = f b → a = b) → (l.map f).Nodup
  | [], _, _ => by simp
  | x :: xs, hnd, hinj => by
    simp only [List.nodup_cons] at hnd
    simp only [List.map_cons, List.nodup_cons, List.mem_map, not_exists, not_and]
    refine ⟨?_, nodup_map_on f xs hnd.2 (fun a ha b hb => hinj a (by simp [ha]) b (by simp [hb]))⟩
    intro y hy heq
    have := hinj y (by simp [hy]) x (by simp) heq
    subst this; exact hnd.1 hy

/-- **C09 (any column order).** Permute the columns of a file by `σ` (column `i` of the new file is
column `σ[i]` of the old): the value obtained under any header name is unchanged. -/
theorem perm_invariant (hdr : List String) (r : RowData) (σ : List Nat) (i : Nat)
    (hnd : hdr.Nodup) (hσ : σ.Nodup) (hin : ∀ x ∈ σ, x < hdr.length) (hi : i < σ.length) :
    let hdr' := σ.map (fun j => hdr.getD j "")
    let r' := σ.map (fun j => r.getD j "")
    r.length = hdr.length →
    nameValue (headingSchema hdr') r' (hdr.getD σ[i] "") = nameValue (headingSchema hdr) r (hdr.getD σ[i] "") := by
  intro hdr' r' hlen
  have hj : σ[i] < hdr.length := hin _ (List.getElem_mem hi)
  -- the permuted header still has distinct names
  have hnd' : hdr'.Nodup := by
    apply nodup_map_on _ σ hσ
    intro a ha b hb heq
    exact (List.getD_inj (hin a ha) (hin b hb) hnd).mp heq
  have hi' : i < hdr'.length := by simpa [hdr'] using hi
  have e1 : hdr.getD σ[i] "" = hdr'[i] := by simp [hdr']
  have e2 : hdr.getD σ[i] "" = hdr[σ[i]] := by
    simp [List.getD_eq_getElem?_getD, List.getElem?_eq_getElem hj]
  rw [show nameValue (headingSchema hdr') r' (hdr.getD σ[i] "") = nameValue (headingSchema hdr') r' hdr'[i] by rw [e1],
    by_name hdr' r' i hi' hnd']
  rw [show nameValue (headingSchema hdr) r (hdr.getD σ[i] "") = nameValue (headingSchema hdr) r hdr[σ[i]] by rw [e2],
    by_name hdr r σ[i] hj hnd]
  have hjr : σ[i] < r.length := by omega
  simp [r', hi, hjr, List.getD_eq_getElem?_getD]

/-! ## external schema -/

/-- **C09 (external schema).** A schema loaded from a (name, description, type) sheet has those
names as properties, in order, with positions 0..n-1 — i.e. it is the heading-row schema of the
same names, so data are read identically. -/
theorem external_positions (rows : List (String × String × String)) (hnd : (rows.map (·.1)).Nodup) :
    externalSchema rows = enumFrom 0 (rows.map (·.1)) ∧
    externalSchema rows = headingSchema (rows.map (·.1)) :=
  ⟨headingSchema_nodup _ hnd, rfl⟩

/-- non-vacuity / spot checks (tests, labelled as tests) -/
example : headingSchema ["a", "b", "c"] = [("a", 0), ("b", 1), ("c", 2)] := by decide
example : nameValue (headingSchema ["a", "b", "c"]) ["1", "2"] "c" = .ok none := by rfl
example : nameValue (headingSchema ["a", "b", "c"]) ["1", "2"] "b" = .ok (some "2") := by rfl

end Stingray.Facade
