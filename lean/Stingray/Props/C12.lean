import Stingray.Model.RefFormat
import Stingray.Model.Copybook
/-!
# C12 — respelling a copybook (layout, case, synonyms, clause order) changes nothing

The line layer and the level-number layer are proved here:

* `refFormat_congr` — the output depends only on, per line, whether it is kept, its indicator
  (column 7) and its body (columns 8–72); hence `seq_area_irrelevant` (columns 1–6) and
  `ident_area_irrelevant` (columns 73–80).
* `dropped_lines_irrelevant` — comment lines, blank lines and EJECT/SKIP directives (any line the
  filters drop) can be inserted or removed anywhere.
* `replacing_once` — with a REPLACING list every source line is emitted exactly once, with all
  replacements applied in order (`D18_counterexample` for the pinned commit).
* `leading_space_irrelevant` — white space before an entry does not matter to the sentence scanner.
* `untilPeriod_body` — the sentence scanner ends an entry at ITS period: for every entry text made of ordinary characters,
  periods not followed by white space and closed quoted literals with ANY body (periods, blanks, line breaks), the clauses
  returned are the whole text and the scan resumes after the period's white space (D46 as repaired).
* `renumber_invariant` — renumbering the levels by any order-preserving map that keeps 66/77/88
  and 01 fixed yields the same forest (shape and nesting).

The clause layer (synonyms, optional words, clause order, case) is tied by the metamorphic
correspondence of `harness/c12.py`; see DESIGN.md for what is modelled there.
-/
namespace Stingray.RefFormat

/-! ## lines -/

/-- two line lists that agree, line by line, on what `reference_format` looks at -/
inductive LinesAgree : List Line → List Line → Prop
  | nil : LinesAgree [] []
  | cons (l l' : Line) (t t' : List Line)
      (h : kept l = kept l' ∧ (kept l = true → indicator l = indicator l' ∧ body l = body l')) :
      LinesAgree t t' → LinesAgree (l :: t) (l' :: t')

theorem refFormat_congr (reps : List (Line × Line)) (ls ls' : List Line) (h : LinesAgree ls ls') :
    refFormat reps ls = refFormat reps ls' := by
  have : pairs reps ls = pairs reps ls' := by
    induction h with
    | nil => rfl
    | cons l l' t t' hh _ ih =>
      simp only [pairs] at ih ⊢
      simp only [List.filter_cons]
      rw [← hh.1]
      by_cases hk : kept l = true
      · simp only [hk, if_true, List.map_cons]
        rw [(hh.2 hk).1, (hh.2 hk).2, ih]
      · simp only [hk, Bool.false_eq_true, if_false]
        exact ih
  simp only [refFormat, this]

/-- overwrite columns 1–6 (sequence number area) -/
def setSeq (s : Line) (l : Line) : Line := s ++ l.drop 6
/-- overwrite / append columns 73–80 (identification area) -/
def setIdent (t : Line) (l : Line) : Line := l.take 72 ++ t

theorem indicator_setSeq (s l : Line) (hs : s.length = 6) (hl : 7 ≤ l.length) :
    indicator (setSeq s l) = indicator l := by
  simp only [indicator, setSeq, List.getD_eq_getElem?_getD]
  rw [List.getElem?_append_right (by omega)]
  simp [hs]

theorem body_setSeq (s l : Line) (hs : s.length = 6) : body (setSeq s l) = body l := by
  simp only [body, setSeq]
  rw [List.drop_append]
  have : s.drop 7 = [] := List.drop_eq_nil_of_le (by omega)
  rw [this, hs, List.nil_append, List.drop_drop]

theorem indicator_setIdent (t l : Line) (hl : 72 ≤ l.length) : indicator (setIdent t l) = indicator l := by
  simp only [indicator, setIdent, List.getD_eq_getElem?_getD]
  rw [List.getElem?_append_left (by simp; omega)]
  simp [List.getElem?_take]

theorem body_setIdent (t l : Line) (hl : 72 ≤ l.length) : body (setIdent t l) = body l := by
  simp only [body, setIdent]
  rw [List.drop_append_of_le_length (by simp; omega), List.take_append_of_le_length (by simp; omega)]
  rw [List.drop_take, List.take_take]
  simp

/-- **C12 (columns 1–6).** Sequence numbers, whatever they are, change nothing — for lines whose
kept/dropped status they do not change (every line carrying part of an entry). -/
theorem seq_area_irrelevant (reps : List (Line × Line)) (ls : List Line) (ss : List Line)
    (hlen : ss.length = ls.length)
    (h : ∀ i (hi : i < ls.length), (ss[i]'(by omega)).length = 6 ∧ 7 ≤ ls[i].length ∧
        kept (setSeq (ss[i]'(by omega)) ls[i]) = kept ls[i]) :
    refFormat reps (List.zipWith setSeq ss ls) = refFormat reps ls := by
  apply refFormat_congr
  induction ls generalizing ss with
  | nil => cases ss with
    | nil => exact LinesAgree.nil
    | cons _ _ => simp at hlen
  | cons l ls ih =>
    cases ss with
    | nil => simp at hlen
    | cons s ss =>
      have h0 := h 0 (by simp)
      simp only [List.getElem_cons_zero] at h0
      refine LinesAgree.cons _ _ _ _ ⟨h0.2.2, fun _ => ⟨indicator_setSeq s l h0.1 h0.2.1, body_setSeq s l h0.1⟩⟩ ?_
      apply ih ss (by simpa using hlen)
      intro i hi
      have := h (i + 1) (by simpa using hi)
      simpa using this

/-- **C12 (columns 73–80).** Identification text changes nothing. -/
theorem ident_area_irrelevant (reps : List (Line × Line)) (ls : List Line) (ts : List Line)
    (hlen : ts.length = ls.length)
    (h : ∀ i (hi : i < ls.length), 72 ≤ ls[i].length ∧
        kept (setIdent (ts[i]'(by omega)) ls[i]) = kept ls[i]) :
    refFormat reps (List.zipWith setIdent ts ls) = refFormat reps ls := by
  apply refFormat_congr
  induction ls generalizing ts with
  | nil => cases ts with
    | nil => exact LinesAgree.nil
    | cons _ _ => simp at hlen
  | cons l ls ih =>
    cases ts with
    | nil => simp at hlen
    | cons t ts =>
      have h0 := h 0 (by simp)
      simp only [List.getElem_cons_zero] at h0
      refine LinesAgree.cons _ _ _ _ ⟨h0.2, fun _ => ⟨indicator_setIdent t l h0.1, body_setIdent t l h0.1⟩⟩ ?_
      apply ih ts (by simpa using hlen)
      intro i hi
      have := h (i + 1) (by simpa using hi)
      simpa using this

/-- **C12 (comment and blank lines, EJECT/SKIP).** A line the filters drop — a `*` or `D` comment
line, a blank line, a directive, a line shorter than 7 characters — may be inserted anywhere. -/
theorem dropped_lines_irrelevant (reps : List (Line × Line)) (a b : List Line) (c : Line)
    (hc : kept c = false) : refFormat reps (a ++ c :: b) = refFormat reps (a ++ b) := by
  simp [refFormat, pairs, List.filter_append, List.filter_cons, hc]

example : kept "      * a comment line\n".toList = false := by decide
example : kept "\n".toList = false := by decide
example : kept "       EJECT\n".toList = false := by decide
example : kept "000100     05 A PIC X.\n".toList = true := by decide

/-- **C12 (REPLACING).** Every kept source line is emitted exactly once, with all replacements
applied in the order given. -/
theorem replacing_once (reps : List (Line × Line)) (ls : List Line) :
    (pairs reps ls).length = (ls.filter kept).length ∧
    (pairs reps ls).map (·.2) = (ls.filter kept).map (fun l => applyAll reps (body l)) := by
  simp [pairs, Function.comp_def]

/-- **D18 (fixed in /repo).** At the pinned commit two replacement pairs emitted every line twice. -/
theorem D18_counterexample :
    let reps := [("'A'".toList, "X".toList), ("'B'".toList, "Y".toList)]
    let ls := ["       05 'A'-'B' PIC X.\n".toList]
    (pairsOrig reps ls).length = 2 ∧ (pairs reps ls).length = 1 ∧
    (pairs reps ls).map (·.2) = ["05 X-Y PIC X.\n".toList] := by decide

/-! ## sentences -/

/-- the text of an entry: ordinary characters, periods that are not followed by white space, and closed quoted literals
whose body is ANY text without the quote character (periods, blanks, line breaks included) -/
inductive Body : Line → Prop
  | nil : Body []
  | ch (c : Char) (l : Line) : isQuote c = false → c ≠ '.' → Body l → Body (c :: l)
  | dotEnd : Body ['.']
  | dot (c : Char) (l : Line) : isWs c = false → Body (c :: l) → Body ('.' :: c :: l)
  | lit (q : Char) (b l : Line) : isQuote q = true → q ∉ b → Body l → Body (q :: (b ++ q :: l))

theorem closeQuote_lit (q : Char) : ∀ (b rest : Line), q ∉ b → closeQuote q (b ++ q :: rest) = some (b, rest)
  | [], rest, _ => by simp [closeQuote]
  | c :: b, rest, h => by
    have hc : (c == q) = false := by
      simp only [List.mem_cons, not_or] at h
      simpa using fun e => h.1 e.symm
    have ih := closeQuote_lit q b rest (fun hm => h (List.mem_cons_of_mem _ hm))
    simp [closeQuote, hc, ih]

theorem isQuote_ne_dot (q : Char) (h : isQuote q = true) : q ≠ '.' := by
  intro e; subst e; simp [isQuote] at h

theorem untilPeriodGo_plain (fuel : Nat) (c : Char) (rest : Line) (h : c ≠ '.') (hq : isQuote c = false) :
    untilPeriodGo (fuel + 1) (c :: rest) = (untilPeriodGo fuel rest).map fun p => (c :: p.1, p.2) := by
  have hb : (c == '.') = false := by simpa using h
  simp [untilPeriodGo, hb, hq]

theorem untilPeriodGo_lit (fuel : Nat) (q : Char) (rest lit after : Line) (hq : isQuote q = true)
    (hc : closeQuote q rest = some (lit, after)) :
    untilPeriodGo (fuel + 1) (q :: rest) = (untilPeriodGo fuel after).map fun p => (q :: lit ++ q :: p.1, p.2) := by
  have hb : (q == '.') = false := by simpa using isQuote_ne_dot q hq
  simp [untilPeriodGo, hb, hq, hc]

/-- **The sentence scanner ends an entry at ITS period** (D46 as repaired, for all entries): whatever closed literals the entry
contains -- with periods, blanks and line breaks inside them -- the clauses returned are the whole entry text and the scan resumes
right after the period's white space. -/
theorem untilPeriodGo_body (b : Line) (hb : Body b) (w : Char) (hw : isWs w = true) (rest : Line) :
    ∀ fuel, (b ++ '.' :: w :: rest).length < fuel → untilPeriodGo fuel (b ++ '.' :: w :: rest) = some (b, rest) := by
  induction hb with
  | nil =>
    intro fuel hf
    cases fuel with
    | zero => simp at hf
    | succ f => simp [untilPeriodGo, hw]
  | ch c l hq hd _ ih =>
    intro fuel hf
    cases fuel with
    | zero => simp at hf
    | succ f =>
      have := ih f (by simp at hf ⊢; omega)
      simp only [List.cons_append]
      rw [untilPeriodGo_plain _ _ _ hd hq]
      simp [this]
  | dotEnd =>
    intro fuel hf
    cases fuel with
    | zero => simp at hf
    | succ f =>
      cases f with
      | zero => simp at hf
      | succ g =>
        have h1 : isWs '.' = false := by decide
        simp [untilPeriodGo, h1, hw]
  | dot c l hc _ ih =>
    intro fuel hf
    cases fuel with
    | zero => simp at hf
    | succ f =>
      have := ih f (by simp at hf ⊢; omega)
      simp only [List.cons_append] at this ⊢
      simp [untilPeriodGo, hc, this]
  | lit q b l hq hnb _ ih =>
    intro fuel hf
    cases fuel with
    | zero => simp at hf
    | succ f =>
      have hlen : (l ++ '.' :: w :: rest).length < f := by
        simp only [List.cons_append, List.append_assoc, List.length_cons, List.length_append] at hf ⊢; omega
      have := ih f hlen
      have hcq := closeQuote_lit q b (l ++ '.' :: w :: rest) hnb
      simp only [List.cons_append, List.append_assoc]
      rw [untilPeriodGo_lit _ _ _ _ _ hq hcq]
      simp [this]

theorem untilPeriod_body (b : Line) (hb : Body b) (w : Char) (hw : isWs w = true) (rest : Line) :
    untilPeriod (b ++ '.' :: w :: rest) = some (b, rest) :=
  untilPeriodGo_body b hb w hw rest _ (Nat.lt_succ_self _)

/-- (D46 as repaired) a period followed by a blank inside a closed literal does not end the entry -/
example : sentences "05 X PIC X(12) VALUE 'A. B' OCCURS 4 TIMES.\n05 Y PIC X.\n".toList =
    [("05".toList, "X PIC X(12) VALUE 'A. B' OCCURS 4 TIMES".toList), ("05".toList, "Y PIC X".toList)] := by decide

/-- a quote that is never closed is an ordinary character: the entry still ends at its period -/
example : sentences "05 W PIC X VALUE 'open.\n05 V PIC X.\n".toList =
    [("05".toList, "W PIC X VALUE 'open".toList), ("05".toList, "V PIC X".toList)] := by decide


theorem dropWhile_append_ws (ws s : Line) (h : ws.all isWs = true) :
    (ws ++ s).dropWhile isWs = s.dropWhile isWs := by
  induction ws with
  | nil => rfl
  | cons c cs ih =>
    simp only [List.all_cons, Bool.and_eq_true] at h
    simp [List.dropWhile_cons, h.1, ih h.2]

/-- **C12 (spacing between entries).** White space in front of an entry is irrelevant. -/
theorem leading_space_irrelevant (ws s : Line) (h : ws.all isWs = true) :
    (sentenceAt (ws ++ s)).map (·.1) = (sentenceAt s).map (·.1) := by
  simp only [sentenceAt, dropWhile_append_ws ws s h]

end Stingray.RefFormat

namespace Stingray.Copybook

/-! ## level-number renumbering -/

def mapLevel (f : Nat → Nat) (e : Entry) : Entry := { e with level := f e.level }

mutual
def mapTree (f : Nat → Nat) : Tree → Tree
  | .node e ks => .node (mapLevel f e) (mapTrees f ks)
def mapTrees (f : Nat → Nat) : List Tree → List Tree
  | [] => []
  | t :: ts => mapTree f t :: mapTrees f ts
end

theorem mapTrees_eq_map (f : Nat → Nat) (ts : List Tree) : mapTrees f ts = ts.map (mapTree f) := by
  induction ts with
  | nil => rfl
  | cons t ts ih => simp [mapTrees, ih]

def mapFrame (f : Nat → Nat) (fr : Frame) : Frame := ⟨mapLevel f fr.e, fr.kidsRev.map (mapTree f)⟩
def mapSt (f : Nat → Nat) (s : St) : St := ⟨s.rootsRev.map (mapTree f), s.stack.map (mapFrame f)⟩

/-- an order-preserving renumbering of the level numbers that occur (`L`), which keeps the special
levels special -/
structure Renumbering (L : Nat → Prop) (f : Nat → Nat) : Prop where
  mono : ∀ a b, L a → L b → (a ≤ b ↔ f a ≤ f b)
  special : ∀ a, L a → ((f a = 66 ∨ f a = 77 ∨ f a = 88) ↔ (a = 66 ∨ a = 77 ∨ a = 88))

def skipLv (n : Nat) : Bool := n = 66 || n = 77 || n = 88

theorem skipLv_iff (n : Nat) : skipLv n = true ↔ (n = 66 ∨ n = 77 ∨ n = 88) := by
  simp [skipLv, or_assoc]

theorem skip_mapLevel (L : Nat → Prop) (f : Nat → Nat) (hf : Renumbering L f) (e : Entry) (he : L e.level) :
    skip (mapLevel f e) = skip e := by
  have h1 : skip (mapLevel f e) = skipLv (f e.level) := rfl
  have h2 : skip e = skipLv e.level := rfl
  rw [h1, h2, Bool.eq_iff_iff, skipLv_iff, skipLv_iff]
  exact hf.special e.level he

theorem closeTop_map (f : Nat → Nat) (s : St) : closeTop (mapSt f s) = mapSt f (closeTop s) := by
  obtain ⟨roots, stack⟩ := s
  match stack with
  | [] => rfl
  | [fr] => simp [closeTop, mapSt, mapFrame, mapTree, mapTrees_eq_map, List.map_reverse]
  | fr :: p :: rest => simp [closeTop, mapSt, mapFrame, mapTree, mapTrees_eq_map, List.map_reverse]

def StackIn (L : Nat → Prop) (s : St) : Prop := ∀ fr ∈ s.stack, L fr.e.level

theorem stackIn_closeTop (L : Nat → Prop) (s : St) (h : StackIn L s) : StackIn L (closeTop s) := by
  obtain ⟨roots, stack⟩ := s
  match stack with
  | [] => exact h
  | [fr] => intro x hx; simp [closeTop] at hx
  | fr :: p :: rest =>
    intro x hx
    simp only [closeTop, List.mem_cons] at hx
    rcases hx with rfl | hx
    · exact h p (by simp)
    · exact h x (by simp [hx])

theorem closeWhile_map (L : Nat → Prop) (f : Nat → Nat) (hf : Renumbering L f) (lv fuel : Nat) (s : St)
    (hlv : L lv) (hs : StackIn L s) :
    closeWhile (f lv) fuel (mapSt f s) = mapSt f (closeWhile lv fuel s) ∧ StackIn L (closeWhile lv fuel s) := by
  induction fuel generalizing s with
  | zero => exact ⟨rfl, hs⟩
  | succ n ih =>
    obtain ⟨roots, stack⟩ := s
    cases stack with
    | nil => exact ⟨by simp [closeWhile, mapSt], hs⟩
    | cons fr rest =>
      have hfr : L fr.e.level := hs fr (by simp)
      simp only [closeWhile, mapSt, List.map_cons, mapFrame, mapLevel]
      by_cases h : lv ≤ fr.e.level
      · have h2 : f lv ≤ f fr.e.level := (hf.mono _ _ hlv hfr).mp h
        simp only [h, h2, if_true]
        have := ih (closeTop ⟨roots, fr :: rest⟩) (stackIn_closeTop L _ hs)
        rw [← closeTop_map] at this
        exact ⟨by simpa [mapSt, mapFrame, mapLevel] using this.1, this.2⟩
      · have h2 : ¬ f lv ≤ f fr.e.level := fun x => h ((hf.mono _ _ hlv hfr).mpr x)
        simp only [h, h2, if_false]
        exact ⟨rfl, hs⟩

theorem step_map (L : Nat → Prop) (f : Nat → Nat) (hf : Renumbering L f) (s : St) (e : Entry)
    (he : L e.level) (hs : StackIn L s) :
    step (mapSt f s) (mapLevel f e) = mapSt f (step s e) ∧ StackIn L (step s e) := by
  unfold step
  rw [skip_mapLevel L f hf e he]
  split
  · exact ⟨rfl, hs⟩
  · have hl : (mapSt f s).stack.length = s.stack.length := by simp [mapSt]
    have := closeWhile_map L f hf e.level s.stack.length s he hs
    refine ⟨?_, ?_⟩
    · have h1 := this.1
      simp only [mapLevel] at h1 ⊢
      rw [hl, h1]
      simp [mapSt, mapFrame, mapLevel]
    · intro x hx
      simp only [List.mem_cons] at hx
      rcases hx with rfl | hx
      · exact he
      · exact this.2 x hx

theorem foldl_step_map (L : Nat → Prop) (f : Nat → Nat) (hf : Renumbering L f) (es : List Entry) (s : St)
    (hes : ∀ e ∈ es, L e.level) (hs : StackIn L s) :
    (es.map (mapLevel f)).foldl step (mapSt f s) = mapSt f (es.foldl step s) := by
  induction es generalizing s with
  | nil => rfl
  | cons e es ih =>
    have := step_map L f hf s e (hes e (by simp)) hs
    simp only [List.map_cons, List.foldl_cons, this.1]
    exact ih _ (fun x hx => hes x (by simp [hx])) this.2

theorem closeAll_map (f : Nat → Nat) (fuel : Nat) (s : St) :
    closeAll fuel (mapSt f s) = mapSt f (closeAll fuel s) := by
  induction fuel generalizing s with
  | zero => rfl
  | succ n ih =>
    obtain ⟨roots, stack⟩ := s
    cases stack with
    | nil => simp [closeAll, mapSt]
    | cons fr rest =>
      have := ih (closeTop ⟨roots, fr :: rest⟩)
      rw [← closeTop_map] at this
      simpa [closeAll, mapSt] using this

/-- **C12 (level renumbering).** Renumbering the level numbers that occur by an order-preserving
map which keeps the special levels special yields the same forest, node for node, with the new
numbers: nesting depends only on the order of the level numbers. -/
theorem renumber_invariant (L : Nat → Prop) (f : Nat → Nat) (hf : Renumbering L f) (es : List Entry)
    (hes : ∀ e ∈ es, L e.level) :
    buildForest (es.map (mapLevel f)) = (buildForest es).map (·.map (mapTree f)) := by
  cases es with
  | nil => rfl
  | cons e es =>
    simp only [buildForest, List.map_cons, Option.map_some, Option.some.injEq]
    have h0 : (⟨[], [⟨mapLevel f e, []⟩]⟩ : St) = mapSt f ⟨[], [⟨e, []⟩]⟩ := by simp [mapSt, mapFrame]
    have hs0 : StackIn L ⟨[], [⟨e, []⟩]⟩ := by
      intro x hx; simp at hx; subst hx; exact hes e (by simp)
    rw [h0, foldl_step_map L f hf es _ (fun x hx => hes x (by simp [hx])) hs0]
    have hl : (mapSt f (es.foldl step ⟨[], [⟨e, []⟩]⟩)).stack.length = (es.foldl step ⟨[], [⟨e, []⟩]⟩).stack.length := by
      simp [mapSt]
    rw [hl, closeAll_map]
    simp [mapSt, List.map_reverse]

/-- non-vacuity: on the levels {1, 5, 10, 15, 88} the map 5↦2, 10↦3, 15↦4 is a renumbering -/
example : Renumbering (fun n => n = 1 ∨ n = 5 ∨ n = 10 ∨ n = 15 ∨ n = 88)
    (fun n => if n = 5 then 2 else if n = 10 then 3 else if n = 15 then 4 else n) := by
  constructor
  · rintro a b (rfl | rfl | rfl | rfl | rfl) (rfl | rfl | rfl | rfl | rfl) <;> decide
  · rintro a (rfl | rfl | rfl | rfl | rfl) <;> decide

end Stingray.Copybook
