import Stingray.Model.Decode
/-!
# C18 — whatever bytes a numeric field holds, the result fits its PICTURE or is an error
-/
namespace Stingray.Decode

theorem ofDigits_lt (ds : List Nat) (h : ∀ d ∈ ds, d < 10) : ofDigits ds < 10 ^ ds.length := by
  suffices ∀ acc k, acc < 10 ^ k → ds.foldl (fun a d => a * 10 + d) acc < 10 ^ (k + ds.length) by
    simpa [ofDigits] using this 0 0 (by simp)
  induction ds with
  | nil => intro acc k h; simpa using h
  | cons d ds ih =>
    intro acc k hk
    have hd := h d (by simp)
    have := ih (fun x hx => h x (by simp [hx])) (acc * 10 + d) (k + 1) (by rw [Nat.pow_succ]; omega)
    simpa [Nat.add_assoc, Nat.add_comm 1] using this

theorem nibbles_length (buf : List Nat) : (nibbles buf).length = 2 * buf.length := by
  induction buf with
  | nil => rfl
  | cons b bs ih => simp [nibbles, ih]; omega

/-- **C18 (packed).** For *every* byte string of the item's width — valid encoding or not — the
packed decoder either refuses, or returns a number with exactly the declared scale and no more
than the declared number of digits. -/
theorem packed_fits_or_error (declared frac : Nat) (buf : List Nat) (v : Val)
    (hlen : buf.length = (declared + 2) / 2) (h : unpackPacked declared frac buf = .ok v) :
    ∃ neg c, v = .dec neg c (-(frac : Int)) ∧ c < 10 ^ declared := by
  simp only [unpackPacked] at h
  split at h
  · cases h
  · rename_i sn hsn
    split at h
    · cases h
    · rename_i hany
      split at h
      · cases h
      · rename_i hpad
        injection h with h; subst h
        refine ⟨_, _, rfl, ?_⟩
        have hdig : ∀ d ∈ (nibbles buf).dropLast, d < 10 := by
          have h9 : ∀ d ∈ (nibbles buf).dropLast, d ≤ 9 := by simpa using hany
          intro d hd; have := h9 d hd; omega
        have hl : (nibbles buf).dropLast.length = 2 * buf.length - 1 := by
          simp [nibbles_length]
        have hlt := ofDigits_lt _ hdig
        by_cases hodd : declared % 2 = 1
        · have : 2 * buf.length - 1 = declared := by omega
          rw [hl, this] at hlt; exact hlt
        · -- even digit count: one pad nibble, which the decoder insists is zero
          have hl2 : (nibbles buf).dropLast.length = declared + 1 := by omega
          have hhead : (nibbles buf).dropLast.head? = some 0 := by
            by_cases hh : (nibbles buf).dropLast.head? = some 0
            · exact hh
            · exact absurd ⟨hl2, hh⟩ hpad
          obtain ⟨rest, hrest⟩ : ∃ rest, (nibbles buf).dropLast = 0 :: rest := by
            cases hd : (nibbles buf).dropLast with
            | nil => simp [hd] at hhead
            | cons a rest => simp [hd] at hhead; exact ⟨rest, by rw [hhead]⟩
          have hrl : rest.length = declared := by rw [hrest] at hl2; simpa using hl2
          have := ofDigits_lt rest (fun d hd => hdig d (by rw [hrest]; simp [hd]))
          rw [hrest]
          simpa [ofDigits, hrl] using this

/-- **C18 (zoned).** For every byte string the zoned decoder either refuses or returns a number
with exactly the declared scale and at most one digit per byte: an invalid digit code is never
turned into extra digits. -/
theorem zoned_fits_or_error (frac : Nat) (buf : List Nat) (v : Val)
    (h : unpackZoned frac buf = .ok v) :
    ∃ neg c, v = .dec neg c (-(frac : Int)) ∧ c < 10 ^ buf.length := by
  unfold unpackZoned at h
  split at h
  · cases h
  · rename_i hany
    split at h
    · cases h
    · injection h with h; subst h
      refine ⟨_, _, rfl, ?_⟩
      have h9 : ∀ b ∈ buf, b % 16 ≤ 9 := by simpa using hany
      have := ofDigits_lt (buf.map (· % 16)) (by
        intro d hd
        obtain ⟨b, hb, rfl⟩ := List.mem_map.mp hd
        have := h9 b hb; omega)
      simpa using this

/-- For an *unsigned* zoned item the width is the digit count, so the value fits the PICTURE.
For a *signed* one this project lays the item out with one extra byte for the `S` (C04), and
the decoder reads that byte as a digit — the full statement is false (finding D31): -/
theorem zoned_signed_counterexample :
    unpackZoned 0 [0xF1, 0xD5] = .ok (.dec true 15 0) ∧ ¬ (15 < 10 ^ 1) := by decide

/-- … and holds whenever the sign-position byte carries a zero digit (the partial statement whose
extra hypothesis is exactly the negation of D31's signature). -/
theorem zoned_signed_fits_partial (frac : Nat) (b : Nat) (buf : List Nat) (v : Val) (hb : b % 16 = 0)
    (h : unpackZoned frac (b :: buf) = .ok v) :
    ∃ neg c, v = .dec neg c (-(frac : Int)) ∧ c < 10 ^ buf.length := by
  unfold unpackZoned at h
  split at h
  · cases h
  · rename_i hany
    split at h
    · cases h
    · injection h with h; subst h
      refine ⟨_, _, rfl, ?_⟩
      have h9 : ∀ x ∈ b :: buf, x % 16 ≤ 9 := by simpa using hany
      have := ofDigits_lt (buf.map (· % 16)) (by
        intro d hd
        obtain ⟨x, hx, rfl⟩ := List.mem_map.mp hd
        have := h9 x (by simp [hx]); omega)
      simpa [ofDigits, hb] using this

/-- The pinned commit turned nibbles A–F into two decimal digits (`1A 3C` → 1103); the repaired
decoder refuses them.  (Regression witness, decided by evaluation.) -/
example : unpackPacked 3 0 [0x1A, 0x3C] = .error .valueError := by decide
example : unpackZoned 0 [0xFA, 0xF1] = .error .valueError := by decide
/-- an even-digit field's pad nibble is not a digit -/
example : unpackPacked 2 0 [0x91, 0x2C] = .error .valueError := by decide
example : unpackPacked 2 0 [0x01, 0x2C] = .ok (.dec false 12 0) := by decide

end Stingray.Decode
