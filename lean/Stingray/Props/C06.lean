import Stingray.Model.Odo
import Stingray.Props.C01
import Stingray.Props.C05
/-!
# C06 — OCCURS DEPENDING ON: each record is laid out by its own counter value

* `walkM_eq`: the one-pass, instance-reading `LocationMaker.walk` computes exactly the layout of
  the environment `env` whenever, at the moment each DEPENDING ON table is reached, its counter is
  among the anchors collected so far and the record holds `env`'s value there (`okM`).
* `odo_layout`: hence every path is read from the range the COBOL rule assigns under the record's
  own counter values (C01 instantiated at `env`), and the announced row length is the rule's total.
* `odo_index_refused`: an index at or beyond the count is refused.
* `rowsN_readback` / `odo_file_readback`: variable-length records stored back to back without
  headers are delivered each starting exactly where the previous one ended, for every sequence of
  count vectors — composition with C05's buffer invariant.
-/
namespace Stingray.Layout
open Stingray.Recfm

variable (decode : String → Inst → Nat)

/-! ## the side condition, stated purely -/
mutual
def okM (env : Env) (inst : Inst) : Sch → Nat → Anch → Prop
  | .atomic _ _, _, _ => True
  | .ref _, _, _ => True
  | .array _ (.fixed _) it, s, anch => okM env inst it s anch
  | .array _ (.odo c) it, s, anch => readCounter decode inst anch c = some (env c) ∧ okM env inst it s anch
  | .object _ ps, s, anch => okProps env inst ps s anch
  | .oneOf _ alts, s, anch => okAlts env inst alts s anch
def okProps (env : Env) (inst : Inst) : List (Key × Sch) → Nat → Anch → Prop
  | [], _, _ => True
  | (_, p) :: ps, s, anch => okM env inst p s anch ∧ okProps env inst ps (s + size env p) (anch ++ anchors env p s)
def okAlts (env : Env) (inst : Inst) : List Sch → Nat → Anch → Prop
  | [], _, _ => True
  | a :: as, s, anch => okM env inst a s anch ∧ okAlts env inst as s (anch ++ anchors env a s)
end

theorem selfAnchor_eq (a : Option Key) (sch : Sch) (s : Nat) :
    selfAnchor a sch s = (match a with | some a => [(a, (sch, s))] | none => []) := rfl

/-! ## the one-pass reader computes exactly the environment-indexed layout -/
mutual
theorem walkM_eq (env : Env) (inst : Inst) : ∀ (sch : Sch) (s : Nat) (anch : Anch),
    okM decode env inst sch s anch →
    walkM decode inst sch s anch = some (size env sch, anch ++ anchors env sch s)
  | .atomic a sz, s, anch, _ => by simp [walkM, size, anchors]
  | .ref t, s, anch, _ => by simp [walkM, size, anchors]
  | .array a (.fixed n) it, s, anch, h => by
    simp only [okM] at h
    cases a <;> simp [walkM, walkM_eq env inst it s anch h, size, anchors, cnt, selfAnchor, List.append_assoc]
  | .array a (.odo c) it, s, anch, h => by
    simp only [okM] at h
    cases a <;> simp [walkM, h.1, walkM_eq env inst it s anch h.2, size, anchors, cnt, selfAnchor, List.append_assoc]
  | .object a ps, s, anch, h => by
    simp only [okM] at h
    cases a <;> simp [walkM, walkProps_eq env inst ps s anch h, size, anchors, selfAnchor, List.append_assoc]
  | .oneOf a alts, s, anch, h => by
    simp only [okM] at h
    simp [walkM, walkAlts_eq env inst alts s anch h, size, anchors, List.append_assoc]
theorem walkProps_eq (env : Env) (inst : Inst) : ∀ (ps : List (Key × Sch)) (s : Nat) (anch : Anch),
    okProps decode env inst ps s anch →
    walkProps decode inst ps s anch = some (sizeProps env ps, anch ++ anchorsProps env ps s)
  | [], s, anch, _ => by simp [walkProps, sizeProps, anchorsProps]
  | (k, p) :: ps, s, anch, h => by
    simp only [okProps] at h
    simp [walkProps, walkM_eq env inst p s anch h.1, walkProps_eq env inst ps _ _ h.2, sizeProps, anchorsProps,
      List.append_assoc]
theorem walkAlts_eq (env : Env) (inst : Inst) : ∀ (alts : List Sch) (s : Nat) (anch : Anch),
    okAlts decode env inst alts s anch →
    walkAlts decode inst alts s anch = some (maxAlts env alts, anch ++ anchorsAlts env alts s)
  | [], s, anch, _ => by simp [walkAlts, maxAlts, anchorsAlts]
  | a :: as, s, anch, h => by
    simp only [okAlts] at h
    simp [walkAlts, walkM_eq env inst a s anch h.1, walkAlts_eq env inst as _ _ h.2, maxAlts, anchorsAlts,
      List.append_assoc]
end

/-- **C06 (layout by the record's own counters).**  If the record holds the counter values `env`
where the reader looks for them, then (1) the reader's locations and anchors are exactly the
layout of `env`, (2) the row announces exactly the COBOL rule's record length under `env`, and
(3) every navigation path lands where the rule puts it: the number of elements is the counter's
value and whatever follows a table starts right after its last occupied element. -/
theorem odo_layout (env : Env) (inst : Inst) (it : Item) (path : List Step)
    (hok : okM decode env inst (emit it) 0 [])
    (hwf : WF env it) (hnames : (keys (anchors env (emit it) 0)).Nodup) :
    walkM decode inst (emit it) 0 [] = some (total env it, anchors env (emit it) 0) ∧
    rowLength decode (emit it) inst = some (total env it) ∧
    navRecord env it path = specNav env it 0 path := by
  have h := walkM_eq decode env inst (emit it) 0 [] hok
  rw [size_emit it hwf, List.nil_append] at h
  refine ⟨h, ?_, C01_layout it path hwf hnames⟩
  simp [rowLength, h]

/-- Trailing bytes after the record (the reader hands the whole buffer to the row) do not matter
as long as the counters read the same. -/
theorem walkM_junk (env : Env) (inst junk : Inst) (sch : Sch)
    (h1 : okM decode env inst sch 0 []) (h2 : okM decode env (inst ++ junk) sch 0 []) :
    walkM decode (inst ++ junk) sch 0 [] = walkM decode inst sch 0 [] := by
  rw [walkM_eq decode env _ sch 0 [] h1, walkM_eq decode env _ sch 0 [] h2]

/-- **C06 (index bound).** An index at or beyond the count of the record's own counter is refused. -/
theorem odo_index_refused (env : Env) (anch : Anch) (a : Option Key) (c : String) (it : Sch) (s i : Nat)
    (h : env c ≤ i) : navStep env anch (.array a (.odo c) it) s (.idx i) = none := by
  have : ¬ (i < cnt env (.odo c)) := by simp [cnt]; omega
  simp [navStep, this]

theorem odo_index_accepted (env : Env) (anch : Anch) (a : Option Key) (c : String) (it : Sch) (s i : Nat)
    (h : i < env c) : navStep env anch (.array a (.odo c) it) s (.idx i)
      = some (anchors env it (s + size env it * i), it, s + size env it * i) := by
  have : i < cnt env (.odo c) := by simp [cnt]; omega
  simp [navStep, this]

/-! ## discharging the side condition from checkable facts about the copybook and the record -/

def optKey : Option Key → List Key
  | some a => [a]
  | none => []

/-! anchor names of a schema in the order the reader registers them (independent of offsets and counts) -/
mutual
def akeys : Sch → List Key
  | .atomic a _ => [a]
  | .array a _ it => akeys it ++ optKey a
  | .object a ps => akeysProps ps ++ optKey a
  | .oneOf a alts => akeysAlts alts ++ [a]
  | .ref _ => []
def akeysProps : List (Key × Sch) → List Key
  | [] => []
  | (_, p) :: ps => akeys p ++ akeysProps ps
def akeysAlts : List Sch → List Key
  | [] => []
  | a :: as => akeys a ++ akeysAlts as
end

mutual
theorem keys_anchors_eq (env : Env) : ∀ (c : Sch) (s : Nat), keys (anchors env c s) = akeys c
  | .atomic a sz, s => by simp [anchors, keys, akeys]
  | .ref t, s => by simp [anchors, keys, akeys]
  | .array a n it, s => by
    have := keys_anchors_eq env it s
    cases a <;> simp_all [anchors, keys, akeys, optKey]
  | .object a ps, s => by
    have := keys_props_eq env ps s
    cases a <;> simp_all [anchors, keys, akeys, optKey]
  | .oneOf a alts, s => by
    have := keys_alts_eq env alts s
    simp_all [anchors, keys, akeys]
theorem keys_props_eq (env : Env) : ∀ (ps : List (Key × Sch)) (s : Nat), keys (anchorsProps env ps s) = akeysProps ps
  | [], _ => by simp [anchorsProps, keys, akeysProps]
  | (k, p) :: ps, s => by
    have h1 := keys_anchors_eq env p s
    have h2 := keys_props_eq env ps (s + size env p)
    simp_all [anchorsProps, keys, akeysProps]
theorem keys_alts_eq (env : Env) : ∀ (alts : List Sch) (s : Nat), keys (anchorsAlts env alts s) = akeysAlts alts
  | [], _ => by simp [anchorsAlts, keys, akeysAlts]
  | a :: as, s => by
    have h1 := keys_anchors_eq env a s
    have h2 := keys_alts_eq env as s
    simp_all [anchorsAlts, keys, akeysAlts]
end

/-! "The counter is declared before the table that depends on it": when the reader reaches a
DEPENDING ON table, the counter's name is among the names registered so far (`seen`), and it is
one of the copybook's counters `cs`. -/
mutual
def declOk (cs : List String) : Sch → List Key → Prop
  | .atomic _ _, _ => True
  | .ref _, _ => True
  | .array _ (.fixed _) it, seen => declOk cs it seen
  | .array _ (.odo c) it, seen => (Key.item c ∈ seen ∧ c ∈ cs) ∧ declOk cs it seen
  | .object _ ps, seen => declProps cs ps seen
  | .oneOf _ alts, seen => declAlts cs alts seen
def declProps (cs : List String) : List (Key × Sch) → List Key → Prop
  | [], _ => True
  | (_, p) :: ps, seen => declOk cs p seen ∧ declProps cs ps (seen ++ akeys p)
def declAlts (cs : List String) : List Sch → List Key → Prop
  | [], _ => True
  | a :: as, seen => declOk cs a seen ∧ declAlts cs as (seen ++ akeys a)
end

/-- "The record holds the counter values `env`": wherever the layout of `env` puts a counter item,
it is an elementary item and the bytes there decode to `env`'s value. -/
def Holds (env : Env) (inst : Inst) (cs : List String) (root : Anch) : Prop :=
  ∀ c ∈ cs, ∀ v, (Key.item c, v) ∈ root →
    ∃ sz s, v = (Sch.atomic (.item c) sz, s) ∧ decode c ((inst.drop s).take sz) = env c

theorem keys_append (a b : Anch) : keys (a ++ b) = keys a ++ keys b := by simp [keys]

theorem readCounter_of (env : Env) (inst : Inst) (cs : List String) (root pre post : Anch) (c : String)
    (hroot : pre ++ post = root) (hnd : (keys root).Nodup) (hh : Holds decode env inst cs root)
    (hc : Key.item c ∈ keys pre) (hcs : c ∈ cs) : readCounter decode inst pre c = some (env c) := by
  obtain ⟨⟨k, v⟩, hmem, hk⟩ := List.mem_map.mp hc
  simp only at hk; subst hk
  have hin : (Key.item c, v) ∈ root := by rw [← hroot]; exact List.mem_append_left _ hmem
  obtain ⟨sz, s, rfl, hdec⟩ := hh c hcs v hin
  have hndp : (keys pre).Nodup := by
    have : (keys root) = keys pre ++ keys post := by rw [← hroot, keys_append]
    rw [this] at hnd
    exact (List.nodup_append.mp hnd).1
  have := lookupLast_of_mem pre (Key.item c) _ hmem hndp
  simp [readCounter, this, hdec]

theorem anchors_array (env : Env) (a : Option Key) (n : Count) (it : Sch) (s : Nat) :
    anchors env (.array a n it) s = anchors env it s ++ selfAnchor a (.array a n it) s := by
  cases a <;> simp [anchors, selfAnchor]

theorem anchors_object (env : Env) (a : Option Key) (ps : List (Key × Sch)) (s : Nat) :
    anchors env (.object a ps) s = anchorsProps env ps s ++ selfAnchor a (.object a ps) s := by
  cases a <;> simp [anchors, selfAnchor]

mutual
theorem okM_of (env : Env) (inst : Inst) (cs : List String) (root : Anch) (hnd : (keys root).Nodup)
    (hh : Holds decode env inst cs root) : ∀ (sub : Sch) (s : Nat) (pre post : Anch),
    pre ++ (anchors env sub s ++ post) = root → declOk cs sub (keys pre) → okM decode env inst sub s pre
  | .atomic _ _, _, _, _, _, _ => by simp [okM]
  | .ref _, _, _, _, _, _ => by simp [okM]
  | .array a (.fixed n) it, s, pre, post, hr, hd => by
    simp only [okM]
    simp only [declOk] at hd
    refine okM_of env inst cs root hnd hh it s pre (selfAnchor a (.array a (.fixed n) it) s ++ post) ?_ hd
    rw [← hr, anchors_array]; simp only [List.append_assoc]
  | .array a (.odo c) it, s, pre, post, hr, hd => by
    simp only [okM]
    simp only [declOk] at hd
    refine ⟨readCounter_of decode env inst cs root pre _ c hr hnd hh hd.1.1 hd.1.2, ?_⟩
    refine okM_of env inst cs root hnd hh it s pre (selfAnchor a (.array a (.odo c) it) s ++ post) ?_ hd.2
    rw [← hr, anchors_array]; simp only [List.append_assoc]
  | .object a ps, s, pre, post, hr, hd => by
    simp only [okM]
    simp only [declOk] at hd
    refine okProps_of env inst cs root hnd hh ps s pre (selfAnchor a (.object a ps) s ++ post) ?_ hd
    rw [← hr, anchors_object]; simp only [List.append_assoc]
  | .oneOf a alts, s, pre, post, hr, hd => by
    simp only [okM]
    simp only [declOk] at hd
    refine okAlts_of env inst cs root hnd hh alts s pre ([(a, (Sch.oneOf a alts, s))] ++ post) ?_ hd
    rw [← hr]; simp only [anchors, List.append_assoc]
theorem okProps_of (env : Env) (inst : Inst) (cs : List String) (root : Anch) (hnd : (keys root).Nodup)
    (hh : Holds decode env inst cs root) : ∀ (ps : List (Key × Sch)) (s : Nat) (pre post : Anch),
    pre ++ (anchorsProps env ps s ++ post) = root → declProps cs ps (keys pre) → okProps decode env inst ps s pre
  | [], _, _, _, _, _ => by simp [okProps]
  | (k, p) :: ps, s, pre, post, hr, hd => by
    simp only [okProps]
    simp only [declProps] at hd
    refine ⟨okM_of env inst cs root hnd hh p s pre (anchorsProps env ps (s + size env p) ++ post) ?_ hd.1, ?_⟩
    · rw [← hr]; simp only [anchorsProps, List.append_assoc]
    · refine okProps_of env inst cs root hnd hh ps _ _ post ?_ ?_
      · rw [← hr]; simp only [anchorsProps, List.append_assoc]
      · rw [keys_append, keys_anchors_eq]; exact hd.2
theorem okAlts_of (env : Env) (inst : Inst) (cs : List String) (root : Anch) (hnd : (keys root).Nodup)
    (hh : Holds decode env inst cs root) : ∀ (alts : List Sch) (s : Nat) (pre post : Anch),
    pre ++ (anchorsAlts env alts s ++ post) = root → declAlts cs alts (keys pre) → okAlts decode env inst alts s pre
  | [], _, _, _, _, _ => by simp [okAlts]
  | a :: as, s, pre, post, hr, hd => by
    simp only [okAlts]
    simp only [declAlts] at hd
    refine ⟨okM_of env inst cs root hnd hh a s pre (anchorsAlts env as s ++ post) ?_ hd.1, ?_⟩
    · rw [← hr]; simp only [anchorsAlts, List.append_assoc]
    · refine okAlts_of env inst cs root hnd hh as _ _ post ?_ ?_
      · rw [← hr]; simp only [anchorsAlts, List.append_assoc]
      · rw [keys_append, keys_anchors_eq]; exact hd.2
end

/-- **C06, with the side condition discharged.**  For a copybook whose counters are declared
before the tables that depend on them and whose anchor names are unique, and a record that holds
the counter values `env` where the layout of `env` puts the counter items: the reader lays the
record out by exactly those values (`okM` holds, hence all of `odo_layout`). -/
theorem okM_of_encodes (env : Env) (inst : Inst) (cs : List String) (sch : Sch)
    (hnd : (keys (anchors env sch 0)).Nodup) (hdecl : declOk cs sch [])
    (hh : Holds decode env inst cs (anchors env sch 0)) : okM decode env inst sch 0 [] :=
  okM_of decode env inst cs (anchors env sch 0) hnd hh sch 0 [] [] (by simp) (by simpa [keys] using hdecl)

theorem odo_layout_of_record (env : Env) (inst : Inst) (cs : List String) (it : Item) (path : List Step)
    (hwf : WF env it) (hnd : (keys (anchors env (emit it) 0)).Nodup) (hdecl : declOk cs (emit it) [])
    (hh : Holds decode env inst cs (anchors env (emit it) 0)) :
    rowLength decode (emit it) inst = some (total env it) ∧
    navRecord env it path = specNav env it 0 path :=
  let h := odo_layout decode env inst it path (okM_of_encodes decode env inst cs (emit it) hnd hdecl hh) hwf hnd
  ⟨h.2.1, h.2.2⟩

/-! ## files of variable-length records without headers -/

/-- Every row announces exactly the length of the record at the head of its buffer. -/
def RowsOk (lenOf : Inst → Option Nat) (cap : Nat) : List Bytes → Prop
  | [] => True
  | r :: rs => lenOf ((r :: rs).flatten.take cap) = some r.length ∧ RowsOk lenOf cap rs

theorem buf_eq_take (cap : Nat) (s : St) (h : InvN cap s) : s.buf = (s.buf ++ s.src).take cap := by
  have hl : s.buf.length = min cap (s.buf ++ s.src).length := h
  by_cases hc : cap ≤ s.buf.length
  · have : s.buf.length = cap := by simp at hl; omega
    rw [List.take_append_of_le_length (by omega), ← this, List.take_length]
  · have hsrc : s.src = [] := by
      simp at hl
      have : s.src.length = 0 := by omega
      exact List.eq_nil_of_length_eq_zero this
    rw [hsrc, List.append_nil]
    exact (List.take_of_length_le (by omega)).symm

theorem rowsN_readback (lenOf : Inst → Option Nat) (cap : Nat) (recs : List Bytes) (s : St) (fuel : Nat)
    (hinv : InvN cap s) (hall : s.buf ++ s.src = recs.flatten)
    (hlen : ∀ r ∈ recs, 0 < r.length ∧ r.length ≤ cap)
    (hrow : RowsOk lenOf cap recs) (hf : recs.length < fuel) :
    rowsN lenOf cap fuel s = (recs, true) := by
  induction recs generalizing s fuel with
  | nil =>
    simp at hall
    cases fuel with
    | zero => simp at hf
    | succ fuel => simp [rowsN, hall.1]
  | cons r rs ih =>
    cases fuel with
    | zero => simp at hf
    | succ fuel =>
      have hr := hlen r (by simp)
      have hlenall : (s.buf ++ s.src).length = (r :: rs).flatten.length := by rw [hall]
      have hne : s.buf ≠ [] := by
        intro h
        simp only [InvN] at hinv
        simp [h] at hinv hlenall
        omega
      have hbl : r.length ≤ s.buf.length := by
        simp [InvN] at hinv
        simp at hlenall
        omega
      have htake : s.buf.take r.length = r := by
        have : (s.buf ++ s.src).take r.length = r := by rw [hall]; simp
        rw [List.take_append_of_le_length hbl] at this
        exact this
      have hall' : (stepN cap s r.length).buf ++ (stepN cap s r.length).src = rs.flatten := by
        rw [stepN_all cap s r.length hbl, hall]; simp
      have hbuf : s.buf = (r :: rs).flatten.take cap := by rw [buf_eq_take cap s hinv, hall]
      obtain ⟨k, hk⟩ : ∃ k, r.length = k + 1 := ⟨r.length - 1, by omega⟩
      have hrow0 : lenOf s.buf = some (k + 1) := by rw [hbuf, hrow.1, hk]
      have := ih (stepN cap s r.length) fuel (stepN_inv cap s _ hinv) hall'
        (fun x hx => hlen x (by simp [hx])) hrow.2 (by simpa using hf)
      simp only [rowsN, hne, if_false, hrow0]
      rw [← hk, this, htake]

/-- **C06 (files).**  Records of a DEPENDING ON layout stored back to back (RECFM N): if every
record holds its own counter values where the reader looks (`okM` on the buffer that starts with
it) and has the length the layout rule gives for those values, then the sheet delivers exactly
those records, each starting where the previous one ended — for every sequence of count
vectors, including zero and the maximum. -/
theorem odo_file_readback (cap : Nat) (it : Item) (recs : List Bytes) (envs : List Env)
    (hlen : ∀ r ∈ recs, 0 < r.length ∧ r.length ≤ cap)
    (hrows : ∀ k (hk : k < recs.length), ∃ env,
        okM decode env ((recs.drop k).flatten.take cap) (emit it) 0 [] ∧ WF env it ∧
        total env it = (recs[k]).length)
    (_henvs : envs.length = recs.length) :
    rowsN (rowLength decode (emit it)) cap (recs.flatten.length + 1) (initN cap recs.flatten) = (recs, true) := by
  have hrow : RowsOk (rowLength decode (emit it)) cap recs := by
    suffices ∀ (rs : List Bytes), (∀ k (hk : k < rs.length), ∃ env,
        okM decode env ((rs.drop k).flatten.take cap) (emit it) 0 [] ∧ WF env it ∧
        total env it = (rs[k]).length) → RowsOk (rowLength decode (emit it)) cap rs from this recs hrows
    intro rs
    induction rs with
    | nil => intro _; trivial
    | cons r rs ih =>
      intro h
      refine ⟨?_, ih (fun k hk => by
        obtain ⟨env, h1, h2, h3⟩ := h (k + 1) (by simpa using hk)
        exact ⟨env, by simpa using h1, h2, by simpa using h3⟩)⟩
      obtain ⟨env, h1, h2, h3⟩ := h 0 (by simp)
      have h1' : okM decode env ((r :: rs).flatten.take cap) (emit it) 0 [] := by simpa using h1
      have hw := walkM_eq decode env _ (emit it) 0 [] h1'
      have h3' : total env it = r.length := by simpa using h3
      show rowLength decode (emit it) ((r :: rs).flatten.take cap) = some r.length
      unfold rowLength
      rw [hw, size_emit it h2, h3']
      rfl
  have hge : recs.length ≤ recs.flatten.length := by
    clear hrows hrow _henvs
    induction recs with
    | nil => simp
    | cons r rs ih =>
      have := hlen r (by simp)
      have := ih (fun x hx => hlen x (by simp [hx]))
      simp only [List.flatten_cons, List.length_append, List.length_cons]; omega
  exact rowsN_readback _ cap recs _ _ (initN_inv _ _) (initN_all _ _) hlen hrow (by omega)

end Stingray.Layout

namespace Stingray.Layout

/-! ## non-vacuity -/

/-- `05 N PIC 9. 05 T PIC XX OCCURS 0 TO 5 DEPENDING ON N. 05 Z PIC X.` -/
def odoSample : Item :=
  .group "R" none [(.elem "N" none 1, []), (.elem "T" (some (.odo "N")) 2, []), (.elem "Z" none 1, [])]

def decodeZ : String → Inst → Nat := fun _ bytes => bytes.foldl (fun a b => a * 10 + b % 16) 0

/-- a record with N = 2 followed by junk; the row announces 1 + 2·2 + 1 = 6 bytes -/
example : rowLength decodeZ (emit odoSample) [0xF2, 1, 2, 3, 4, 9, 0xF7, 0xF7] = some 6 := by decide

/-- … and one with N = 0: the item after the empty table starts right after the counter -/
example : rowLength decodeZ (emit odoSample) [0xF0, 9] = some 2 ∧
    navRecord (fun _ => 0) odoSample [.name "Z"] = some (1, 2) := by decide

example : declOk ["N"] (emit odoSample) [] := by
  simp [declOk, declProps, emit, emitClusters, odoSample, akeys, Item.name]

end Stingray.Layout
