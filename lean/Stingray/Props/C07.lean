import Stingray.Model.Copybook
import Stingray.Props.C06
/-!
# C07 — copybook to schema: every entry appears once, in place, and none is lost

* `buildForest_preorder` — the trees `structure()` builds, read in preorder, are exactly the
  entries of the copybook in source order minus the 66/77/88 entries: nothing lost, duplicated
  or reordered.
* `buildForest_levels` — every entry hangs below an entry with a strictly smaller level number
  (nested as the level numbers nest).
* `entries_emit` / `names_toItem` — the generated schema contains exactly one schema node per
  entry, in source order (REDEFINES alternatives in declaration order inside their `oneOf`).
* `C07_every_entry_once` — the composition, from the entry list to the schemas of all records.
-/
namespace Stingray.Copybook
open Stingray.Layout

theorem preorderL_append (a b : List Tree) : preorderL (a ++ b) = preorderL a ++ preorderL b := by
  induction a with
  | nil => simp [preorderL]
  | cons t ts ih => simp [preorderL, ih]

/-! ## nothing lost, duplicated or reordered -/

/-- entries represented by a state, in source order -/
def flatStack : List Frame → List Entry      -- argument: innermost first
  | [] => []
  | f :: rest => flatStack rest ++ (f.e :: preorderL f.kidsRev.reverse)
def flat (s : St) : List Entry := preorderL s.rootsRev.reverse ++ flatStack s.stack

theorem flat_closeTop (s : St) : flat (closeTop s) = flat s := by
  obtain ⟨roots, stack⟩ := s
  match stack with
  | [] => rfl
  | [f] => simp [closeTop, flat, flatStack, preorderL_append, preorderL, preorder]
  | f :: p :: rest =>
    simp [closeTop, flat, flatStack, preorderL_append, preorderL, preorder, List.append_assoc]

theorem flat_closeWhile (lv fuel : Nat) (s : St) : flat (closeWhile lv fuel s) = flat s := by
  induction fuel generalizing s with
  | zero => rfl
  | succ n ih =>
    simp only [closeWhile]
    split
    · rfl
    · split
      · rw [ih, flat_closeTop]
      · rfl

theorem flat_step (s : St) (e : Entry) : flat (step s e) = flat s ++ (if skip e then [] else [e]) := by
  unfold step
  split
  · simp
  · simp only [flat, flatStack, preorderL, List.reverse_nil, List.append_nil]
    have := flat_closeWhile e.level s.stack.length s
    simp only [flat] at this
    rw [← List.append_assoc, this]

theorem flat_foldl (es : List Entry) (s : St) :
    flat (es.foldl step s) = flat s ++ es.filter (fun e => !skip e) := by
  induction es generalizing s with
  | nil => simp
  | cons e es ih =>
    simp only [List.foldl_cons, ih, flat_step, List.filter_cons]
    cases skip e <;> simp

theorem flat_closeAll (fuel : Nat) (s : St) : flat (closeAll fuel s) = flat s := by
  induction fuel generalizing s with
  | zero => rfl
  | succ n ih =>
    simp only [closeAll]
    split
    · rfl
    · rw [ih, flat_closeTop]

theorem closeTop_len (s : St) : (closeTop s).stack.length = s.stack.length - 1 := by
  obtain ⟨roots, stack⟩ := s
  match stack with
  | [] => rfl
  | [f] => rfl
  | f :: p :: rest => simp [closeTop]

theorem closeAll_empty (fuel : Nat) (s : St) (h : s.stack.length ≤ fuel) : (closeAll fuel s).stack = [] := by
  induction fuel generalizing s with
  | zero => simp [closeAll]; simpa using h
  | succ n ih =>
    simp only [closeAll]
    split
    · assumption
    · rename_i hs
      apply ih
      rw [closeTop_len]; omega

/-- **C07 (every entry once, in source order).**  The first entry opens the first record; after it
exactly the 66/77/88 entries are left out. -/
theorem buildForest_preorder (e : Entry) (es : List Entry) (ts : List Tree)
    (h : buildForest (e :: es) = some ts) :
    preorderL ts = e :: es.filter (fun e => !skip e) := by
  simp only [buildForest, Option.some.injEq] at h
  subst h
  have h1 := flat_closeAll (es.foldl step ⟨[], [⟨e, []⟩]⟩).stack.length (es.foldl step ⟨[], [⟨e, []⟩]⟩)
  have h2 := closeAll_empty _ (es.foldl step ⟨[], [⟨e, []⟩]⟩) (Nat.le_refl _)
  rw [flat_foldl] at h1
  simp only [flat, h2, flatStack, List.append_nil, preorderL, List.reverse_nil, List.nil_append] at h1
  exact h1

theorem buildForest_some (e : Entry) (es : List Entry) : ∃ ts, buildForest (e :: es) = some ts :=
  ⟨_, rfl⟩

/-! ## nested as the level numbers nest -/

def rootLevel : Tree → Nat
  | .node e _ => e.level

mutual
/-- every child hangs below an entry with a strictly smaller level number -/
def LevelsOk : Tree → Prop
  | .node e ks => LevelsOkL e.level ks
def LevelsOkL (lv : Nat) : List Tree → Prop
  | [] => True
  | t :: ts => lv < rootLevel t ∧ LevelsOk t ∧ LevelsOkL lv ts
end

theorem levelsOkL_append (lv : Nat) (a b : List Tree) :
    LevelsOkL lv (a ++ b) ↔ LevelsOkL lv a ∧ LevelsOkL lv b := by
  induction a with
  | nil => simp [LevelsOkL]
  | cons t ts ih => simp [LevelsOkL, ih, and_assoc]

theorem levelsOkL_reverse (lv : Nat) (a : List Tree) : LevelsOkL lv a.reverse ↔ LevelsOkL lv a := by
  induction a with
  | nil => simp
  | cons t ts ih =>
    simp only [List.reverse_cons, levelsOkL_append, ih, LevelsOkL]
    constructor
    · rintro ⟨h1, h2, h3, _⟩; exact ⟨h2, h3, h1⟩
    · rintro ⟨h1, h2, h3⟩; exact ⟨h3, h1, h2, trivial⟩

def AllOk : List Tree → Prop
  | [] => True
  | t :: ts => LevelsOk t ∧ AllOk ts

/-- stack invariant: levels strictly increase towards the innermost open node, and the children
already attached to an open node are deeper than it -/
def StackOk : List Frame → Prop
  | [] => True
  | [f] => LevelsOkL f.e.level f.kidsRev
  | f :: p :: rest => p.e.level < f.e.level ∧ LevelsOkL f.e.level f.kidsRev ∧ StackOk (p :: rest)

def Inv (s : St) : Prop := AllOk s.rootsRev ∧ StackOk s.stack

theorem inv_closeTop (s : St) (h : Inv s) : Inv (closeTop s) := by
  obtain ⟨roots, stack⟩ := s
  match stack with
  | [] => exact h
  | [f] =>
    obtain ⟨hr, hs⟩ := h
    simp only [StackOk] at hs
    refine ⟨⟨?_, hr⟩, trivial⟩
    simp only [LevelsOk]
    exact (levelsOkL_reverse _ _).mpr hs
  | f :: p :: rest =>
    obtain ⟨hr, hlt, hk, hrest⟩ := h
    refine ⟨hr, ?_⟩
    have hnew : LevelsOk (Tree.node f.e f.kidsRev.reverse) := by
      simp only [LevelsOk]; exact (levelsOkL_reverse _ _).mpr hk
    match rest, hrest with
    | [], hp =>
      simp only [StackOk] at hp ⊢
      exact ⟨hlt, hnew, hp⟩
    | q :: rest', hp =>
      simp only [StackOk] at hp ⊢
      exact ⟨hp.1, ⟨hlt, hnew, hp.2.1⟩, hp.2.2⟩

theorem inv_closeWhile (lv fuel : Nat) (s : St) (h : Inv s) (hf : s.stack.length ≤ fuel) :
    Inv (closeWhile lv fuel s) ∧
    (∀ f rest, (closeWhile lv fuel s).stack = f :: rest → f.e.level < lv) := by
  induction fuel generalizing s with
  | zero =>
    have : s.stack = [] := List.eq_nil_of_length_eq_zero (by omega)
    simp [closeWhile, h, this]
  | succ n ih =>
    simp only [closeWhile]
    split
    · rename_i hs; exact ⟨h, by simp [hs]⟩
    · rename_i f rest hs
      split
      · apply ih _ (inv_closeTop s h)
        rw [closeTop_len]; omega
      · rename_i hlv
        refine ⟨h, ?_⟩
        intro f' rest' he
        rw [hs] at he
        injection he with h1 _; subst h1
        omega

theorem inv_step (s : St) (e : Entry) (h : Inv s) : Inv (step s e) := by
  unfold step
  split
  · exact h
  · obtain ⟨hi, htop⟩ := inv_closeWhile e.level s.stack.length s h (Nat.le_refl _)
    refine ⟨hi.1, ?_⟩
    show StackOk (⟨e, []⟩ :: (closeWhile e.level s.stack.length s).stack)
    cases hst : (closeWhile e.level s.stack.length s).stack with
    | nil => simp [StackOk, LevelsOkL]
    | cons f rest =>
      have := htop f rest hst
      have hs := hi.2
      rw [hst] at hs
      simp only [StackOk]
      exact ⟨this, by simp only [LevelsOkL], hs⟩

theorem inv_foldl (es : List Entry) (s : St) (h : Inv s) : Inv (es.foldl step s) := by
  induction es generalizing s with
  | nil => exact h
  | cons e es ih => exact ih _ (inv_step s e h)

theorem inv_closeAll (fuel : Nat) (s : St) (h : Inv s) : Inv (closeAll fuel s) := by
  induction fuel generalizing s with
  | zero => exact h
  | succ n ih =>
    simp only [closeAll]
    split
    · exact h
    · exact ih _ (inv_closeTop s h)

theorem allOk_reverse (ts : List Tree) : AllOk ts.reverse ↔ AllOk ts := by
  have happ : ∀ a b : List Tree, AllOk (a ++ b) ↔ AllOk a ∧ AllOk b := by
    intro a b; induction a with
    | nil => simp [AllOk]
    | cons t ts ih => simp [AllOk, ih, and_assoc]
  induction ts with
  | nil => simp
  | cons t ts ih => simp [happ, ih, AllOk, and_comm]

/-- **C07 (nested as the level numbers nest).**  In every tree `structure()` builds, each entry
hangs below an entry with a strictly smaller level number. -/
theorem buildForest_levels (es : List Entry) (ts : List Tree) (h : buildForest es = some ts) : AllOk ts := by
  cases es with
  | nil => simp [buildForest] at h
  | cons e es =>
    simp only [buildForest, Option.some.injEq] at h
    subst h
    have h0 : Inv ⟨[], [⟨e, []⟩]⟩ := ⟨trivial, by simp [StackOk, LevelsOkL]⟩
    have := inv_closeAll (es.foldl step ⟨[], [⟨e, []⟩]⟩).stack.length _ (inv_foldl es _ h0)
    exact (allOk_reverse _).mpr this.1

/-! ## one schema node per entry, in source order -/

mutual
/-- data names of an item tree in source order (base, then its redefiners, then the next cluster) -/
def itemNames : Item → List String
  | .elem n _ _ => [n]
  | .group n _ cs => n :: clusterNames cs
def clusterNames : List (Item × List Item) → List String
  | [] => []
  | (b, rs) :: cs => itemNames b ++ listNames rs ++ clusterNames cs
def listNames : List Item → List String
  | [] => []
  | r :: rs => itemNames r ++ listNames rs
end

mutual
/-- the schema nodes that stand for a data description entry (those carrying `title`/`cobol`), by
name, in document order; `$ref` place-holders and the synthetic `REDEFINES-x` wrappers are not entries -/
def entriesOf : Sch → List String
  | .atomic (.item n) _ => [n]
  | .atomic (.redef _) _ => []
  | .array (some (.item n)) _ it => n :: entriesInner it
  | .array _ _ it => entriesOf it                 -- elementary OCCURS: the entry is the inner item
  | .object (some (.item n)) ps => n :: entriesProps ps
  | .object _ ps => entriesProps ps
  | .oneOf _ alts => entriesAlts alts
  | .ref _ => []
def entriesInner : Sch → List String              -- the anonymous items object of a group OCCURS
  | .object none ps => entriesProps ps
  | s => entriesOf s
def entriesProps : List (Key × Sch) → List String
  | [] => []
  | (_, p) :: ps => entriesOf p ++ entriesProps ps
def entriesAlts : List Sch → List String
  | [] => []
  | a :: as => entriesOf a ++ entriesAlts as
end

theorem entriesProps_append (a b : List (Key × Sch)) : entriesProps (a ++ b) = entriesProps a ++ entriesProps b := by
  induction a with
  | nil => simp [entriesProps]
  | cons x xs ih => obtain ⟨k, p⟩ := x; simp [entriesProps, ih]

theorem entriesProps_refList (rs : List Item) : entriesProps (refList rs) = [] := by
  induction rs with
  | nil => simp [refList, entriesProps]
  | cons r rs ih => simp [refList, entriesProps, entriesOf, ih]

mutual
/-- **C07 (one schema entry per DDE, in place).** -/
theorem entries_emit : ∀ (it : Item), entriesOf (emit it) = itemNames it
  | .elem n none sz => by simp [emit, entriesOf, itemNames]
  | .elem n (some k) sz => by simp [emit, entriesOf, entriesProps, itemNames]
  | .group n none cs => by simp [emit, entriesOf, itemNames, entries_clusters cs]
  | .group n (some k) cs => by simp [emit, entriesOf, entriesInner, itemNames, entries_clusters cs]
theorem entries_clusters : ∀ (cs : List (Item × List Item)), entriesProps (emitClusters cs) = clusterNames cs
  | [] => by simp [emitClusters, entriesProps, clusterNames]
  | (b, []) :: cs => by
    simp [emitClusters, entriesProps, clusterNames, listNames, entries_emit b, entries_clusters cs]
  | (b, r :: rs) :: cs => by
    simp only [emitClusters, List.cons_append, entriesProps, entriesOf, entriesAlts, entriesProps_append,
      entriesProps_refList, clusterNames, entries_emit b, entries_list (r :: rs), entries_clusters cs]
    simp [refList, entriesProps, entriesOf, entriesProps_refList]
theorem entries_list : ∀ (rs : List Item), entriesAlts (emitList rs) = listNames rs
  | [] => by simp [emitList, entriesAlts, listNames]
  | r :: rs => by simp [emitList, entriesAlts, listNames, entries_emit r, entries_list rs]
end

/-! ## DDE tree → item tree keeps every entry, in order -/

def pairsNames : List (Item × Bool) → List String
  | [] => []
  | (it, _) :: rest => itemNames it ++ pairsNames rest

theorem clusterR_names (l : List (Item × Bool)) :
    clusterNames (clusterR l).1 = listNames [] ++ clusterNames (clusterR l).1 := by simp [listNames]

theorem listNames_append (a b : List Item) : listNames (a ++ b) = listNames a ++ listNames b := by
  induction a with
  | nil => simp [listNames]
  | cons x xs ih => simp [listNames, ih]

theorem clusterR_pairs : ∀ (l : List (Item × Bool)),
    listNames (clusterR l).2 ++ clusterNames (clusterR l).1 = pairsNames l
  | [] => by simp [clusterR, listNames, clusterNames, pairsNames]
  | (it, r) :: rest => by
    have ih := clusterR_pairs rest
    simp only [clusterR]
    cases hr : clusterR rest with
    | mk cs pend =>
      rw [hr] at ih
      cases r
      · simp only [Bool.false_eq_true, if_false, listNames, clusterNames, pairsNames, List.nil_append]
        rw [← ih]; simp [List.append_assoc]
      · simp only [if_true, listNames, pairsNames]
        rw [← ih]; simp [List.append_assoc]

theorem cluster_names (l : List (Item × Bool)) : clusterNames (cluster l) = pairsNames l := by
  have := clusterR_pairs l
  unfold cluster
  cases hr : clusterR l with
  | mk cs pend =>
    rw [hr] at this
    cases pend with
    | nil => simpa [listNames] using this
    | cons p ps => simpa [clusterNames, listNames, List.append_assoc] using this

mutual
/-- in a well-formed copybook exactly the entries with a PICTURE are the leaves -/
def Leafy : Tree → Prop
  | .node e ks => (e.size.isSome → ks = []) ∧ LeafyL ks
def LeafyL : List Tree → Prop
  | [] => True
  | t :: ts => Leafy t ∧ LeafyL ts
end

mutual
theorem names_toItem : ∀ (t : Tree), Leafy t → itemNames (toItem t) = (preorder t).map (·.uname)
  | .node e ks, h => by
    simp only [Leafy] at h
    simp only [toItem, preorder]
    cases hs : e.size with
    | some sz =>
      have : ks = [] := h.1 (by simp [hs])
      subst this
      simp [itemNames, preorderL]
    | none =>
      simp only [itemNames, cluster_names, List.map_cons, names_toItems ks h.2]
theorem names_toItems : ∀ (ts : List Tree), LeafyL ts → pairsNames (toItems ts) = (preorderL ts).map (·.uname)
  | [], _ => by simp [toItems, pairsNames, preorderL]
  | .node e ks :: ts, h => by
    simp only [LeafyL] at h
    simp only [toItems, pairsNames, preorderL, List.map_append, names_toItem (.node e ks) h.1, names_toItems ts h.2]
end

theorem names_forest : ∀ (ts : List Tree), LeafyL ts →
    (ts.map toItem).flatMap itemNames = (preorderL ts).map (·.uname)
  | [], _ => by simp [preorderL]
  | t :: ts, h => by
    simp only [LeafyL] at h
    simp only [List.map_cons, List.flatMap_cons, preorderL, List.map_append, names_toItem t h.1,
      names_forest ts h.2]

/-- **C07, composed.**  From the entries of a copybook to the schemas of all its records: the
schema nodes that stand for entries are, record by record and in document order, exactly the
entries of the copybook in source order without the 66/77/88 entries — each once, under its
unique name. -/
theorem C07_every_entry_once (e : Entry) (es : List Entry) (ts : List Tree)
    (h : buildForest (e :: es) = some ts) (hl : LeafyL ts) :
    (ts.map toItem).flatMap (fun it => entriesOf (emit it))
      = (e :: es.filter (fun x => !skip x)).map (·.uname) := by
  have h1 : (ts.map toItem).flatMap (fun it => entriesOf (emit it)) = (ts.map toItem).flatMap itemNames := by
    congr 1; funext it; exact entries_emit it
  rw [h1, names_forest ts hl, buildForest_preorder e es ts h]

/-- each record (tree) yields one schema, in order -/
theorem one_schema_per_record (es : List Entry) (its : List Item) (ts : List Tree)
    (h : buildForest (assignNames es) = some ts) (hr : records es = some its) : its.length = ts.length := by
  simp [records, h] at hr
  subst hr
  simp

end Stingray.Copybook
