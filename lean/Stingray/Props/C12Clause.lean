import Stingray.Model.Clause
/-!
# C12, clause layer — clause order, optional words and key-word synonyms change nothing

`Clause` is the abstract syntax of the clauses of one data description entry; `render` spells a clause as words, with
every optional word (`IS`, `TIMES`, `USAGE`, `ON`, `WHEN`, `SIGN`) present or absent and every synonym
(`PIC`/`PICTURE`, `JUST`/`JUSTIFIED`, `SYNC`/`SYNCHRONIZED`) chosen by flags that `sem`, the clause's meaning, ignores.

* `parse_entry` — for EVERY head (a data name, `FILLER`, or nothing) and EVERY list of well-formed clauses, in any order
  and any spelling, the word-level parser returns exactly the head's name and the clauses' meanings.
* `spelling_irrelevant` — two clause lists that differ only in optional words / synonyms parse alike.
* `order_irrelevant` — any permutation of clauses of pairwise different kinds parses alike.
* `name_kept` — no clause changes the data name.
* `estruct_entry`, `estruct_agrees_with_parser` — the second reader of the entry text (`estruct.Representation.parse`, which
  sizes and decodes the item) takes, from EVERY such entry, the same USAGE (DISPLAY when absent) and PICTURE as the schema
  generator recorded: the clause grammar is implemented twice and the two agree on all canonical entries.
* `D42_zeros`, `D27_indexed_by`, `D33_indexed_swallows`, `D43_sign_without_separate`, `D44_key_without_indexed` —
  machine-checked witnesses of the recorded findings on the same parser.
-/
namespace Stingray.Clause
set_option linter.unusedSimpArgs false

inductive Clause
  | redefines (n : String)
  | blank (when_ : Bool)                                   -- BLANK [WHEN] ZERO
  | external
  | global
  | justified (long right : Bool)                          -- JUST | JUSTIFIED [RIGHT]
  | occurs (n : String) (times : Bool)                     -- OCCURS n [TIMES]
  | odo (lo : Option String) (hi : String) (times on : Bool) (ctr : String)
  | pic (long is : Bool) (p : Tok)                         -- PIC | PICTURE [IS] p
  | signSep (sign is leading character : Bool)             -- [SIGN] [IS] LEADING|TRAILING SEPARATE [CHARACTER]
  | sync (long : Bool) (side : Option Bool)                -- SYNC | SYNCHRONIZED [LEFT | RIGHT]
  | usage (kw is : Bool) (u : Usage)                       -- [USAGE] [IS] u
  | value (is : Bool) (v : Tok)                            -- VALUE [IS] v

def opt (b : Bool) (k : Kw) : List Tok := if b then [.kw k] else []

def render : Clause → List Tok
  | .redefines n => [.kw .redefines, .name n]
  | .blank w => .kw .blank :: (opt w .when_ ++ [.kw .zero])
  | .external => [.kw .external]
  | .global => [.kw .global]
  | .justified long right => .kw (if long then .justified else .just) :: opt right .right
  | .occurs n times => .kw .occurs :: .num n :: opt times .times
  | .odo lo hi times on ctr =>
    .kw .occurs :: ((match lo with | some l => [.num l, .kw .to] | none => []) ++ .num hi :: (opt times .times ++
      .kw .depending :: (opt on .on ++ [.name ctr])))
  | .pic long is p => .kw (if long then .picture else .pic) :: (opt is .is ++ [p])
  | .signSep sign is leading character =>
    opt sign .sign ++ opt is .is ++ .kw (if leading then .leading else .trailing) :: .kw .separate :: opt character .character
  | .sync long side =>
    .kw (if long then .synchronized else .sync) :: (match side with | some true => [.kw .left] | some false => [.kw .right] | none => [])
  | .usage kw is u => opt kw .usage ++ opt is .is ++ [.kw (.u u)]
  | .value is v => .kw .value :: (opt is .is ++ [v])

/-- what a clause means for the dictionary; independent of every spelling flag -/
def sem : Clause → CDict → CDict
  | .redefines n, d => { d with redefines := some n }
  | .blank _, d => { d with blank := some "ZERO" }
  | .external, d => d
  | .global, d => d
  | .justified _ right, d => if right then { d with justified := some "RIGHT" } else d
  | .occurs n _, d => { d with occurs := some n }
  | .odo lo hi _ _ ctr, d => match lo with
    | some l => { d with odoMin := some l, odoMax := some hi, dependingOn := some ctr }
    | none => { d with odoMax := some hi, dependingOn := some ctr }
  | .pic _ _ p, d => { d with picture := some p.text }
  | .signSep _ _ leading character, d =>
    { d with sign := some (if leading then "LEADING" else "TRAILING"),
             signSep := some (if character then "SEPARATE CHARACTER" else "SEPARATE") }
  | .sync _ side, d => match side with
    | some true => { d with synch := some "LEFT" }
    | some false => { d with synch := some "RIGHT" }
    | none => d
  | .usage _ _ u, d => { d with usage := some u.text }
  | .value _ v, d => { d with value := some v.text }

/-- well-formedness: the argument of PICTURE / VALUE is not the word IS (which would be read as the optional word) -/
def Clause.WF : Clause → Prop
  | .pic _ _ p => p ≠ .kw .is
  | .value _ v => v ≠ .kw .is
  | .usage kw is _ => True ∧ (kw = false → is = false → True)
  | _ => True

/-- the words a clause can begin with -/
def startKw : Kw → Bool
  | .redefines | .blank | .external | .global | .justified | .just | .occurs | .pic | .picture | .sign | .is
  | .leading | .trailing | .synchronized | .sync | .usage | .value | .u _ => true
  | _ => false

/-- what may follow a clause: nothing, or the first word of another clause -/
def Starts : List Tok → Prop
  | [] => True
  | .kw k :: _ => startKw k = true
  | _ => False

theorem render_starts (c : Clause) (rest : List Tok) : Starts (render c ++ rest) := by
  cases c <;> simp [render, opt, Starts, startKw]
  case justified long right => cases long <;> simp [startKw]
  case pic long is p => cases long <;> simp [startKw]
  case signSep sign is leading character =>
    cases sign <;> cases is <;> cases leading <;> simp [Starts, startKw]
  case sync long side => cases long <;> simp [startKw]
  case usage kw is u => cases kw <;> cases is <;> simp [Starts, startKw]

theorem keyOK_of_starts (fuel : Nat) (rest : List Tok) (h : Starts rest) : keyOK fuel rest = false := by
  cases fuel with
  | zero => simp [keyOK]
  | succ f =>
    cases rest with
    | nil => simp [keyOK]
    | cons t r =>
      cases t with
      | kw k => cases k <;> simp_all [keyOK, isAscDesc, Starts, startKw]
      | _ => simp [Starts] at h

theorem afterKey_of_starts (rest : List Tok) (h : Starts rest) : afterKey rest = some rest := by
  simp [afterKey, keyOK_of_starts _ _ h]

theorem takeArg_ne (set : String → CDict → CDict) (p : Tok) (hp : p ≠ .kw .is) (rest : List Tok) :
    takeArg set (p :: rest) = .hit (set p.text) rest := by
  unfold takeArg
  split
  · next t rest' heq => simp at heq; exact absurd heq.1 hp
  · next t rest' _ heq => simp at heq; obtain ⟨rfl, rfl⟩ := heq; rfl
  · next heq => simp at heq

/-- `r` is a match that leaves `rest` and acts on the dictionary as `g` does -/
def R.Is (r : R) (g : CDict → CDict) (rest : List Tok) : Prop :=
  match r with
  | .hit f rest' => rest' = rest ∧ ∀ d, f d = g d
  | _ => False

/-- the heart of the matter: one step of the parser on a rendered clause consumes exactly that clause and applies its
meaning, whatever follows it (another clause, or nothing) -/
theorem step_render (c : Clause) (hc : c.WF) (rest : List Tok) (hr : Starts rest) :
    (step (render c ++ rest)).Is (sem c) rest := by
  have hk := afterKey_of_starts rest hr
  cases c with
  | redefines n => simp [step, firstOf, alternatives, render, altRedefines, R.Is, sem, Tok.asName]
  | blank w => cases w <;> simp [step, firstOf, alternatives, render, opt, altRedefines, altBlank, blankTail, R.Is, sem]
  | external => simp [step, firstOf, alternatives, render, altRedefines, altBlank, altExternalGlobal, R.Is, sem]
  | global => simp [step, firstOf, alternatives, render, altRedefines, altBlank, altExternalGlobal, R.Is, sem]
  | justified long right =>
    cases rest with
    | nil =>
      cases long <;> cases right <;>
        simp [step, firstOf, alternatives, render, opt, altRedefines, altBlank, altExternalGlobal, altJustified, justTail, R.Is, sem]
    | cons t r =>
      cases t with
      | kw k =>
        cases long <;> cases right <;> cases k <;> simp [Starts, startKw] at hr <;>
          simp [step, firstOf, alternatives, render, opt, altRedefines, altBlank, altExternalGlobal, altJustified, justTail, R.Is, sem]
      | _ => simp [Starts] at hr
  | occurs n times =>
    cases rest with
    | nil =>
      cases times <;>
        simp [step, firstOf, alternatives, render, opt, altRedefines, altBlank, altExternalGlobal, altJustified,
              altOccursOdo, altOccursFixed, odoTail, skipTimes, afterKey, keyOK, R.Is, sem]
    | cons t r =>
      cases t with
      | kw k =>
        cases times <;> cases k <;> simp [Starts, startKw] at hr <;>
          simp [step, firstOf, alternatives, render, opt, altRedefines, altBlank, altExternalGlobal, altJustified,
                altOccursOdo, altOccursFixed, odoTail, skipTimes, hk, R.Is, sem]
      | _ => simp [Starts] at hr
  | odo lo hi times on ctr =>
    cases lo <;> cases times <;> cases on <;>
      simp [step, firstOf, alternatives, render, opt, altRedefines, altBlank, altExternalGlobal, altJustified,
            altOccursOdo, odoTail, skipTimes, hk, R.Is, sem, Tok.asName]
  | pic long is p =>
    have hp : p ≠ .kw .is := hc
    cases long <;> cases is <;>
      simp [step, firstOf, alternatives, render, opt, altRedefines, altBlank, altExternalGlobal, altJustified,
            altOccursOdo, altOccursFixed, altPicture, takeArg_ne _ _ hp, R.Is, sem] <;>
      simp [takeArg, R.Is]
  | signSep sign is leading character =>
    cases rest with
    | nil =>
      cases sign <;> cases is <;> cases leading <;> cases character <;>
        simp [step, firstOf, alternatives, render, opt, altRedefines, altBlank, altExternalGlobal, altJustified,
              altOccursOdo, altOccursFixed, altPicture, altSign, signCore, sepTail, R.Is, sem]
    | cons t r =>
      cases t with
      | kw k =>
        cases sign <;> cases is <;> cases leading <;> cases character <;> cases k <;> simp [Starts, startKw] at hr <;>
          simp [step, firstOf, alternatives, render, opt, altRedefines, altBlank, altExternalGlobal, altJustified,
                altOccursOdo, altOccursFixed, altPicture, altSign, signCore, sepTail, R.Is, sem]
      | _ => simp [Starts] at hr
  | sync long side =>
    cases rest with
    | nil =>
      cases long <;> rcases side with _ | _ | _ <;>
        simp [step, firstOf, alternatives, render, altRedefines, altBlank, altExternalGlobal, altJustified,
              altOccursOdo, altOccursFixed, altPicture, altSign, signCore, altSync, syncTail, R.Is, sem]
    | cons t r =>
      cases t with
      | kw k =>
        cases long <;> rcases side with _ | _ | _ <;> cases k <;> simp [Starts, startKw] at hr <;>
          simp [step, firstOf, alternatives, render, altRedefines, altBlank, altExternalGlobal, altJustified,
                altOccursOdo, altOccursFixed, altPicture, altSign, signCore, altSync, syncTail, R.Is, sem]
      | _ => simp [Starts] at hr
  | usage kw is u =>
    cases kw <;> cases is <;>
      simp [step, firstOf, alternatives, render, opt, altRedefines, altBlank, altExternalGlobal, altJustified,
            altOccursOdo, altOccursFixed, altPicture, altSign, signCore, altSync, altUsage, R.Is, sem]
  | value is v =>
    have hv : v ≠ .kw .is := hc
    cases is <;>
      simp [step, firstOf, alternatives, render, opt, altRedefines, altBlank, altExternalGlobal, altJustified,
            altOccursOdo, altOccursFixed, altPicture, altSign, signCore, altSync, altUsage, altValue, takeArg_ne _ _ hv, R.Is, sem] <;>
      simp [takeArg, R.Is]

theorem render_ne_nil (c : Clause) : render c ≠ [] := by
  cases c <;> simp [render, opt]

theorem parseGo_of_Is (fuel : Nat) (ts rest : List Tok) (g : CDict → CDict) (d : CDict) (hne : ts ≠ [])
    (h : (step ts).Is g rest) : parseGo (fuel + 1) ts d = parseGo fuel rest (g d) := by
  cases ts with
  | nil => exact absurd rfl hne
  | cons t r =>
    conv => lhs; unfold parseGo
    cases hs : step (t :: r) with
    | hit f rest' => rw [hs] at h; obtain ⟨rfl, hf⟩ := h; simp [hf]
    | miss => rw [hs] at h; exact h.elim
    | unmodelled => rw [hs] at h; exact h.elim

theorem flatMap_starts (cs : List Clause) : Starts (cs.flatMap render) := by
  cases cs with
  | nil => simp [Starts]
  | cons c cs => simpa using render_starts c (cs.flatMap render)

theorem parseGo_clauses (cs : List Clause) (hw : ∀ c ∈ cs, c.WF) (d : CDict) (fuel : Nat) (hf : cs.length ≤ fuel) :
    parseGo fuel (cs.flatMap render) d = some (cs.foldl (fun d c => sem c d) d) := by
  induction cs generalizing d fuel with
  | nil => cases fuel <;> simp [parseGo]
  | cons c cs ih =>
    cases fuel with
    | zero => simp at hf
    | succ f =>
      have hstep := step_render c (hw c (by simp)) (cs.flatMap render) (flatMap_starts cs)
      have hne : render c ++ cs.flatMap render ≠ [] := by simp [render_ne_nil c]
      rw [List.flatMap_cons, parseGo_of_Is f _ _ _ d hne hstep]
      rw [ih (fun c hc => hw c (by simp [hc])) (sem c d) f (by simpa using hf)]
      simp

/-- how an entry begins: a data name, the word FILLER, or nothing at all -/
inductive Head
  | named (n : String)
  | filler
  | unnamed

def Head.toks : Head → List Tok
  | .named n => [.name n]
  | .filler => [.kw .filler]
  | .unnamed => []

def Head.dict : Head → CDict
  | .named n => { name := some n }
  | .filler => { filler := some "FILLER" }
  | .unnamed => {}

def entry (h : Head) (cs : List Clause) : List Tok := h.toks ++ cs.flatMap render

def meaning (h : Head) (cs : List Clause) : CDict := cs.foldl (fun d c => sem c d) h.dict

theorem render_length_pos (c : Clause) : 1 ≤ (render c).length := by
  have := render_ne_nil c
  cases h : render c with
  | nil => exact absurd h this
  | cons _ _ => simp

theorem length_le_flatMap (cs : List Clause) : cs.length ≤ (cs.flatMap render).length := by
  induction cs with
  | nil => simp
  | cons c cs ih =>
    have := render_length_pos c
    rw [List.flatMap_cons, List.length_append, List.length_cons]; omega

/-- **Every entry, every order, every spelling**: the parser returns the head's name and exactly the clauses' meanings. -/
theorem parse_entry (h : Head) (cs : List Clause) (hw : ∀ c ∈ cs, c.WF) :
    parse (entry h cs) = some (meaning h cs) := by
  have hlen := length_le_flatMap cs
  cases h with
  | unnamed =>
    simp only [parse, entry, Head.toks, List.nil_append, meaning, Head.dict]
    exact parseGo_clauses cs hw {} _ (by omega)
  | named n =>
    simp only [parse, entry, Head.toks, meaning, Head.dict]
    have : (step ([Tok.name n] ++ cs.flatMap render)).Is (fun d => { d with name := some n }) (cs.flatMap render) := by
      simp [step, firstOf, alternatives, altRedefines, altBlank, altExternalGlobal, altJustified, altOccursOdo, altOccursFixed,
            altPicture, altSign, signCore, altSync, altUsage, altValue, altFiller, altName, R.Is, Tok.asName]
    rw [show 2 * ([Tok.name n] ++ cs.flatMap render).length + 1 = (2 * (cs.flatMap render).length + 2) + 1 by simp; omega]
    rw [parseGo_of_Is _ _ _ _ _ (by simp) this]
    exact parseGo_clauses cs hw _ _ (by omega)
  | filler =>
    simp only [parse, entry, Head.toks, meaning, Head.dict]
    have : (step ([Tok.kw .filler] ++ cs.flatMap render)).Is (fun d => { d with filler := some "FILLER" }) (cs.flatMap render) := by
      simp [step, firstOf, alternatives, altRedefines, altBlank, altExternalGlobal, altJustified, altOccursOdo, altOccursFixed,
            altPicture, altSign, signCore, altSync, altUsage, altValue, altFiller, R.Is]
    rw [show 2 * ([Tok.kw Kw.filler] ++ cs.flatMap render).length + 1 = (2 * (cs.flatMap render).length + 2) + 1 by simp; omega]
    rw [parseGo_of_Is _ _ _ _ _ (by simp) this]
    exact parseGo_clauses cs hw _ _ (by omega)

/-! ## corollaries: spelling, order, name -/

/-- the clause with every optional word left out and the short synonym chosen -/
def Clause.plain : Clause → Clause
  | .blank _ => .blank false
  | .justified _ r => .justified false r
  | .occurs n _ => .occurs n false
  | .odo lo hi _ _ c => .odo lo hi false false c
  | .pic _ _ p => .pic false false p
  | .signSep _ _ l c => .signSep false false l c
  | .sync _ s => .sync false s
  | .usage _ _ u => .usage false false u
  | .value _ v => .value false v
  | c => c

theorem sem_plain (c : Clause) : sem c.plain = sem c := by
  cases c <;> rfl

theorem wf_plain (c : Clause) (h : c.WF) : c.plain.WF := by
  cases c <;> simp_all [Clause.plain, Clause.WF]

theorem meaning_plain (h : Head) (cs : List Clause) : meaning h (cs.map Clause.plain) = meaning h cs := by
  unfold meaning
  generalize h.dict = d
  induction cs generalizing d with
  | nil => rfl
  | cons c cs ih => simp [List.foldl_cons, sem_plain, ih]

/-- optional words (IS, TIMES, USAGE, ON, WHEN, SIGN) and synonyms (PIC/PICTURE, JUST/JUSTIFIED, SYNC/SYNCHRONIZED)
change nothing: two entries whose clauses agree once those are stripped parse alike -/
theorem spelling_irrelevant (h : Head) (cs cs' : List Clause) (hw : ∀ c ∈ cs, c.WF) (hw' : ∀ c ∈ cs', c.WF)
    (same : cs.map Clause.plain = cs'.map Clause.plain) :
    parse (entry h cs) = parse (entry h cs') := by
  rw [parse_entry h cs hw, parse_entry h cs' hw', ← meaning_plain h cs, ← meaning_plain h cs', same]

/-- the dictionary keys a clause writes -/
inductive Kind
  | redefines | blank | none_ | justified | occurs | odo | pic | sign | sync | usage | value
  deriving DecidableEq

def Clause.kind : Clause → Kind
  | .redefines _ => .redefines | .blank _ => .blank | .external => .none_ | .global => .none_
  | .justified _ _ => .justified | .occurs _ _ => .occurs | .odo _ _ _ _ _ => .odo | .pic _ _ _ => .pic
  | .signSep _ _ _ _ => .sign | .sync _ _ => .sync | .usage _ _ _ => .usage | .value _ _ => .value

theorem sem_comm (a b : Clause) (h : a.kind ≠ b.kind ∨ a.kind = .none_) (d : CDict) :
    sem b (sem a d) = sem a (sem b d) := by
  cases a <;> cases b <;> simp_all [Clause.kind, sem] <;>
    (repeat' split) <;> simp_all

theorem pairwise_mem {α : Type} {R : α → α → Prop} {l : List α} (h : l.Pairwise R) {x y : α} (hx : x ∈ l) (hy : y ∈ l)
    (hne : x ≠ y) : R x y ∨ R y x := by
  induction h with
  | nil => cases hx
  | @cons a l hhead _ ih =>
    rcases List.mem_cons.mp hx with rfl | hx' <;> rcases List.mem_cons.mp hy with rfl | hy'
    · exact absurd rfl hne
    · exact Or.inl (hhead _ hy')
    · exact Or.inr (hhead _ hx')
    · exact ih hx' hy'

/-- clause order changes nothing: any permutation of clauses of pairwise different kinds (EXTERNAL / GLOBAL may repeat)
parses alike -/
theorem order_irrelevant (h : Head) (cs cs' : List Clause) (hw : ∀ c ∈ cs, c.WF) (perm : cs.Perm cs')
    (distinct : cs.Pairwise (fun a b => a.kind ≠ b.kind ∨ a.kind = .none_ ∨ b.kind = .none_)) :
    parse (entry h cs) = parse (entry h cs') := by
  rw [parse_entry h cs hw, parse_entry h cs' (fun c hc => hw c (perm.mem_iff.mpr hc))]
  unfold meaning
  congr 1
  apply perm.foldl_eq'
  intro x hx y hy z
  by_cases hxy : x = y
  · subst hxy; rfl
  · rcases pairwise_mem distinct hx hy hxy with h1 | h1
    · rcases h1 with h1 | h1 | h1
      · exact sem_comm x y (Or.inl h1) z
      · exact sem_comm x y (Or.inr h1) z
      · exact (sem_comm y x (Or.inr h1) z).symm
    · rcases h1 with h1 | h1 | h1
      · exact sem_comm x y (Or.inl (Ne.symm h1)) z
      · exact (sem_comm y x (Or.inr h1) z).symm
      · exact sem_comm x y (Or.inr h1) z

/-- no clause touches the data name -/
theorem sem_name (c : Clause) (d : CDict) : (sem c d).name = d.name ∧ (sem c d).filler = d.filler := by
  cases c <;> simp [sem] <;> (repeat' split) <;> simp

theorem name_kept (h : Head) (cs : List Clause) (hw : ∀ c ∈ cs, c.WF) :
    ∃ d, parse (entry h cs) = some d ∧ d.name = h.dict.name ∧ d.filler = h.dict.filler := by
  refine ⟨_, parse_entry h cs hw, ?_⟩
  unfold meaning
  generalize h.dict = d
  induction cs generalizing d with
  | nil => simp
  | cons c cs ih =>
    have := sem_name c d
    have ih' := ih (fun c hc => hw c (by simp [hc])) (sem c d)
    simp only [List.foldl_cons]
    exact ⟨ih'.1.trans this.1, ih'.2.trans this.2⟩

/-! ## the second reader (`estruct`) sees the same USAGE and PICTURE -/

/-- what a clause means to `estruct`: only USAGE and PICTURE matter -/
def esem : Clause → ERep → ERep
  | .pic _ _ p, r => { r with picture := some p.text }
  | .usage _ _ u, r => { r with usage := u.text }
  | _, r => r

theorem estructGo_step (f : Nat) (t : Tok) (ts rest : List Tok) (g : ERep → ERep) (r : ERep)
    (h : estructStep (t :: ts) = some (g, rest)) : estructGo (f + 1) (t :: ts) r = estructGo f rest (g r) := by
  simp [estructGo, h]

theorem estructGo_mono (f : Nat) (ts : List Tok) (r x : ERep) (h : estructGo f ts r = some x) :
    estructGo (f + 1) ts r = some x := by
  induction f generalizing ts r with
  | zero => cases ts with
    | nil => simpa [estructGo] using h
    | cons t ts => simp [estructGo] at h
  | succ f ih =>
    cases ts with
    | nil => simpa [estructGo] using h
    | cons t ts =>
      simp only [estructGo] at h ⊢
      cases hs : estructStep (t :: ts) with
      | none => simp [hs] at h
      | some p => simp only [hs] at h ⊢; exact ih _ _ h

theorem estructGo_mono_le (f f' : Nat) (hle : f ≤ f') (ts : List Tok) (r x : ERep) (h : estructGo f ts r = some x) :
    estructGo f' ts r = some x := by
  induction hle with
  | refl => exact h
  | step _ ih => exact estructGo_mono _ _ _ _ ih

/-- one rendered clause costs at most as many steps as it has words and acts as `esem` -/
theorem estruct_render (c : Clause) (hc : c.WF) :
    ∃ k, k ≤ (render c).length ∧ ∀ (f : Nat) (rest : List Tok) (r : ERep),
      estructGo (f + k) (render c ++ rest) r = estructGo f rest (esem c r) := by
  cases c with
  | redefines n => exact ⟨2, by simp [render], fun f rest r => by simp [render, estructGo, estructStep, esem]⟩
  | blank w =>
    cases w
    · exact ⟨2, by simp [render, opt], fun f rest r => by simp [render, opt, estructGo, estructStep, esem]⟩
    · exact ⟨3, by simp [render, opt], fun f rest r => by simp [render, opt, estructGo, estructStep, esem]⟩
  | external => exact ⟨1, by simp [render], fun f rest r => by simp [render, estructGo, estructStep, esem]⟩
  | global => exact ⟨1, by simp [render], fun f rest r => by simp [render, estructGo, estructStep, esem]⟩
  | justified long right =>
    exact ⟨(render (.justified long right)).length, Nat.le_refl _, fun f rest r => by
      cases long <;> cases right <;> simp [render, opt, estructGo, estructStep, esem]⟩
  | occurs n times =>
    exact ⟨(render (.occurs n times)).length, Nat.le_refl _, fun f rest r => by
      cases times <;> simp [render, opt, estructGo, estructStep, esem]⟩
  | odo lo hi times on ctr =>
    exact ⟨(render (.odo lo hi times on ctr)).length, Nat.le_refl _, fun f rest r => by
      cases lo <;> cases times <;> cases on <;> simp [render, opt, estructGo, estructStep, esem]⟩
  | pic long is p =>
    have hp : p ≠ .kw .is := hc
    refine ⟨1, by cases long <;> cases is <;> simp [render, opt], fun f rest r => ?_⟩
    cases long <;> cases is <;> cases p <;> simp_all [render, opt, estructGo, estructStep, esem]
    all_goals (rename_i k; cases k <;> simp_all [estructStep])
  | signSep sign is leading character =>
    exact ⟨(render (.signSep sign is leading character)).length, Nat.le_refl _, fun f rest r => by
      cases sign <;> cases is <;> cases leading <;> cases character <;> simp [render, opt, estructGo, estructStep, esem]⟩
  | sync long side =>
    exact ⟨(render (.sync long side)).length, Nat.le_refl _, fun f rest r => by
      cases long <;> rcases side with _ | _ | _ <;> simp [render, estructGo, estructStep, esem]⟩
  | usage kw is u =>
    refine ⟨1, by cases kw <;> cases is <;> simp [render, opt], fun f rest r => ?_⟩
    cases kw <;> cases is <;> simp [render, opt, estructGo, estructStep, esem]
  | value is v =>
    have hv : v ≠ .kw .is := hc
    refine ⟨1, by cases is <;> simp [render, opt], fun f rest r => ?_⟩
    cases is <;> cases v <;> simp_all [render, opt, estructGo, estructStep, esem]
    all_goals (rename_i k; cases k <;> simp_all [estructStep])

theorem estruct_clauses (cs : List Clause) (hw : ∀ c ∈ cs, c.WF) :
    ∃ K, K ≤ (cs.flatMap render).length ∧ ∀ (f : Nat) (r : ERep),
      estructGo (f + K) (cs.flatMap render) r = some (cs.foldl (fun r c => esem c r) r) := by
  induction cs with
  | nil => exact ⟨0, by simp, fun f r => by cases f <;> simp [estructGo]⟩
  | cons c cs ih =>
    obtain ⟨k, hk, hstep⟩ := estruct_render c (hw c (by simp))
    obtain ⟨K, hK, hrest⟩ := ih (fun c hc => hw c (by simp [hc]))
    refine ⟨K + k, by rw [List.flatMap_cons, List.length_append]; omega, fun f r => ?_⟩
    rw [List.flatMap_cons, ← Nat.add_assoc, hstep (f + K) _ r, hrest f (esem c r)]
    simp

/-- `estruct` reads, from the text of ANY entry, the last USAGE (DISPLAY when there is none) and the last PICTURE -/
theorem estruct_entry (h : Head) (cs : List Clause) (hw : ∀ c ∈ cs, c.WF) :
    estructParse (entry h cs) = some (cs.foldl (fun r c => esem c r) {}) := by
  obtain ⟨K, hK, hgo⟩ := estruct_clauses cs hw
  cases h with
  | unnamed =>
    simp only [estructParse, entry, Head.toks, List.nil_append]
    exact estructGo_mono_le _ _ hK _ _ _ (by simpa using hgo 0 {})
  | named n =>
    simp only [estructParse, entry, Head.toks]
    have h1 : estructGo (K + 1) ([Tok.name n] ++ cs.flatMap render) {} = some (cs.foldl (fun r c => esem c r) {}) := by
      have := hgo 0 {}
      simp only [Nat.zero_add] at this
      simpa [estructGo, estructStep] using this
    exact estructGo_mono_le _ _ (by rw [List.length_append, List.length_singleton]; omega) _ _ _ h1
  | filler =>
    simp only [estructParse, entry, Head.toks]
    have h1 : estructGo (K + 1) ([Tok.kw .filler] ++ cs.flatMap render) {} = some (cs.foldl (fun r c => esem c r) {}) := by
      have := hgo 0 {}
      simp only [Nat.zero_add] at this
      simpa [estructGo, estructStep] using this
    exact estructGo_mono_le _ _ (by rw [List.length_append, List.length_singleton]; omega) _ _ _ h1

/-- the two readers of an entry's text agree: the USAGE and PICTURE `estruct` sizes and decodes by are the ones the schema
generator recorded (`DISPLAY` standing for no USAGE clause) -- for every head, every clause list, every order and spelling -/
theorem estruct_agrees_with_parser (h : Head) (cs : List Clause) (hw : ∀ c ∈ cs, c.WF) :
    ∃ d r, parse (entry h cs) = some d ∧ estructParse (entry h cs) = some r ∧
      r.picture = d.picture ∧ r.usage = d.usage.getD "DISPLAY" := by
  refine ⟨_, _, parse_entry h cs hw, estruct_entry h cs hw, ?_⟩
  unfold meaning
  have h0 : ({} : ERep).picture = h.dict.picture ∧ ({} : ERep).usage = h.dict.usage.getD "DISPLAY" := by
    cases h <;> simp [Head.dict]
  generalize h.dict = d at h0
  generalize ({} : ERep) = r at h0
  induction cs generalizing d r with
  | nil => simpa using h0
  | cons c cs ih =>
    simp only [List.foldl_cons]
    apply ih (fun c hc => hw c (by simp [hc]))
    cases c <;> simp [sem, esem, h0.1, h0.2] <;> (repeat' split) <;> simp_all

/-! ## non-vacuity and the recorded findings, on the same parser -/

/-- `05 AMOUNT PICTURE IS S9(5)V99 USAGE IS COMP-3 OCCURS 3 TIMES VALUE ZERO.` in two orders and spellings -/
example :
    parse (entry (.named "AMOUNT") [.pic true true (.other "S9(5)V99"), .usage true true .comp3, .occurs "3" true, .value false (.name "ZERO-X")])
    = parse (entry (.named "AMOUNT") [.occurs "3" false, .value true (.name "ZERO-X"), .usage false false .comp3, .pic false false (.other "S9(5)V99")]) := by
  decide

example : parse (entry (.named "AMOUNT") [.pic true true (.other "S9(5)V99"), .usage true true .comp3]) =
    some { name := some "AMOUNT", picture := some "S9(5)V99", usage := some "COMP-3" } := by decide

/-- the second reader on `05 AMOUNT USAGE IS COMP-3 VALUE 'COMP' PICTURE S9(5)V99 OCCURS 3.` -/
example : estructParse (entry (.named "AMOUNT") [.usage true true .comp3, .value false (.other "'COMP'"), .pic true false (.other "S9(5)V99"),
    .occurs "3" false]) = some { usage := "COMP-3", picture := some "S9(5)V99" } := by decide

/-- D42 (pinned by the project's tests): `BLANK WHEN ZEROS` leaves `S` behind, which becomes the data name -/
theorem D42_zeros :
    (parse [.name "A", .kw .pic, .num "9", .kw .blank, .kw .when_, .kw .zeros]).map (·.name) = some (some "S") := by decide

/-- D27: `OCCURS 3 TIMES INDEXED BY IX` (one separator before INDEXED, no key phrase): `IX` becomes the data name -/
theorem D27_indexed_by :
    (parse [.name "A", .kw .occurs, .num "3", .kw .times, .kw .indexed, .kw .by_, .name "IX", .kw .pic, .name "X"]).map (·.name)
      = some (some "IX") := by decide

/-- D33: after a key phrase, `INDEXED BY I` takes every following word, so a PICTURE written after it is lost -/
theorem D33_indexed_swallows :
    (parse [.name "A", .kw .occurs, .num "3", .kw .ascending, .kw .key, .kw .is, .name "K", .kw .indexed, .kw .by_, .name "I",
            .kw .pic, .name "X"]).map (·.picture) = some none := by decide

/-- D43: `SIGN IS TRAILING` without `SEPARATE` is not a clause for the pattern; `TRAILING` becomes the data name -/
theorem D43_sign_without_separate :
    (parse [.name "A", .kw .pic, .name "S9", .kw .sign, .kw .is, .kw .trailing]).map (·.name) = some (some "TRAILING") := by decide

/-- D44: a key phrase without `INDEXED BY` is not consumed; its last word becomes the data name -/
theorem D44_key_without_indexed :
    (parse [.name "A", .kw .occurs, .num "5", .kw .times, .kw .ascending, .kw .key, .kw .is, .name "K", .kw .pic, .name "X"]).map (·.name)
      = some (some "K") := by decide

end Stingray.Clause
