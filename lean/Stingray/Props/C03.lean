import Stingray.Props.C09
/-!
# C03 — format transparency: the same table reads the same from every file format

What this repository contributes to reading a file is the facade above the unpacker.  The theorem:
whatever two unpackers deliver, if they deliver the same sheets of the same cells then every
observation a client can make through the uniform calls is the same (`format_transparent`), and
that observation is exactly the table: the sheet names, the rows after the heading in order, and
under every column name the cell of that column (`observe_is_the_table`).

**Partial.** That each third-party reader (csv, json, openpyxl, pyexcel-ods3, numbers-parser, xlrd)
delivers the cells that were written is the hypothesis; it is observed on real files by
`harness/c03.py`, not proved.
-/
namespace Stingray.Facade

/-- **C03 (facade).** The observation is a function of what the unpacker delivers, and of nothing
else: no format-specific state reaches the client. -/
theorem format_transparent (d₁ d₂ : Delivered) (h : d₁ = d₂) : observe d₁ = observe d₂ := by rw [h]

/-- **C03 (the observation is the table).** For a sheet whose first row holds distinct column
names: the sheet keeps its name, every later row is there once and in order, and under every
column name the client finds the cell of that column (absent if the row is short). -/
theorem observe_is_the_table (name : String) (hdr : RowData) (body : List RowData) (hnd : hdr.Nodup) :
    observeSheet (name, hdr :: body) =
      ⟨name, hdr, body.map fun r => (List.range hdr.length).map fun i => r[i]?⟩ := by
  have hk : (enumFrom 0 hdr).map (·.1) = hdr := by
    suffices ∀ n, (enumFrom n hdr).map (·.1) = hdr from this 0
    induction hdr with
    | nil => intro n; rfl
    | cons h hs ih =>
      intro n
      simp only [List.nodup_cons] at hnd
      simp [enumFrom, ih hnd.2]
  simp only [observeSheet, rowIter, headingSchema_nodup hdr hnd, hk]
  congr 1
  apply List.map_congr_left
  intro r _
  rw [rowValues_enumFrom]; simp

theorem observe_sheets (d : Delivered) : (observe d).map (·.name) = d.map (·.1) := by
  induction d with
  | nil => rfl
  | cons s ss ih =>
    obtain ⟨n, rows⟩ := s
    simp only [observe, List.map_cons] at ih ⊢
    rw [ih]
    congr 1
    cases rows with
    | nil => rfl
    | cons h b => rfl

/-- a single-sheet format that delivers its one sheet under the name "" is observed as one sheet named "" -/
example (rows : List RowData) : (observe [("", rows)]).map (·.name) = [""] := observe_sheets _

end Stingray.Facade
