import Stingray.Model.Decode
/-!
# C02 — mainframe encodings decode to exactly the value that was stored

Specification side: the *encoders* — what an IBM mainframe stores for a value:
packed decimal (`encPacked`), zoned decimal (`encZoned`), big-endian two's complement (`encBinary`).
Theorems: for every digit list / in-range integer / sign nibble, the decoder model returns exactly
the stored value, with the picture's scale, as an exact decimal (or an `Int` for binary).
-/
namespace Stingray.Decode
open Stingray.Picture

/-! ## encoders (the specification) -/

/-- digits then the sign nibble, two per byte; an even digit count gets a leading zero nibble -/
def packPairs : List Nat → List Nat
  | hi :: lo :: rest => (hi * 16 + lo) :: packPairs rest
  | _ => []

def encPacked (ds : List Nat) (sn : Nat) : List Nat :=
  packPairs ((if ds.length % 2 = 0 then [0] else []) ++ ds ++ [sn])

/-- one byte per digit: zone nibble `zs[i]` (normally 0xF) over the digit; the zone of the last
byte is the sign nibble -/
def encZoned : List (Nat × Nat) → Nat → List Nat     -- (zone, digit) pairs, then the sign nibble
  | [], _ => []
  | [(_, d)], sn => [sn * 16 + d]
  | (z, d) :: rest, sn => (z * 16 + d) :: encZoned rest sn

def toBE : Nat → Nat → List Nat
  | 0, _ => []
  | w + 1, n => toBE w (n / 256) ++ [n % 256]

def encBinary (w : Nat) (v : Int) : List Nat := toBE w (v % (256 ^ w : Nat)).toNat

/-! ## packed -/

theorem nibbles_pack (ns : List Nat) (h : ∀ n ∈ ns, n < 16) (he : ns.length % 2 = 0) :
    nibbles (packPairs ns) = ns := by
  induction ns using packPairs.induct with
  | case1 hi lo rest ih =>
    have h1 := h hi (by simp); have h2 := h lo (by simp)
    simp only [packPairs, nibbles]
    rw [ih (fun n hn => h n (by simp [hn])) (by simp at he; omega)]
    congr 1
    · omega
    · congr 1; omega
  | case2 t hne =>
    match t, hne with
    | [], _ => simp [packPairs, nibbles]
    | [x], _ => simp at he
    | a :: b :: r, hne => exact absurd rfl (hne a b r)

theorem ofDigits_cons_zero (ds : List Nat) : ofDigits (0 :: ds) = ofDigits ds := by
  simp [ofDigits]

theorem unpackPacked_of_nibbles (declared frac : Nat) (buf digits : List Nat) (sn : Nat)
    (h : nibbles buf = digits ++ [sn]) :
    unpackPacked declared frac buf =
      if digits.any (· > 9) then .error .valueError else
      if digits.length = declared + 1 ∧ digits.head? ≠ some 0 then .error .valueError else
      .ok (.dec (isNeg sn) (ofDigits digits) (-(frac : Int))) := by
  unfold unpackPacked
  simp only [h, List.getLast?_append, List.getLast?_singleton, Option.some_or, List.dropLast_concat]

/-- **C02 (packed).** Every value the mainframe stores — any number of digits, any sign nibble
(C, F, A, E positive; D, B negative) — decodes to exactly that value with the declared scale. -/
theorem packed_roundtrip (ds : List Nat) (sn frac : Nat) (_hne : ds ≠ []) (hd : ∀ d ∈ ds, d < 10)
    (hs : sn < 16) :
    unpackPacked ds.length frac (encPacked ds sn)
      = .ok (.dec (isNeg sn) (ofDigits ds) (-(frac : Int))) := by
  let pad : List Nat := if ds.length % 2 = 0 then [0] else []
  have hpad10 : ∀ d ∈ pad ++ ds, d < 10 := by
    intro d hd'
    rcases List.mem_append.mp hd' with h | h
    · simp only [pad] at h; split at h <;> simp at h; omega
    · exact hd d h
  have hn : nibbles (packPairs (pad ++ ds ++ [sn])) = pad ++ ds ++ [sn] := by
    apply nibbles_pack
    · intro n hn
      rcases List.mem_append.mp hn with h | h
      · have := hpad10 n h; omega
      · simp at h; omega
    · simp only [List.length_append, List.length_singleton, pad]; split <;> simp <;> omega
  have hval : ofDigits (pad ++ ds) = ofDigits ds := by
    simp only [pad]; split
    · exact ofDigits_cons_zero ds
    · rfl
  have hany : (pad ++ ds).any (· > 9) = false := by
    rw [List.any_eq_false]; intro d hd'; have := hpad10 d hd'; simp; omega
  have hpadchk : ¬ ((pad ++ ds).length = ds.length + 1 ∧ (pad ++ ds).head? ≠ some 0) := by
    simp only [pad]; split
    · simp
    · simp
  have henc : encPacked ds sn = packPairs (pad ++ ds ++ [sn]) := rfl
  rw [henc, unpackPacked_of_nibbles _ _ _ _ _ hn]
  simp only [hany, hpadchk, if_false, Bool.false_eq_true, hval]

/-- Non-vacuity: `-123.45` as `S999V99 COMP-3` is `12 34 5D`. -/
example : encPacked [1,2,3,4,5] 0xD = [0x12, 0x34, 0x5D] := by decide
example : unpackPacked 5 2 [0x12, 0x34, 0x5D] = .ok (.dec true 12345 (-2)) := by decide

/-! ## zoned -/

theorem zoned_digits (zds : List (Nat × Nat)) (sn : Nat) (hne : zds ≠ [])
    (hd : ∀ p ∈ zds, p.2 < 10) :
    (encZoned zds sn).map (· % 16) = zds.map (·.2) ∧
    (encZoned zds sn).getLast? = some (sn * 16 + (zds.getLast hne).2) := by
  induction zds with
  | nil => exact absurd rfl hne
  | cons p rest ih =>
    obtain ⟨z, d⟩ := p
    have hdd : d < 10 := hd (z, d) (by simp)
    cases rest with
    | nil =>
      simp [encZoned]; omega
    | cons q rest' =>
      have := ih (by simp) (fun p hp => hd p (by simp [hp]))
      have hne2 : encZoned (q :: rest') sn ≠ [] := by cases rest' <;> simp [encZoned]
      obtain ⟨x, xs, hx⟩ := List.exists_cons_of_ne_nil hne2
      simp only [encZoned, List.map_cons]
      refine ⟨?_, ?_⟩
      · rw [this.1]; simp; omega
      · rw [hx, List.getLast?_cons_cons, ← hx, this.2]; simp

theorem encZoned_ne_nil (zds : List (Nat × Nat)) (sn : Nat) (hne : zds ≠ []) : encZoned zds sn ≠ [] := by
  cases zds with
  | nil => exact absurd rfl hne
  | cons p rest => cases rest <;> simp [encZoned]

/-- **C02 (zoned).** One byte per digit, any zone nibbles on the non-final bytes, the sign in the
zone of the last digit: decodes to exactly the stored value. -/
theorem zoned_roundtrip (zds : List (Nat × Nat)) (sn frac : Nat) (hne : zds ≠ [])
    (hd : ∀ p ∈ zds, p.2 < 10) (hs : sn < 16) :
    unpackZoned frac (encZoned zds sn)
      = .ok (.dec (isNeg sn) (ofDigits (zds.map (·.2))) (-(frac : Int))) := by
  have ⟨h1, h2⟩ := zoned_digits zds sn hne hd
  have hlast : (zds.getLast hne).2 < 10 := hd _ (List.getLast_mem hne)
  have hany : (encZoned zds sn).any (fun b => decide (b % 16 > 9)) = false := by
    rw [List.any_eq_false]
    intro b hb
    have : b % 16 ∈ (encZoned zds sn).map (· % 16) := List.mem_map.mpr ⟨b, hb, rfl⟩
    rw [h1] at this
    obtain ⟨p, hp, hpe⟩ := List.mem_map.mp this
    have := hd p hp
    simp; omega
  simp only [unpackZoned, hany, Bool.false_eq_true, if_false, h2, h1]
  congr 3
  have : (sn * 16 + (zds.getLast hne).2) / 16 % 16 = sn := by omega
  rw [this]

example : unpackZoned 2 (encZoned [(0xF,1),(0xF,2),(0xF,3),(0xF,4),(0xF,5)] 0xD)
    = .ok (.dec true 12345 (-2)) := by decide

/-! ## binary -/

theorem fromBE_append (a : List Nat) (b : Nat) : fromBE (a ++ [b]) = fromBE a * 256 + b := by
  simp [fromBE, List.foldl_append]

theorem fromBE_toBE (w n : Nat) (h : n < 256 ^ w) : fromBE (toBE w n) = n := by
  induction w generalizing n with
  | zero => simp at h; subst h; rfl
  | succ w ih =>
    simp only [toBE, fromBE_append]
    rw [ih (n / 256) (by rw [Nat.pow_succ] at h; omega)]
    omega

theorem toBE_length (w n : Nat) : (toBE w n).length = w := by
  induction w generalizing n with
  | zero => rfl
  | succ w ih => simp [toBE, ih]

/-- The width a binary item of `d` integer digits is decoded with. -/
theorem binWidth_cases (d w : Nat) (h : binWidthByDigits d = some w) : w = 2 ∨ w = 4 ∨ w = 8 := by
  unfold binWidthByDigits at h
  split at h
  · simp at h; omega
  · split at h
    · simp at h; omega
    · split at h <;> simp at h; omega

theorem signed_roundtrip (w : Nat) (v : Int) (hw : w = 2 ∨ w = 4 ∨ w = 8)
    (hlo : -((256 ^ w / 2 : Nat) : Int) ≤ v) (hhi : v < ((256 ^ w / 2 : Nat) : Int)) :
    signedOf w (fromBE (encBinary w v)) = v := by
  have key : ∀ n : Nat, n < 256 ^ w → signedOf w (fromBE (toBE w n)) =
      if n < 256 ^ w / 2 then (n : Int) else (n : Int) - (256 ^ w : Nat) := by
    intro n hn; simp only [signedOf, fromBE_toBE w n hn]
  rcases hw with rfl | rfl | rfl
  all_goals
    simp only [encBinary]
    rw [key _ (by simp only [Nat.reducePow]; omega)]
    simp only [Nat.reducePow, Nat.reduceDiv] at hlo hhi ⊢
    split <;> omega

/-- **C02 (binary).** Big-endian two's complement of 2, 4 or 8 bytes decodes to exactly the stored
integer, for every value in range (including 0, −2^(8w−1) and 2^(8w−1)−1). -/
theorem binary_roundtrip (d w : Nat) (v : Int) (hw : binWidthByDigits d = some w)
    (hlo : -((256 ^ w / 2 : Nat) : Int) ≤ v) (hhi : v < ((256 ^ w / 2 : Nat) : Int)) :
    unpackBinary d (encBinary w v) = .ok (.int v) := by
  have hlen : (encBinary w v).length = w := toBE_length _ _
  simp only [unpackBinary, hw, hlen, if_true]
  rw [signed_roundtrip w v (binWidth_cases d w hw) hlo hhi]

/-- A buffer of the wrong length is refused, never mis-read. -/
theorem binary_wrong_length (d w : Nat) (buf : List Nat) (hw : binWidthByDigits d = some w)
    (hl : buf.length ≠ w) : unpackBinary d buf = .error .structError := by
  simp [unpackBinary, hw, hl]

example : unpackBinary 4 (encBinary 2 (-2)) = .ok (.int (-2)) := by decide
example : encBinary 2 (-2) = [0xFF, 0xFE] := by decide

/-! ## distinct stored values decode to distinct results -/

theorem packed_injective (ds₁ ds₂ : List Nat) (s₁ s₂ frac : Nat)
    (h₁ : ds₁ ≠ []) (h₂ : ds₂ ≠ []) (hd₁ : ∀ d ∈ ds₁, d < 10) (hd₂ : ∀ d ∈ ds₂, d < 10)
    (hs₁ : s₁ < 16) (hs₂ : s₂ < 16) (_hl : ds₁.length = ds₂.length)
    (hv : ofDigits ds₁ ≠ ofDigits ds₂ ∨ isNeg s₁ ≠ isNeg s₂) :
    unpackPacked ds₁.length frac (encPacked ds₁ s₁) ≠ unpackPacked ds₂.length frac (encPacked ds₂ s₂) := by
  rw [packed_roundtrip ds₁ s₁ frac h₁ hd₁ hs₁, packed_roundtrip ds₂ s₂ frac h₂ hd₂ hs₂]
  intro h
  injection h with h; injection h with a b _
  rcases hv with hv | hv
  · exact hv b
  · exact hv a

theorem binary_injective (d w : Nat) (v₁ v₂ : Int) (hw : binWidthByDigits d = some w)
    (h₁ : -((256 ^ w / 2 : Nat) : Int) ≤ v₁ ∧ v₁ < ((256 ^ w / 2 : Nat) : Int))
    (h₂ : -((256 ^ w / 2 : Nat) : Int) ≤ v₂ ∧ v₂ < ((256 ^ w / 2 : Nat) : Int)) (hv : v₁ ≠ v₂) :
    unpackBinary d (encBinary w v₁) ≠ unpackBinary d (encBinary w v₂) := by
  rw [binary_roundtrip d w v₁ hw h₁.1 h₁.2, binary_roundtrip d w v₂ hw h₂.1 h₂.2]
  intro h; injection h with h; injection h with h; exact hv h

/-! ## text -/

theorem patternOf_X (n : Nat) : patternOf [.digit (List.replicate n 'X')] = some (List.replicate n M.any) := by
  simp [patternOf, List.map_replicate]

theorem matchPat_any (n : Nat) (t : List ByteInfo) (h : n ≤ t.length) :
    matchPat (List.replicate n M.any) t = true := by
  induction n generalizing t with
  | zero => simp [matchPat]
  | succ n ih =>
    cases t with
    | nil => simp at h
    | cons i t => simp only [List.replicate_succ, matchPat]; exact ih t (by simpa using h)

/-- **C02 (text).** In an alphanumeric item `PIC X(n)` every byte value decodes to the character
the code-page table gives for it; nothing is refused (0x25 → newline included). -/
theorem text_decodes_every_byte (tbl : List ByteInfo) (n : Nat) (buf : List Nat) (h : n ≤ buf.length) :
    unpackText tbl [.digit (List.replicate n 'X')] buf
      = .ok (.str (buf.map fun b => (tbl.getD b ⟨0, false, false, false⟩).cp)) := by
  simp only [unpackText, patternOf_X]
  rw [matchPat_any n _ (by simpa using h)]
  simp [List.map_map, Function.comp_def]

end Stingray.Decode
