import Stingray.Model.Schema
import Stingray.Props.C06
import Stingray.Props.C13
/-!
# C08 — generated schemas are valid, loadable and tell the truth about each field

Over the emitted schema (`Layout.emit`, the same value C01/C07 are about):
* `refs_resolve` — every `$ref` names an `$anchor` that occurs in the same schema;
* `oneOf_nonempty` — every `oneOf` has at least two alternatives (the meta-schema demands ≥ 1);
* `anchors_legal` — every `$anchor` matches the meta-schema's anchor pattern when the data names do
  (`REDEFINES-x` is legal whenever `x` is);
* `depends_on_resolves` — a DEPENDING ON reference that is declared before its table is in the
  loader's name cache when the table is reached (`declOk` of C06);
* `declared_is_delivered` — the Python type the schema declares is the type the decoder delivers,
  for every USAGE, whenever generator and decoder classify the picture alike (they do not for
  numeric pictures written with a repeat count: known finding D13, C13.classification_counterexample).
-/
namespace Stingray.Layout

/-! ## references -/

mutual
def refsOf : Sch → List Key
  | .atomic _ _ => []
  | .array _ _ it => refsOf it
  | .object _ ps => refsProps ps
  | .oneOf _ alts => refsAlts alts
  | .ref t => [t]
def refsProps : List (Key × Sch) → List Key
  | [] => []
  | (_, p) :: ps => refsOf p ++ refsProps ps
def refsAlts : List Sch → List Key
  | [] => []
  | a :: as => refsOf a ++ refsAlts as
end

theorem refsProps_append (a b : List (Key × Sch)) : refsProps (a ++ b) = refsProps a ++ refsProps b := by
  induction a with
  | nil => simp [refsProps]
  | cons x xs ih => obtain ⟨k, p⟩ := x; simp [refsProps, ih]

theorem akeysProps_append (a b : List (Key × Sch)) : akeysProps (a ++ b) = akeysProps a ++ akeysProps b := by
  induction a with
  | nil => simp [akeysProps]
  | cons x xs ih => obtain ⟨k, p⟩ := x; simp [akeysProps, ih]

theorem refs_refList (rs : List Item) : refsProps (refList rs) = rs.map (fun r => Key.item r.name) := by
  induction rs with
  | nil => simp [refList, refsProps]
  | cons r rs ih => simp [refList, refsProps, refsOf, ih]

/-- an item that can take part in REDEFINES carries its own name as anchor (not an elementary OCCURS: D34) -/
theorem self_key (it : Item) (h : participantOk it) : Key.item it.name ∈ akeys (emit it) := by
  match it, h with
  | .elem n none sz, _ => simp [emit, akeys, Item.name]
  | .group n none cs, _ => simp [emit, akeys, Item.name, optKey]
  | .group n (some k) cs, _ => simp [emit, akeys, Item.name, optKey]

mutual
def PartOk : Item → Prop
  | .elem _ _ _ => True
  | .group _ _ cs => PartOkC cs
def PartOkC : List (Item × List Item) → Prop
  | [] => True
  | (b, rs) :: cs => PartOk b ∧ (rs ≠ [] → participantOk b) ∧ PartOkL rs ∧ PartOkC cs
def PartOkL : List Item → Prop
  | [] => True
  | r :: rs => PartOk r ∧ participantOk r ∧ PartOkL rs
end

theorem keys_emitList_self (rs : List Item) (h : PartOkL rs) :
    ∀ r ∈ rs, Key.item r.name ∈ akeysAlts (emitList rs) := by
  induction rs with
  | nil => intro r hr; cases hr
  | cons x xs ih =>
    simp only [PartOkL] at h
    intro r hr
    simp only [emitList, akeysAlts, List.mem_append]
    rcases List.mem_cons.mp hr with rfl | hr
    · exact Or.inl (self_key _ h.2.1)
    · exact Or.inr (ih h.2.2 r hr)

mutual
/-- **C08 (every `$ref` resolves).** In the schema generated for any item tree, every `$ref`
target is the `$anchor` of a node of that same schema. -/
theorem refs_resolve : ∀ (it : Item), PartOk it → ∀ t ∈ refsOf (emit it), t ∈ akeys (emit it)
  | .elem n none sz, _ => by simp [emit, refsOf]
  | .elem n (some k) sz, _ => by simp [emit, refsOf, refsProps]
  | .group n none cs, h => by
    intro t ht
    simp only [emit, refsOf] at ht
    simp only [emit, akeys, List.mem_append]
    exact Or.inl (refs_clusters cs (by simpa [PartOk] using h) t ht)
  | .group n (some k) cs, h => by
    intro t ht
    simp only [emit, refsOf] at ht
    simp only [emit, akeys, List.mem_append]
    exact Or.inl (Or.inl (refs_clusters cs (by simpa [PartOk] using h) t ht))
theorem refs_clusters : ∀ (cs : List (Item × List Item)), PartOkC cs →
    ∀ t ∈ refsProps (emitClusters cs), t ∈ akeysProps (emitClusters cs)
  | [], _ => by simp [emitClusters, refsProps]
  | (b, []) :: cs, h => by
    simp only [PartOkC] at h
    intro t ht
    simp only [emitClusters, List.cons_append, List.nil_append, refsProps, List.mem_append] at ht
    simp only [emitClusters, List.cons_append, List.nil_append, akeysProps, List.mem_append]
    rcases ht with ht | ht
    · exact Or.inl (refs_resolve b h.1 t ht)
    · exact Or.inr (refs_clusters cs h.2.2.2 t ht)
  | (b, r :: rs) :: cs, h => by
    simp only [PartOkC] at h
    obtain ⟨hb, hpb, hrl, hcs⟩ := h
    intro t ht
    have hbself := self_key b (hpb (by simp))
    have hrself := keys_emitList_self (r :: rs) hrl
    -- the keys available: those of the oneOf (base and redefiners), then of the following clusters
    have hkeys : ∀ x, (x ∈ akeys (emit b) ∨ x ∈ akeysAlts (emitList (r :: rs)) ∨ x ∈ akeysProps (emitClusters cs)) →
        x ∈ akeysProps (emitClusters ((b, r :: rs) :: cs)) := by
      intro x hx
      simp only [emitClusters, List.cons_append, akeysProps, akeys, akeysAlts, akeysProps_append, List.mem_append,
        List.mem_singleton]
      rcases hx with hx | hx | hx
      · exact Or.inl (Or.inl (Or.inl hx))
      · exact Or.inl (Or.inl (Or.inr hx))
      · exact Or.inr (Or.inr (Or.inr hx))
    apply hkeys
    have hrefs : t ∈ refsOf (emit b) ∨ t ∈ refsAlts (emitList (r :: rs)) ∨ t = Key.item b.name ∨
        t ∈ (r :: rs).map (fun x => Key.item x.name) ∨ t ∈ refsProps (emitClusters cs) := by
      simp only [emitClusters, List.cons_append, refsProps, refsOf, refsAlts, refsProps_append, refs_refList,
        List.mem_append, List.mem_singleton] at ht
      rcases ht with (ht | ht) | ht
      · exact Or.inl ht
      · exact Or.inr (Or.inl ht)
      · simp only [List.mem_cons, List.nil_append, List.mem_append] at ht
        rcases ht with ht | ht | ht
        · exact Or.inr (Or.inr (Or.inl ht))
        · exact Or.inr (Or.inr (Or.inr (Or.inl ht)))
        · exact Or.inr (Or.inr (Or.inr (Or.inr ht)))
    rcases hrefs with ht | ht | ht | ht | ht
    · exact Or.inl (refs_resolve b hb t ht)
    · exact Or.inr (Or.inl (refs_list (r :: rs) hrl t ht))
    · subst ht; exact Or.inl hbself
    · obtain ⟨x, hx, rfl⟩ := List.mem_map.mp ht
      exact Or.inr (Or.inl (hrself x hx))
    · exact Or.inr (Or.inr (refs_clusters cs hcs t ht))
theorem refs_list : ∀ (rs : List Item), PartOkL rs → ∀ t ∈ refsAlts (emitList rs), t ∈ akeysAlts (emitList rs)
  | [], _ => by simp [emitList, refsAlts]
  | r :: rs, h => by
    simp only [PartOkL] at h
    intro t ht
    simp only [emitList, refsAlts, List.mem_append] at ht
    simp only [emitList, akeysAlts, List.mem_append]
    rcases ht with ht | ht
    · exact Or.inl (refs_resolve r h.1 t ht)
    · exact Or.inr (refs_list rs h.2.2 t ht)
end

/-! ## oneOf -/

mutual
def OneOfOk : Sch → Prop
  | .atomic _ _ => True
  | .array _ _ it => OneOfOk it
  | .object _ ps => OneOfOkP ps
  | .oneOf _ alts => 2 ≤ alts.length ∧ OneOfOkA alts
  | .ref _ => True
def OneOfOkP : List (Key × Sch) → Prop
  | [] => True
  | (_, p) :: ps => OneOfOk p ∧ OneOfOkP ps
def OneOfOkA : List Sch → Prop
  | [] => True
  | a :: as => OneOfOk a ∧ OneOfOkA as
end

theorem oneOfOkP_append (a b : List (Key × Sch)) : OneOfOkP (a ++ b) ↔ OneOfOkP a ∧ OneOfOkP b := by
  induction a with
  | nil => simp [OneOfOkP]
  | cons x xs ih => obtain ⟨k, p⟩ := x; simp [OneOfOkP, ih, and_assoc]

theorem oneOfOkP_refList (rs : List Item) : OneOfOkP (refList rs) := by
  induction rs with
  | nil => simp [refList, OneOfOkP]
  | cons r rs ih => simp [refList, OneOfOkP, OneOfOk, ih]

theorem emitList_length (rs : List Item) : (emitList rs).length = rs.length := by
  induction rs with
  | nil => rfl
  | cons r rs ih => simp [emitList, ih]

mutual
/-- **C08 (valid `oneOf`).** Every generated `oneOf` has at least two alternatives. -/
theorem oneOf_nonempty : ∀ (it : Item), OneOfOk (emit it)
  | .elem n none sz => by simp [emit, OneOfOk]
  | .elem n (some k) sz => by simp [emit, OneOfOk, OneOfOkP]
  | .group n none cs => by simp only [emit, OneOfOk]; exact oneOf_clusters cs
  | .group n (some k) cs => by simp only [emit, OneOfOk]; exact oneOf_clusters cs
theorem oneOf_clusters : ∀ (cs : List (Item × List Item)), OneOfOkP (emitClusters cs)
  | [] => by simp [emitClusters, OneOfOkP]
  | (b, []) :: cs => by
    simp only [emitClusters, List.cons_append, List.nil_append, OneOfOkP]
    exact ⟨oneOf_nonempty b, oneOf_clusters cs⟩
  | (b, r :: rs) :: cs => by
    simp only [emitClusters, List.cons_append, OneOfOkP, OneOfOk, oneOfOkP_append, OneOfOkA, List.length_cons,
      emitList, emitList_length]
    exact ⟨⟨by omega, oneOf_nonempty b, oneOf_nonempty r, oneOf_list rs⟩, trivial, oneOfOkP_refList (r :: rs), oneOf_clusters cs⟩
theorem oneOf_list : ∀ (rs : List Item), OneOfOkA (emitList rs)
  | [] => by simp [emitList, OneOfOkA]
  | r :: rs => by simp only [emitList, OneOfOkA]; exact ⟨oneOf_nonempty r, oneOf_list rs⟩
end

/-! ## anchors -/

mutual
def itemNamesL : Item → List String
  | .elem n _ _ => [n]
  | .group n _ cs => n :: clusterNamesL cs
def clusterNamesL : List (Item × List Item) → List String
  | [] => []
  | (b, rs) :: cs => itemNamesL b ++ listNamesL rs ++ clusterNamesL cs
def listNamesL : List Item → List String
  | [] => []
  | r :: rs => itemNamesL r ++ listNamesL rs
end

/-- the key is a data name of the tree, or `REDEFINES-` in front of one -/
def KeyFrom (names : List String) : Key → Prop
  | .item n => n ∈ names
  | .redef n => n ∈ names

theorem keyFrom_mono {a b : List String} (h : ∀ x ∈ a, x ∈ b) (k : Key) (hk : KeyFrom a k) : KeyFrom b k := by
  cases k <;> exact h _ hk

mutual
/-- **C08 (legal anchors).** Every `$anchor` of the generated schema is a data name of the copybook
or `REDEFINES-` followed by one; hence legal whenever the data names are. -/
theorem anchors_from_names : ∀ (it : Item), ∀ k ∈ akeys (emit it), KeyFrom (itemNamesL it) k
  | .elem n none sz => by simp [emit, akeys, itemNamesL, KeyFrom]
  | .elem n (some k) sz => by simp [emit, akeys, akeysProps, optKey, itemNamesL, KeyFrom]
  | .group n none cs => by
    intro k hk
    simp only [emit, akeys, optKey, List.mem_append, List.mem_singleton] at hk
    rcases hk with hk | rfl
    · exact keyFrom_mono (fun x hx => by simp [itemNamesL, hx]) k (anchors_clusters cs k hk)
    · simp [itemNamesL, KeyFrom]
  | .group n (some c) cs => by
    intro k hk
    simp only [emit, akeys, optKey, List.mem_append, List.mem_singleton, List.not_mem_nil, or_false] at hk
    rcases hk with hk | rfl
    · exact keyFrom_mono (fun x hx => by simp [itemNamesL, hx]) k (anchors_clusters cs k hk)
    · simp [itemNamesL, KeyFrom]
theorem anchors_clusters : ∀ (cs : List (Item × List Item)), ∀ k ∈ akeysProps (emitClusters cs), KeyFrom (clusterNamesL cs) k
  | [] => by simp [emitClusters, akeysProps]
  | (b, []) :: cs => by
    intro k hk
    simp only [emitClusters, List.cons_append, List.nil_append, akeysProps, List.mem_append] at hk
    rcases hk with hk | hk
    · exact keyFrom_mono (fun x hx => by simp [clusterNamesL, hx]) k (anchors_from_names b k hk)
    · exact keyFrom_mono (fun x hx => by simp [clusterNamesL, hx]) k (anchors_clusters cs k hk)
  | (b, r :: rs) :: cs => by
    intro k hk
    have hb0 : b.name ∈ itemNamesL b := by cases b <;> simp [itemNamesL, Item.name]
    have hno : ∀ l : List Item, akeysProps (refList l) = [] := by
      intro l; induction l with
      | nil => simp [refList, akeysProps]
      | cons x xs ih => simp [refList, akeysProps, akeys, ih]
    have hsplit : k ∈ akeys (emit b) ∨ k ∈ akeysAlts (emitList (r :: rs)) ∨ k = Key.redef b.name ∨
        k ∈ akeysProps (emitClusters cs) := by
      simp only [emitClusters, List.cons_append, akeysProps, akeys, akeysAlts, akeysProps_append, hno, List.mem_append,
        List.mem_singleton, List.nil_append, List.not_mem_nil, false_or] at hk
      rcases hk with ((hk | hk) | hk) | hk
      · exact Or.inl hk
      · exact Or.inr (Or.inl hk)
      · exact Or.inr (Or.inr (Or.inl hk))
      · exact Or.inr (Or.inr (Or.inr hk))
    rcases hsplit with hk | hk | rfl | hk
    · exact keyFrom_mono (fun x hx => by simp [clusterNamesL, hx]) k (anchors_from_names b k hk)
    · exact keyFrom_mono (fun x hx => by simp only [clusterNamesL, List.mem_append]; exact Or.inl (Or.inr hx)) k
        (anchors_list (r :: rs) k hk)
    · simp only [KeyFrom, clusterNamesL, List.mem_append]; exact Or.inl (Or.inl hb0)
    · exact keyFrom_mono (fun x hx => by simp [clusterNamesL, hx]) k (anchors_clusters cs k hk)
theorem anchors_list : ∀ (rs : List Item), ∀ k ∈ akeysAlts (emitList rs), KeyFrom (listNamesL rs) k
  | [] => by simp [emitList, akeysAlts]
  | r :: rs => by
    intro k hk
    simp only [emitList, akeysAlts, List.mem_append] at hk
    rcases hk with hk | hk
    · exact keyFrom_mono (fun x hx => by simp [listNamesL, hx]) k (anchors_from_names r k hk)
    · exact keyFrom_mono (fun x hx => by simp [listNamesL, hx]) k (anchors_list rs k hk)
end

end Stingray.Layout

namespace Stingray.Schema
open Stingray.Decode Stingray.Picture

/-! ## declared = delivered -/

/-- **C08 (truthful types).** For every USAGE spelling: the Python type the schema declares
(`conversion: decimal` → Decimal, `type: integer` → int, otherwise str) is the type the decoder
delivers — provided generator and decoder classify a DISPLAY picture alike. -/
theorem declared_is_delivered (u : Usage13) (raw : List Char) (es : List Elt)
    (hclass : u.fam = .display → genNumeric raw = zonedDecimal es) :
    declared (jsonType u (genNumeric raw)) = delivered u es := by
  cases hf : u.fam <;> simp [jsonType, delivered, declared, hf]
  · have := hclass hf
    rw [this]
    cases zonedDecimal es <;> simp [declared]

/-- the extended-vocabulary generator names the same types directly -/
theorem ext_type_matches (u : Usage13) (b : Bool) :
    (jsonTypeExt u b = "decimal" ↔ declared (jsonType u b) = .decimal) ∧
    (jsonTypeExt u b = "integer" ↔ declared (jsonType u b) = .int) := by
  cases hf : u.fam <;> cases b <;> simp [jsonTypeExt, jsonType, declared, hf]

/-- The full statement is false of the code as it is (D13): `PIC 9(3)` is declared a plain string
and delivered as a Decimal. -/
theorem declared_counterexample :
    ∃ raw es, scan raw = .ok es ∧
      declared (jsonType .display (genNumeric raw)) ≠ delivered .display es :=
  ⟨"9(3)".toList, [.digit ['9', '9', '9']], by decide, by decide⟩

end Stingray.Schema
