import Stingray.Model.Picture
/-!
# C13 — PICTURE strings: strict acceptance, repeat-count equivalence, one interpretation

Specification: the relation `Denotes p e` — the picture text `p` denotes the symbol string `e` —
is the COBOL rule written as an inductive definition: a picture symbol denotes itself, `c(n)`
denotes `n` copies of `c` (n ≥ 1), nothing else is a picture.  `positions e` counts the symbols
that occupy a character position (everything except `V`).
-/
namespace Stingray.Picture

/-- The picture symbols the scanners know (upper case). -/
def isSym (c : Char) : Bool :=
  c == '+' || c == '-' || c == 'S' || c == 'D' || c == 'B' || c == 'C' || c == 'R' ||
  c == '$' || c == ',' || c == '/' || c == '*' || c == 'V' || c == '.' || isRep c

/-- `Denotes p e`: the (upper-case) picture text `p` denotes the expanded symbol string `e`. -/
inductive Denotes : List Char → List Char → Prop
  | nil : Denotes [] []
  | sym (c : Char) (r e : List Char) (h : isSym c = true) : Denotes r e → Denotes (c :: r) (c :: e)
  | rep (c : Char) (ds r e p : List Char) (hp : p = c :: '(' :: (ds ++ ')' :: r))
      (hc : isRep c = true) (hne : ds ≠ []) (hd : ds.all isDig = true) (hn : digitsVal ds ≠ 0) :
      Denotes r e → Denotes p (List.replicate (digitsVal ds) c ++ e)

/-- Character positions occupied by a symbol string: `V` (implied decimal point) occupies none. -/
def positions (e : List Char) : Nat := e.countP (· != 'V')

/-- The symbols an element stands for. -/
def Elt.text : Elt → List Char
  | .sign s => s
  | .chr c => [c]
  | .dec c => [c]
  | .digit cs => cs

def text (es : List Elt) : List Char := es.flatMap Elt.text

/-! ## helper lemmas -/

theorem isSym_of_isRep {c : Char} (h : isRep c = true) : isSym c = true := by
  simp [isSym, h]

theorem denotes_run (cs r e : List Char) (h : cs.all isRep = true) (hr : Denotes r e) :
    Denotes (cs ++ r) (cs ++ e) := by
  induction cs with
  | nil => simpa using hr
  | cons c cs ih =>
    simp only [List.all_cons, Bool.and_eq_true] at h
    exact Denotes.sym c _ _ (isSym_of_isRep h.1) (ih h.2)

theorem takeWhile_all (p : Char → Bool) (l : List Char) : (l.takeWhile p).all p = true := by
  induction l with
  | nil => rfl
  | cons c cs ih =>
    simp only [List.takeWhile_cons]
    split
    · rename_i h; simp [h, ih]
    · rfl

theorem repeatAt_ok (c : Char) (r r2 : List Char) (e : Elt) (h : repeatAt c r = some (.ok e, r2)) :
    ∃ ds, r = '(' :: (ds ++ ')' :: r2) ∧ ds ≠ [] ∧ ds.all isDig = true ∧ digitsVal ds ≠ 0 ∧
      e = .digit (List.replicate (digitsVal ds) c) := by
  unfold repeatAt at h
  split at h
  · rename_i r'
    split at h
    · cases h
    · rename_i hne
      split at h
      · rename_i r'' hdrop
        split at h
        · cases h
        · rename_i hn
          injection h with h; injection h with h1 h2; injection h1 with h1; subst h1; subst h2
          refine ⟨r'.takeWhile isDig, ?_, hne, takeWhile_all isDig r', hn, rfl⟩
          rw [← hdrop, List.takeWhile_append_dropWhile]
      · cases h
  · cases h

/-- One scanner step is sound for the specification: if `tok` matches element `e` leaving `r`,
and `r` denotes `x`, then the whole denotes `e.text ++ x`. -/
theorem tokRep_denotes (c : Char) (q r : List Char) (e : Elt) (x : List Char) (hc : isRep c = true)
    (h : tokRep c q = (.ok e, r)) (hr : Denotes r x) : Denotes (c :: q) (e.text ++ x) := by
  unfold tokRep at h
  split at h
  · rename_i y hy
    subst h
    obtain ⟨ds, rfl, hne, hd, hn, rfl⟩ := repeatAt_ok c q r e hy
    exact Denotes.rep c ds r x _ rfl hc hne hd hn hr
  · injection h with h1 h2; injection h1 with h1; subst h1; subst h2
    have := denotes_run (q.takeWhile isRep) _ _ (takeWhile_all isRep q) hr
    rw [List.takeWhile_append_dropWhile] at this
    exact Denotes.sym c _ _ (isSym_of_isRep hc) this

theorem tok_denotes (s r : List Char) (e : Elt) (x : List Char)
    (h : tok s = some (.ok e, r)) (hr : Denotes r x) : Denotes s (e.text ++ x) := by
  unfold tok at h
  split at h
  all_goals (try (injection h with h; injection h with h1 h2; injection h1 with h1; subst h1; subst h2))
  · exact Denotes.sym _ _ _ (by decide) hr
  · exact Denotes.sym _ _ _ (by decide) hr
  · exact Denotes.sym _ _ _ (by decide) hr
  · exact Denotes.sym _ _ _ (by decide) (Denotes.sym _ _ _ (by decide) hr)
  · exact Denotes.sym _ _ _ (by decide) (Denotes.sym _ _ _ (by decide) hr)
  · exact Denotes.sym _ _ _ (by decide) hr
  · exact Denotes.sym _ _ _ (by decide) hr
  · exact Denotes.sym _ _ _ (by decide) hr
  · exact Denotes.sym _ _ _ (by decide) hr
  · exact Denotes.sym _ _ _ (by decide) hr
  · exact Denotes.sym _ _ _ (by decide) hr
  · exact Denotes.sym _ _ _ (by decide) hr
  · split at h
    · rename_i hc
      injection h with h
      exact tokRep_denotes _ _ _ _ _ hc h hr
    · cases h
  · cases h

theorem scanGo_denotes (fuel : Nat) (s : List Char) (es : List Elt)
    (h : scanGo fuel s = .ok es) : Denotes s (text es) := by
  induction fuel generalizing s es with
  | zero =>
    cases s with
    | nil => simp [scanGo] at h; subst h; exact Denotes.nil
    | cons c cs => simp [scanGo] at h
  | succ fuel ih =>
    cases s with
    | nil => simp [scanGo] at h; subst h; exact Denotes.nil
    | cons c cs =>
      simp only [scanGo] at h
      split at h
      · cases h
      · cases h
      · rename_i e r htok
        split at h
        · cases h
        · rename_i es' hrest
          injection h with h; subst h
          have := tok_denotes _ _ _ _ htok (ih r es' hrest)
          simpa [text] using this

/-! ## the property theorems -/

/-- **C13 (strict acceptance).** An accepted picture is, symbol for symbol, a picture by the
COBOL rule, and its elements are exactly the repeat-expanded symbol string: no character was
skipped, `c(n)` became exactly `n` copies of `c`. -/
theorem scan_denotes (s : List Char) (es : List Elt) (h : scan s = .ok es) :
    Denotes (s.map upc) (text es) := by
  unfold scan at h
  split at h
  · exact scanGo_denotes _ _ _ h
  · cases h

theorem eltSize_positions (e : Elt) (h : ∀ s, e = .sign s → 'V' ∉ s) (hd : ∀ cs, e = .digit cs → 'V' ∉ cs)
    (hc : ∀ c, e = .chr c → c ≠ 'V') (hdec : ∀ c, e = .dec c → c = 'V' ∨ c = '.') :
    eltSize e = positions e.text := by
  cases e with
  | sign s =>
    simp only [eltSize, Elt.text, positions]
    have := h s rfl
    rw [List.countP_eq_length.mpr]
    intro a ha; simp; intro hv; subst hv; exact this ha
  | chr c => simp [eltSize, Elt.text, positions, hc c rfl]
  | dec c =>
    rcases hdec c rfl with rfl | rfl <;> simp [eltSize, Elt.text, positions]
  | digit cs =>
    simp only [eltSize, Elt.text, positions]
    have := hd cs rfl
    rw [List.countP_eq_length.mpr]
    intro a ha; simp; intro hv; subst hv; exact this ha

/-- Well-formed elements: what `tok` can produce. -/
def EltWF : Elt → Prop
  | .sign s => 'V' ∉ s
  | .chr c => c ≠ 'V'
  | .dec c => c = 'V' ∨ c = '.'
  | .digit cs => cs.all isRep = true

theorem not_isRep_V : isRep 'V' = false := by decide

theorem tok_wf (s r : List Char) (e : Elt) (h : tok s = some (.ok e, r)) : EltWF e := by
  unfold tok at h
  split at h
  all_goals (try (injection h with h; injection h with h1 h2; injection h1 with h1; subst h1; simp [EltWF]; done))
  · split at h
    · rename_i c q _ _ _ _ _ _ _ _ _ _ _ _ hc
      injection h with h
      unfold tokRep at h
      split at h
      · rename_i y hy
        subst h
        obtain ⟨ds, _, _, _, _, rfl⟩ := repeatAt_ok c q r e hy
        simp [EltWF, hc]
      · injection h with h1 h2; injection h1 with h1; subst h1
        simp [EltWF, hc, takeWhile_all isRep q]
    · cases h
  · cases h

theorem eltSize_of_wf (e : Elt) (h : EltWF e) : eltSize e = positions e.text := by
  apply eltSize_positions
  · intro s hs; subst hs; exact h
  · intro cs hs; subst hs
    intro hv
    have := List.all_eq_true.mp h 'V' hv
    simp [not_isRep_V] at this
  · intro c hs; subst hs; exact h
  · intro c hs; subst hs; exact h

theorem scanGo_wf (fuel : Nat) (s : List Char) (es : List Elt) (h : scanGo fuel s = .ok es) :
    ∀ e ∈ es, EltWF e := by
  induction fuel generalizing s es with
  | zero =>
    cases s with
    | nil => simp [scanGo] at h; subst h; simp
    | cons c cs => simp [scanGo] at h
  | succ fuel ih =>
    cases s with
    | nil => simp [scanGo] at h; subst h; simp
    | cons c cs =>
      simp only [scanGo] at h
      split at h
      · cases h
      · cases h
      · rename_i e r htok
        split at h
        · cases h
        · rename_i es' hrest
          injection h with h; subst h
          intro e' he'
          rcases List.mem_cons.mp he' with rfl | h2
          · exact tok_wf _ _ _ htok
          · exact ih r es' hrest e' h2

theorem positions_append (a b : List Char) : positions (a ++ b) = positions a + positions b := by
  simp [positions, List.countP_append]

theorem size_eq_positions (es : List Elt) (h : ∀ e ∈ es, EltWF e) : size es = positions (text es) := by
  induction es with
  | nil => rfl
  | cons e es ih =>
    simp only [size, List.map_cons, List.sum_cons, text, List.flatMap_cons, positions_append]
    rw [eltSize_of_wf e (h e (by simp))]
    have := ih (fun x hx => h x (by simp [hx]))
    simp only [size, text] at this
    omega

/-- **C13 (size).** The size computed for an accepted picture is the number of character
positions of the symbol string it denotes (`V` occupies none). -/
theorem scan_size (s : List Char) (es : List Elt) (h : scan s = .ok es) :
    size es = positions (text es) := by
  unfold scan at h
  split at h
  · exact size_eq_positions es (scanGo_wf _ _ _ h)
  · cases h

theorem digit_split_unique (ds ds' r r' : List Char) (h1 : ds.all isDig = true) (h2 : ds'.all isDig = true)
    (h : ds ++ ')' :: r = ds' ++ ')' :: r') : ds = ds' ∧ r = r' := by
  induction ds generalizing ds' with
  | nil =>
    cases ds' with
    | nil => simp at h; exact ⟨rfl, h⟩
    | cons d ds' =>
      simp at h; obtain ⟨h, _⟩ := h; subst h
      simp [isDig] at h2
  | cons d ds ih =>
    cases ds' with
    | nil =>
      simp at h; obtain ⟨h, _⟩ := h; subst h
      simp [isDig] at h1
    | cons d' ds' =>
      simp only [List.cons_append, List.cons.injEq] at h
      simp only [List.all_cons, Bool.and_eq_true] at h1 h2
      obtain ⟨rfl, h⟩ := h
      obtain ⟨rfl, rfl⟩ := ih ds' h1.2 h2.2 h
      exact ⟨rfl, rfl⟩

theorem not_denotes_paren (r e : List Char) : ¬ Denotes ('(' :: r) e := by
  intro h
  cases h with
  | sym _ _ _ hbad _ => simp [isSym, isRep] at hbad
  | rep c _ _ _ _ hp hbad _ _ _ _ =>
    injection hp with h1 _; subst h1; simp [isRep] at hbad

/-- The denotation of a picture is unique, so "the number of positions it denotes" is well defined. -/
theorem denotes_unique (p e₁ e₂ : List Char) (h₁ : Denotes p e₁) (h₂ : Denotes p e₂) : e₁ = e₂ := by
  induction h₁ generalizing e₂ with
  | nil =>
    cases h₂ with
    | nil => rfl
    | rep _ _ _ _ _ hp _ _ _ _ _ => cases hp
  | sym c r e hs hr ih =>
    cases h₂ with
    | sym _ _ e' _ hr' => rw [ih e' hr']
    | rep _ ds r' e' _ hp hc hne hd hn hr' =>
      injection hp with h1 h2; subst h1; subst h2
      exact absurd hr (not_denotes_paren _ _)
  | rep c ds r e p hp hc hne hd hn hr ih =>
    subst hp
    cases h₂ with
    | sym _ _ e' _ hr' => exact absurd hr' (not_denotes_paren _ _)
    | rep _ ds' r' e' _ hp' hc' hne' hd' hn' hr' =>
      injection hp' with h1 h2
      injection h2 with _ h3
      obtain ⟨rfl, rfl⟩ := digit_split_unique ds ds' r r' hd hd' h3
      subst h1
      rw [ih e' hr']

/-- **C13 (size, full form).** Whatever symbol string the picture denotes by the COBOL rule, the
size computed for an accepted picture is its number of character positions. -/
theorem scan_size_denoted (s : List Char) (es : List Elt) (x : List Char) (h : scan s = .ok es)
    (hx : Denotes (s.map upc) x) : size es = positions x := by
  rw [scan_size s es h, denotes_unique _ _ _ (scan_denotes s es h) hx]

/-! ## letter case -/

theorem upc_cases (c : Char) : upc c = c ∨ upc c ∈
    ['A','B','C','D','E','F','G','H','I','J','K','L','M','N','O','P','Q','R','S','T','U','V','W','X','Y','Z'] := by
  unfold upc
  split <;> simp

theorem upc_idem (c : Char) : upc (upc c) = upc c := by
  rcases upc_cases c with h | h
  · rw [h, h]
  · generalize upc c = u at h
    simp only [List.mem_cons, List.not_mem_nil, or_false] at h
    rcases h with rfl|rfl|rfl|rfl|rfl|rfl|rfl|rfl|rfl|rfl|rfl|rfl|rfl|rfl|rfl|rfl|rfl|rfl|rfl|rfl|rfl|rfl|rfl|rfl|rfl|rfl <;> rfl

theorem upc_ascii (c : Char) : decide ((upc c).toNat < 128) = decide (c.toNat < 128) := by
  unfold upc
  split <;> simp

/-- **C13 (letter case).** Acceptance and interpretation do not depend on letter case. -/
theorem scan_case_insensitive (s : List Char) : scan (s.map upc) = scan s := by
  unfold scan
  have h1 : (s.map upc).all (fun c => decide (c.toNat < 128)) = s.all (fun c => decide (c.toNat < 128)) := by
    rw [List.all_map]; congr 1; funext c; exact upc_ascii c
  have h2 : (s.map upc).map upc = s.map upc := by
    rw [List.map_map]; congr 1; funext c; exact upc_idem c
  rw [h1, h2, List.length_map]

/-! ## generator versus decoder classification (D13) -/

/-- The generator classifies by the *raw* characters, the decoder by the parsed digit groups.
They agree on pictures written without repeat counts … -/
theorem classification_counterexample :
    ∃ raw es, scan raw = .ok es ∧ genNumeric raw ≠ zonedDecimal es :=
  ⟨"9(3)".toList, [.digit ['9', '9', '9']], by decide, by decide⟩

example : scan "S9(5)V99".toList
    = .ok [.sign ['S'], .digit ['9','9','9','9','9'], .dec 'V', .digit ['9','9']] := by decide
example : scan "9#9".toList = .error .invalidChars := by decide
example : scan "99(3)9".toList = .error .invalidChars := by decide
example : scan "9(0)".toList = .error .zeroRepeat := by decide
example : (summary [.sign ['S'], .digit ['9','9','9','9','9'], .dec 'V', .digit ['9','9']])
    = ⟨8, true, 5, 2, true⟩ := by decide

end Stingray.Picture
