import Stingray.Model.Clean
/-!
# C17 — cleaned names are always legal JSON Schema anchors

Specification: `Legal s` is the anchor pattern `^[A-Za-z_][-A-Za-z0-9._]*$` (anchored at the very
end of the string) as a predicate on character lists.
-/
namespace Stingray.Clean

/-- The JSON Schema `$anchor` pattern. -/
def Legal (s : List Char) : Prop :=
  ∃ c cs, s = c :: cs ∧ isFirst c = true ∧ cs.all isRest = true

instance : DecidablePred Legal := fun s =>
  match s with
  | [] => isFalse (by rintro ⟨c, cs, h, _⟩; cases h)
  | c :: cs =>
    if h : isFirst c = true ∧ cs.all isRest = true then isTrue ⟨c, cs, rfl, h.1, h.2⟩
    else isFalse (by rintro ⟨c', cs', he, h1, h2⟩; cases he; exact h ⟨h1, h2⟩)

theorem dropWhile_nil_iff (p : Char → Bool) (l : List Char) :
    l.dropWhile p = [] ↔ l.all p = true := by
  induction l with
  | nil => simp
  | cons c cs ih =>
    simp only [List.dropWhile_cons, List.all_cons, Bool.and_eq_true]
    by_cases hc : p c = true
    · simp [hc, ih]
    · simp [hc]

/-- The loop condition is false exactly on the empty string and on legal anchors. -/
theorem rest_nil_iff (s : List Char) : rest s = [] ↔ s = [] ∨ Legal s := by
  cases s with
  | nil => simp [rest]
  | cons c cs =>
    simp only [rest]
    by_cases hc : isFirst c = true
    · simp only [hc, if_true, dropWhile_nil_iff]
      constructor
      · intro h; exact Or.inr ⟨c, cs, rfl, hc, h⟩
      · rintro (h | ⟨c', cs', he, _, h2⟩)
        · cases h
        · cases he; exact h2
    · simp only [hc]
      constructor
      · intro h; cases h
      · rintro (h | ⟨c', cs', he, h1, _⟩)
        · cases h
        · cases he; exact absurd h1 hc

/-- **C17 (termination + never raises)** is the definition of `clean` itself: Lean accepted the
well-founded recursion, so the loop ends for every string.  **C17 (legal result).** -/
theorem clean_legal (s : List Char) : clean s = [] ∨ Legal (clean s) := by
  fun_induction clean s with
  | case1 s h => exact (rest_nil_iff s).mp h
  | case2 s b bs h ih => exact ih

/-- An already legal name (and the empty string) is returned unchanged. -/
theorem clean_id_of_rest_nil (s : List Char) (h : rest s = []) : clean s = s := by
  unfold clean
  split
  · rfl
  · rename_i b bs hb; rw [h] at hb; cases hb

theorem clean_id_on_legal (s : List Char) (h : Legal s) : clean s = s :=
  clean_id_of_rest_nil s ((rest_nil_iff s).mpr (Or.inr h))

theorem clean_idempotent (s : List Char) : clean (clean s) = clean s :=
  clean_id_of_rest_nil _ ((rest_nil_iff _).mpr (clean_legal s))

theorem collapse_ne_nil (s : List Char) (h : s ≠ []) : collapse s ≠ [] := by
  fun_cases collapse s <;> simp_all

theorem replaceChar_ne_nil (b : Char) (s : List Char) (h : s ≠ []) : replaceChar b s ≠ [] := by
  cases s <;> simp_all [replaceChar]

/-- Only the empty heading cleans to the empty string: every non-empty heading becomes a legal anchor. -/
theorem clean_ne_nil (s : List Char) (h : s ≠ []) : clean s ≠ [] := by
  fun_induction clean s with
  | case1 s _ => exact h
  | case2 s b bs _ ih => exact ih (collapse_ne_nil _ (replaceChar_ne_nil b s h))

theorem nonempty_heading_becomes_legal (s : List Char) (h : s ≠ []) : Legal (clean s) := by
  rcases clean_legal s with h0 | h1
  · exact absurd h0 (clean_ne_nil s h)
  · exact h1

/-- Non-vacuity / executable spot checks (tests, labelled as tests). -/
example : rest "Not a 'good' name".toList = " a 'good' name".toList := by decide
example : rest "a\nb".toList = "\nb".toList := by decide
example : Legal "a_b".toList := by decide
example : ¬ Legal "abc\n".toList := by decide

end Stingray.Clean
