import Stingray.Model.Facade
/-!
# C14 — workbooks are opened by suffix and always release their file

Registry: `later_registration_wins`, `registration_is_local`, `unknown_suffix_refused`.
Life cycle: `exit_releases` (whatever happened inside the with-block — any sequence of iterating and
raising — after `__exit__` no handle on the workbook's file is held), `close_idempotent`.

**Partial.** The operating system's descriptor table and the handles third-party libraries hold
internally are not in the model; `harness/c14.py` observes them through `/proc/self/fd` at every
point at which the body can raise.
-/
namespace Stingray.Facade

theorem lookup_dictInsert_self {α : Type} (d : List (String × α)) (k : String) (v : α) :
    lookup k (dictInsert d k v) = some v := by
  induction d with
  | nil => simp [dictInsert, lookup]
  | cons p ps ih =>
    obtain ⟨k', v'⟩ := p
    by_cases hk : (k' == k) = true
    · simp [dictInsert, lookup, hk]
    · simp only [Bool.not_eq_true] at hk
      simp [dictInsert, lookup, hk, ih]

theorem lookup_dictInsert_other {α : Type} (d : List (String × α)) (k k' : String) (v : α) (hne : (k == k') = false) :
    lookup k' (dictInsert d k v) = lookup k' d := by
  induction d with
  | nil => simp [dictInsert, lookup, hne]
  | cons p ps ih =>
    obtain ⟨a, b⟩ := p
    by_cases ha : (a == k) = true
    · have hak : (a == k') = false := by
        have : a = k := by simpa using ha
        subst this; exact hne
      simp [dictInsert, lookup, ha, hne, hak]
    · simp only [Bool.not_eq_true] at ha
      simp only [dictInsert, ha, Bool.false_eq_true, if_false, lookup]
      rw [ih]

/-- **C14 (a later registration replaces the earlier one).** -/
theorem later_registration_wins (r : Registry) (s c₁ c₂ : String) :
    openWorkbook (register (register r [s] c₁) [s] c₂) s = .opened c₂ := by
  simp [openWorkbook, register, lookup_dictInsert_self]

/-- registering one suffix does not disturb any other -/
theorem registration_is_local (r : Registry) (s s' c : String) (hne : (s == s') = false) :
    openWorkbook (register r [s] c) s' = openWorkbook r s' := by
  simp [openWorkbook, register, lookup_dictInsert_other _ _ _ _ hne]

/-- **C14 (unknown suffix).** A suffix nobody registered is refused with `NotImplementedError`;
the model's `openWorkbook` has no way to touch a file before the class is found. -/
theorem unknown_suffix_refused (r : Registry) (s : String) (h : lookup s r = none) :
    openWorkbook r s = .notImplemented := by simp [openWorkbook, h]

/-- **C14 (always released).** Whatever the body of the with-block did — any sequence of iterating
sheets and rows and raising at any point — after `__exit__` the workbook holds no handle. -/
theorem exit_releases (w : WB) (ops : List LOp) : (lrun w (ops ++ [.exit])).handles = 0 ∧
    (lrun w (ops ++ [.exit])).closed = true := by
  simp [lrun, List.foldl_append, lstep]

/-- **C14 (double close).** Closing an already closed workbook changes nothing. -/
theorem close_idempotent (w : WB) : lstep (lstep w .close) .close = lstep w .close := rfl

theorem close_after_exit (w : WB) (ops : List LOp) :
    lrun w (ops ++ [.exit, .close]) = lrun w (ops ++ [.exit]) := by
  simp [lrun, List.foldl_append, lstep]

/-- non-vacuity: the module-level registrations of the library -/
def libraryRegistry : Registry :=
  register (register (register (register (register (register [] [".csv"] "CSV_Workbook")
    [".json", ".ndjson", ".jsonnl"] "JSON_Workbook") [".xls"] "XLS_Workbook") [".xlsx"] "XLSX_Workbook")
    [".ods"] "ODS_Workbook") [".numbers"] "Numbers_Workbook"

example : openWorkbook libraryRegistry ".ndjson" = .opened "JSON_Workbook" := by decide
example : openWorkbook libraryRegistry ".txt" = .notImplemented := by decide

end Stingray.Facade
