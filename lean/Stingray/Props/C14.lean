import Stingray.Model.Facade
/-!
# C14 — workbooks are opened by suffix and always release their file

Registry: `later_registration_wins`, `registration_is_local`, `unknown_suffix_refused`; over every history of
registrations naming any number of suffixes: `registry_history`, `unrelated_registration_irrelevant`.
Life cycle: `exit_releases` (whatever happened inside the with-block — any sequence of iterating and
raising — after `__exit__` no handle on the workbook's file is held), `close_idempotent`, `exit_releases_forever`.

**Partial.** The operating system's descriptor table and the handles third-party libraries hold
internally are not in the model; `harness/c14.py` observes them through `/proc/self/fd` at every
point at which the body can raise.
-/
namespace Stingray.Facade

theorem lookup_dictInsert_self {α : Type} (d : List (String × α)) (k : String) (v : α) :
    lookup k (dictInsert d k v) = some v := by
  induction d with
  | nil => simp [dictInsert, lookup]
  | cons p ps ih =>
    obtain ⟨k', v'⟩ := p
    by_cases hk : (k' == k) = true
    · simp [dictInsert, lookup, hk]
    · simp only [Bool.not_eq_true] at hk
      simp [dictInsert, lookup, hk, ih]

theorem lookup_dictInsert_other {α : Type} (d : List (String × α)) (k k' : String) (v : α) (hne : (k == k') = false) :
    lookup k' (dictInsert d k v) = lookup k' d := by
  induction d with
  | nil => simp [dictInsert, lookup, hne]
  | cons p ps ih =>
    obtain ⟨a, b⟩ := p
    by_cases ha : (a == k) = true
    · have hak : (a == k') = false := by
        have : a = k := by simpa using ha
        subst this; exact hne
      simp [dictInsert, lookup, ha, hne, hak]
    · simp only [Bool.not_eq_true] at ha
      simp only [dictInsert, ha, Bool.false_eq_true, if_false, lookup]
      rw [ih]

/-- **C14 (a later registration replaces the earlier one).** -/
theorem later_registration_wins (r : Registry) (s c₁ c₂ : String) :
    openWorkbook (register (register r [s] c₁) [s] c₂) s = .opened c₂ := by
  simp [openWorkbook, register, lookup_dictInsert_self]

/-- registering one suffix does not disturb any other -/
theorem registration_is_local (r : Registry) (s s' c : String) (hne : (s == s') = false) :
    openWorkbook (register r [s] c) s' = openWorkbook r s' := by
  simp [openWorkbook, register, lookup_dictInsert_other _ _ _ _ hne]

/-- **C14 (unknown suffix).** A suffix nobody registered is refused with `NotImplementedError`;
the model's `openWorkbook` has no way to touch a file before the class is found. -/
theorem unknown_suffix_refused (r : Registry) (s : String) (h : lookup s r = none) :
    openWorkbook r s = .notImplemented := by simp [openWorkbook, h]

/-- **C14 (always released).** Whatever the body of the with-block did — any sequence of iterating
sheets and rows and raising at any point — after `__exit__` the workbook holds no handle. -/
theorem exit_releases (w : WB) (ops : List LOp) : (lrun w (ops ++ [.exit])).handles = 0 ∧
    (lrun w (ops ++ [.exit])).closed = true := by
  simp [lrun, List.foldl_append, lstep]

/-- **C14 (double close).** Closing an already closed workbook changes nothing. -/
theorem close_idempotent (w : WB) : lstep (lstep w .close) .close = lstep w .close := rfl

theorem close_after_exit (w : WB) (ops : List LOp) :
    lrun w (ops ++ [.exit, .close]) = lrun w (ops ++ [.exit]) := by
  simp [lrun, List.foldl_append, lstep]

/-! ## the registry over ANY history of registrations (each naming any number of suffixes) -/

/-- one `@file_suffix(*names)` registration: every named suffix now maps to the class, nothing else moves -/
theorem lookup_register (r : Registry) (ss : List String) (c s : String) :
    lookup s (register r ss c) = if ss.contains s then some c else lookup s r := by
  induction ss generalizing r with
  | nil => simp [register]
  | cons a as ih =>
    have h := ih (dictInsert r a c)
    simp only [register, List.foldl_cons] at h ⊢
    rw [h]
    by_cases hs : s ∈ as
    · simp [hs]
    · by_cases ha : a = s
      · subst ha; simp [hs, lookup_dictInsert_self]
      · have hne : (a == s) = false := by simpa using ha
        have hsa : ¬ s = a := fun h => ha h.symm
        simp [hs, hsa, lookup_dictInsert_other _ _ _ _ hne]

/-- a history of registrations on one registry object, oldest first -/
def registerAll (r : Registry) (h : List (List String × String)) : Registry :=
  h.foldl (fun r p => register r p.1 p.2) r

/-- specification: the class of the LAST registration of the history that names the suffix -/
def lastNaming (s : String) : List (List String × String) → Option String
  | [] => none
  | p :: rest =>
    match lastNaming s rest with
    | some c => some c
    | none => if p.1.contains s then some p.2 else none

theorem lookup_registerAll (r : Registry) (h : List (List String × String)) (s : String) :
    lookup s (registerAll r h) = match lastNaming s h with | some c => some c | none => lookup s r := by
  induction h generalizing r with
  | nil => simp [registerAll, lastNaming]
  | cons p rest ih =>
    have h1 := ih (register r p.1 p.2)
    simp only [registerAll, List.foldl_cons] at h1 ⊢
    rw [h1, lastNaming]
    cases hl : lastNaming s rest with
    | some c => simp
    | none => simp only [lookup_register]; split <;> simp_all

/-- **C14 (registry, every history).** After ANY sequence of registrations — each naming any number of suffixes, in any
order, repeated or not — on a registry that started empty, `open_workbook` of a suffix constructs the class of the last
registration that names it, and refuses (`NotImplementedError`) exactly the suffixes no registration names. -/
theorem registry_history (h : List (List String × String)) (s : String) :
    openWorkbook (registerAll [] h) s =
      match lastNaming s h with | some c => .opened c | none => .notImplemented := by
  simp only [openWorkbook, lookup_registerAll]
  cases lastNaming s h <;> simp [lookup]

/-- a registration that does not name the suffix changes nothing for it, wherever it stands in the history -/
theorem unrelated_registration_irrelevant (h₁ h₂ : List (List String × String)) (p : List String × String) (s : String)
    (hp : p.1.contains s = false) :
    openWorkbook (registerAll [] (h₁ ++ p :: h₂)) s = openWorkbook (registerAll [] (h₁ ++ h₂)) s := by
  have key : ∀ h₁ : List (List String × String), lastNaming s (h₁ ++ p :: h₂) = lastNaming s (h₁ ++ h₂) := by
    intro h₁
    induction h₁ with
    | nil => simp only [List.nil_append, lastNaming, hp]; cases lastNaming s h₂ <;> simp
    | cons q qs ih => simp [lastNaming, ih]
  rw [registry_history, registry_history, key]

/-! ## the life cycle over ANY history: once left or closed, and not re-opened, no handle is held -/

theorem released_stays_released (w : WB) (ops : List LOp) (hw : w.handles = 0 ∧ w.closed = true)
    (hno : LOp.openFile ∉ ops) : (lrun w ops).handles = 0 ∧ (lrun w ops).closed = true := by
  induction ops generalizing w with
  | nil => simpa [lrun] using hw
  | cons o os ih =>
    simp only [List.mem_cons, not_or] at hno
    have : (lstep w o).handles = 0 ∧ (lstep w o).closed = true := by
      cases o <;> simp_all [lstep]
    simpa [lrun] using ih (lstep w o) this hno.2

/-- **C14 (always released, every history).** Whatever happens before `__exit__` and whatever is called on the workbook
afterwards (iterating, raising, further `close()` / `__exit__`) short of constructing it anew: no handle is held. -/
theorem exit_releases_forever (w : WB) (before after : List LOp) (hno : LOp.openFile ∉ after) :
    (lrun w (before ++ [.exit] ++ after)).handles = 0 ∧ (lrun w (before ++ [.exit] ++ after)).closed = true := by
  have h := exit_releases w before
  have : lrun w (before ++ [.exit] ++ after) = lrun (lrun w (before ++ [.exit])) after := by
    simp [lrun, List.foldl_append]
  rw [this]
  exact released_stays_released _ after h hno

/-- non-vacuity: the harness's private registry (`.dat .csv` ↦ First, `.csv` ↦ Second, four suffixes ↦ Many) -/
example : openWorkbook (registerAll [] [([".dat", ".csv"], "First"), ([".csv"], "Second"), ([".aa", ".bb", ".cc", ".dd"], "Many")]) ".csv"
    = .opened "Second" := by decide
example : lastNaming ".dat" [([".dat", ".csv"], "First"), ([".csv"], "Second")] = some "First" := by decide
example : (lrun ⟨0, false⟩ ([.openFile, .iterate, .raise] ++ [.exit] ++ [.iterate, .close, .exit])).handles = 0 := by decide

/-- non-vacuity: the module-level registrations of the library -/
def libraryRegistry : Registry :=
  register (register (register (register (register (register [] [".csv"] "CSV_Workbook")
    [".json", ".ndjson", ".jsonnl"] "JSON_Workbook") [".xls"] "XLS_Workbook") [".xlsx"] "XLSX_Workbook")
    [".ods"] "ODS_Workbook") [".numbers"] "Numbers_Workbook"

example : openWorkbook libraryRegistry ".ndjson" = .opened "JSON_Workbook" := by decide
example : openWorkbook libraryRegistry ".txt" = .notImplemented := by decide

end Stingray.Facade
