import Stingray.Model.History
/-!
# C11 — schemas are immutable and results do not depend on what was processed before

In the model a schema document and a loaded schema are *values*, so "loading and using a schema
never changes it" holds by construction; what makes that meaningful is the tie (state inventory
and deep-equality checks on the real objects).  The theorems here are about the process-wide
state: from every reachable state, every operation gives the output it gives in a fresh process.
-/
namespace Stingray.History
open Stingray.Copybook Stingray.Layout

/-- reachable states: the atomic-type set is never modified -/
def Reach (g : G) : Prop := g.atomic = atomic0

theorem reach_g0 : Reach g0 := rfl

theorem reach_step (g : G) (op : Op) (h : Reach g) : Reach (step g op).1 := by
  cases op <;> simpa [step, Reach] using h

/-- **C11 (one step).**  From any two reachable states an operation gives the same output. -/
theorem step_out_independent (g g' : G) (op : Op) (h : Reach g) (h' : Reach g') :
    (step g op).2 = (step g' op).2 := by
  simp only [Reach] at h h'
  cases op <;> simp [step, h, h']

theorem reach_final (g : G) (ops : List Op) (h : Reach g) : Reach (finalState step g ops) := by
  induction ops generalizing g with
  | nil => exact h
  | cons op ops ih => exact ih _ (reach_step g op h)

theorem run_append (st : G → Op → G × Out) (g : G) (a b : List Op) :
    run st g (a ++ b) = run st g a ++ run st (finalState st g a) b := by
  induction a generalizing g with
  | nil => rfl
  | cons op ops ih => simp [run, finalState, ih]

/-- **C11 (any history).**  Whatever was parsed, constructed, loaded or read before — copybook A,
copybook B, standard or extended-vocabulary makers, any number of records — a probe returns
exactly what it returns as the first operation of a fresh process. -/
theorem probe_history_independent (hist : List Op) (probe : Op) :
    (run step g0 (hist ++ [probe])).getLast? = (run step g0 [probe]).getLast? := by
  rw [run_append]
  simp only [run, List.getLast?_append, List.getLast?_singleton, Option.some_or, finalState]
  congr 1
  exact step_out_independent _ _ probe (reach_final g0 hist reach_g0) reach_g0

/-- Parsing the same copybook text always yields the same names. -/
theorem parse_deterministic (g g' : G) (es : List Entry) :
    (step g (.parse es)).2 = (step g' (.parse es)).2 := rfl

/-! ## the pinned commit violated both (regression witnesses, decided by evaluation) -/

def fragment : List Entry :=
  [{ level := 5, name := some "GRP" }, { level := 10, name := none, size := some 2 },
   { level := 10, name := none, size := some 3 }]

/-- **D15.**  A copybook fragment that does not start with an 01: its second parse numbers the
FILLERs 3 and 4. -/
theorem D15_counterexample :
    (run stepOrig g0 [.parse fragment, .parse fragment]) =
      [.names ["GRP", "FILLER-1", "FILLER-2"], .names ["GRP", "FILLER-3", "FILLER-4"]] ∧
    (run step g0 [.parse fragment, .parse fragment]) =
      [.names ["GRP", "FILLER-1", "FILLER-2"], .names ["GRP", "FILLER-1", "FILLER-2"]] := by
  decide

/-- **D16.**  Constructing the extended-vocabulary maker made every later `SchemaMaker` accept
`"type": "decimal"`. -/
theorem D16_counterexample :
    (run stepOrig g0 [.load ["decimal"], .mkExt, .load ["decimal"]]) =
      [.kinds [false], .unit, .kinds [true]] ∧
    (run step g0 [.load ["decimal"], .mkExt, .load ["decimal"]]) =
      [.kinds [false], .unit, .kinds [false]] := by
  decide

end Stingray.History
