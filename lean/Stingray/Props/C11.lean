import Stingray.Model.History
import Stingray.Model.Odo
/-!
# C11 — schemas are immutable and results do not depend on what was processed before

In the model a schema document and a loaded schema are *values*, so "loading and using a schema
never changes it" holds by construction; what makes that meaningful is the tie (state inventory
and deep-equality checks on the real objects).  The theorems here are about the process-wide
state: from every reachable state, every operation gives the output it gives in a fresh process.
-/
namespace Stingray.History
open Stingray.Copybook Stingray.Layout

/-- reachable states: the atomic-type set is never modified -/
def Reach (g : G) : Prop := g.atomic = atomic0

theorem reach_g0 : Reach g0 := rfl

theorem reach_step (g : G) (op : Op) (h : Reach g) : Reach (step g op).1 := by
  cases op <;> simpa [step, Reach] using h

/-- **C11 (one step).**  From any two reachable states an operation gives the same output. -/
theorem step_out_independent (g g' : G) (op : Op) (h : Reach g) (h' : Reach g') :
    (step g op).2 = (step g' op).2 := by
  simp only [Reach] at h h'
  cases op <;> simp [step, h, h']

theorem reach_final (g : G) (ops : List Op) (h : Reach g) : Reach (finalState step g ops) := by
  induction ops generalizing g with
  | nil => exact h
  | cons op ops ih => exact ih _ (reach_step g op h)

theorem run_append (st : G → Op → G × Out) (g : G) (a b : List Op) :
    run st g (a ++ b) = run st g a ++ run st (finalState st g a) b := by
  induction a generalizing g with
  | nil => rfl
  | cons op ops ih => simp [run, finalState, ih]

/-- **C11 (any history).**  Whatever was parsed, constructed, loaded or read before — copybook A,
copybook B, standard or extended-vocabulary makers, any number of records — a probe returns
exactly what it returns as the first operation of a fresh process. -/
theorem probe_history_independent (hist : List Op) (probe : Op) :
    (run step g0 (hist ++ [probe])).getLast? = (run step g0 [probe]).getLast? := by
  rw [run_append]
  simp only [run, List.getLast?_append, List.getLast?_singleton, Option.some_or, finalState]
  congr 1
  exact step_out_independent _ _ probe (reach_final g0 hist reach_g0) reach_g0

/-- Parsing the same copybook text always yields the same names. -/
theorem parse_deterministic (g g' : G) (es : List Entry) :
    (step g (.parse es)).2 = (step g' (.parse es)).2 := rfl

/-! ## a `LocationMaker` object used again: the anchors of earlier records are still in it

`LocationMaker.from_instance` does not empty `self.anchors`; a maker that laid out earlier records walks the next
record with their anchors still present (`pre`).  Every name the walk defines is written again before it is looked
up, so — whenever a fresh maker can lay the record out at all — the re-used maker computes the same sizes and leaves
the same locations under every name of this record. -/
section MakerReuse
open Stingray.Layout

theorem lookupLast_append_of_some (pre anch : Anch) (k : Key) (v : Sch × Nat) (h : lookupLast anch k = some v) :
    lookupLast (pre ++ anch) k = some v := by
  simp only [lookupLast, List.reverse_append, List.find?_append] at h ⊢
  cases hf : List.find? (fun p => p.1 == k) anch.reverse with
  | none => simp [hf] at h
  | some x => simpa [hf] using h

theorem readCounter_stale (decode : String → Inst → Nat) (inst : Inst) (pre anch : Anch) (c : String) (n : Nat)
    (h : readCounter decode inst anch c = some n) : readCounter decode inst (pre ++ anch) c = some n := by
  unfold readCounter at h ⊢
  cases hl : lookupLast anch (.item c) with
  | none => simp [hl] at h
  | some v => rw [lookupLast_append_of_some pre anch _ v hl]; simpa [hl] using h

mutual
theorem walkM_stale (decode : String → Inst → Nat) (inst : Inst) (pre : Anch) :
    ∀ (sch : Sch) (s : Nat) (anch : Anch) (sz : Nat) (out : Anch),
      walkM decode inst sch s anch = some (sz, out) → walkM decode inst sch s (pre ++ anch) = some (sz, pre ++ out)
  | .atomic a sz', s, anch, sz, out, h => by
    simp only [walkM, Option.some.injEq, Prod.mk.injEq] at h ⊢
    obtain ⟨h1, h2⟩ := h
    subst h1 h2; simp
  | .array a (.fixed n) it, s, anch, sz, out, h => by
    simp only [walkM] at h ⊢
    cases hw : walkM decode inst it s anch with
    | none => simp [hw] at h
    | some r =>
      obtain ⟨isz, anch'⟩ := r
      rw [walkM_stale decode inst pre it s anch isz anch' hw]
      simp only [hw, Option.some.injEq, Prod.mk.injEq] at h ⊢
      obtain ⟨h1, h2⟩ := h
      subst h1 h2; simp
  | .array a (.odo c) it, s, anch, sz, out, h => by
    simp only [walkM] at h ⊢
    cases hc : readCounter decode inst anch c with
    | none => simp [hc] at h
    | some n =>
      rw [readCounter_stale decode inst pre anch c n hc]
      cases hw : walkM decode inst it s anch with
      | none => simp [hc, hw] at h
      | some r =>
        obtain ⟨isz, anch'⟩ := r
        rw [walkM_stale decode inst pre it s anch isz anch' hw]
        simp only [hc, hw, Option.some.injEq, Prod.mk.injEq] at h ⊢
        obtain ⟨h1, h2⟩ := h
        subst h1 h2; simp
  | .object a ps, s, anch, sz, out, h => by
    simp only [walkM] at h ⊢
    cases hw : walkProps decode inst ps s anch with
    | none => simp [hw] at h
    | some r =>
      obtain ⟨psz, anch'⟩ := r
      rw [walkProps_stale decode inst pre ps s anch psz anch' hw]
      simp only [hw, Option.some.injEq, Prod.mk.injEq] at h ⊢
      obtain ⟨h1, h2⟩ := h
      subst h1 h2; simp
  | .oneOf a alts, s, anch, sz, out, h => by
    simp only [walkM] at h ⊢
    cases hw : walkAlts decode inst alts s anch with
    | none => simp [hw] at h
    | some r =>
      obtain ⟨asz, anch'⟩ := r
      rw [walkAlts_stale decode inst pre alts s anch asz anch' hw]
      simp only [hw, Option.some.injEq, Prod.mk.injEq] at h ⊢
      obtain ⟨h1, h2⟩ := h
      subst h1 h2; simp
  | .ref t, s, anch, sz, out, h => by
    simp only [walkM, Option.some.injEq, Prod.mk.injEq] at h ⊢
    obtain ⟨h1, h2⟩ := h
    subst h1 h2; simp
theorem walkProps_stale (decode : String → Inst → Nat) (inst : Inst) (pre : Anch) :
    ∀ (ps : List (Key × Sch)) (s : Nat) (anch : Anch) (sz : Nat) (out : Anch),
      walkProps decode inst ps s anch = some (sz, out) → walkProps decode inst ps s (pre ++ anch) = some (sz, pre ++ out)
  | [], s, anch, sz, out, h => by
    simp only [walkProps, Option.some.injEq, Prod.mk.injEq] at h ⊢
    obtain ⟨h1, h2⟩ := h
    subst h1 h2; simp
  | (k, p) :: ps, s, anch, sz, out, h => by
    simp only [walkProps] at h ⊢
    cases hw : walkM decode inst p s anch with
    | none => simp [hw] at h
    | some r =>
      obtain ⟨sz1, anch1⟩ := r
      rw [walkM_stale decode inst pre p s anch sz1 anch1 hw]
      cases hw2 : walkProps decode inst ps (s + sz1) anch1 with
      | none => simp [hw, hw2] at h
      | some r2 =>
        obtain ⟨sz2, anch2⟩ := r2
        simp only [walkProps_stale decode inst pre ps (s + sz1) anch1 sz2 anch2 hw2]
        simp only [hw, hw2, Option.some.injEq, Prod.mk.injEq] at h ⊢
        exact ⟨h.1, by rw [h.2]⟩
theorem walkAlts_stale (decode : String → Inst → Nat) (inst : Inst) (pre : Anch) :
    ∀ (alts : List Sch) (s : Nat) (anch : Anch) (sz : Nat) (out : Anch),
      walkAlts decode inst alts s anch = some (sz, out) → walkAlts decode inst alts s (pre ++ anch) = some (sz, pre ++ out)
  | [], s, anch, sz, out, h => by
    simp only [walkAlts, Option.some.injEq, Prod.mk.injEq] at h ⊢
    obtain ⟨h1, h2⟩ := h
    subst h1 h2; simp
  | a :: as, s, anch, sz, out, h => by
    simp only [walkAlts] at h ⊢
    cases hw : walkM decode inst a s anch with
    | none => simp [hw] at h
    | some r =>
      obtain ⟨sz1, anch1⟩ := r
      rw [walkM_stale decode inst pre a s anch sz1 anch1 hw]
      cases hw2 : walkAlts decode inst as s anch1 with
      | none => simp [hw, hw2] at h
      | some r2 =>
        obtain ⟨sz2, anch2⟩ := r2
        simp only [walkAlts_stale decode inst pre as s anch1 sz2 anch2 hw2]
        simp only [hw, hw2, Option.some.injEq, Prod.mk.injEq] at h ⊢
        exact ⟨h.1, by rw [h.2]⟩
end

/-- **C11 (a re-used maker, any history of records).**  Whatever records ONE `LocationMaker` laid out before (its anchors
`st` are arbitrary), every record that a fresh maker can lay out gets the size the fresh maker gives it. -/
theorem maker_reuse_sizes (decode : String → Inst → Nat) (sch : Sch) (st : Anch) (recs : List Inst)
    (hok : ∀ r ∈ recs, (walkM decode r sch 0 []).isSome) :
    (makerRun decode sch st recs).2 = recs.map fun r => rowLength decode sch r := by
  induction recs generalizing st with
  | nil => simp [makerRun]
  | cons r rs ih =>
    have hr := hok r (by simp)
    cases hw : walkM decode r sch 0 [] with
    | none => simp [hw] at hr
    | some p =>
      obtain ⟨sz, out⟩ := p
      have h2 := walkM_stale decode r st sch 0 [] sz out hw
      simp only [List.append_nil] at h2
      simp only [makerRun, h2, List.map_cons, rowLength, hw, Option.map_some]
      rw [ih (st ++ out) (fun r' hr' => hok r' (by simp [hr']))]
      simp [rowLength]

/-- … and under every name the record's own walk defines, the re-used maker holds the location a fresh maker holds
(`lookupLast`: the dict keeps the last assignment). -/
theorem maker_reuse_lookup (decode : String → Inst → Nat) (sch : Sch) (st : Anch) (r : Inst) (sz : Nat) (out : Anch)
    (k : Key) (v : Sch × Nat) (hw : walkM decode r sch 0 [] = some (sz, out)) (hk : lookupLast out k = some v) :
    ∃ out', walkM decode r sch 0 st = some (sz, out') ∧ lookupLast out' k = some v := by
  have h2 := walkM_stale decode r st sch 0 [] sz out hw
  simp only [List.append_nil] at h2
  exact ⟨st ++ out, h2, lookupLast_append_of_some st out k v hk⟩

/-- non-vacuity: `05 N PIC 9. 05 T PIC XX OCCURS 0 TO 5 DEPENDING ON N. 05 Z PIC X.` — one maker lays out a record
with N = 2, then one with N = 0, then one with N = 1: sizes 6, 2, 4, the sizes fresh makers give; and the hypotheses of
`maker_reuse_lookup` are met (`Z` of the N = 0 record is at 1 although the maker still holds `Z` at 5 from the first). -/
def reuseSample : Item :=
  .group "R" none [(.elem "N" none 1, []), (.elem "T" (some (.odo "N")) 2, []), (.elem "Z" none 1, [])]
def reuseDecode : String → Inst → Nat := fun _ bytes => bytes.foldl (fun a b => a * 10 + b % 16) 0

example : (makerRun reuseDecode (emit reuseSample) [] [[0xF2, 1, 2, 3, 4, 9], [0xF0, 9], [0xF1, 5, 6, 9]]).2
    = [some 6, some 2, some 4] := by decide
example : ∃ sz out, walkM reuseDecode [0xF0, 9] (emit reuseSample) 0 [] = some (sz, out) ∧
    (lookupLast out (.item "Z")).map (·.2) = some 1 := ⟨_, _, rfl, by decide⟩
example : ∃ sz out, walkM reuseDecode [0xF2, 1, 2, 3, 4, 9] (emit reuseSample) 0 [] = some (sz, out) ∧
    (lookupLast out (.item "Z")).map (·.2) = some 5 := ⟨_, _, rfl, by decide⟩

end MakerReuse

/-! ## the pinned commit violated both (regression witnesses, decided by evaluation) -/

def fragment : List Entry :=
  [{ level := 5, name := some "GRP" }, { level := 10, name := none, size := some 2 },
   { level := 10, name := none, size := some 3 }]

/-- **D15.**  A copybook fragment that does not start with an 01: its second parse numbers the
FILLERs 3 and 4. -/
theorem D15_counterexample :
    (run stepOrig g0 [.parse fragment, .parse fragment]) =
      [.names ["GRP", "FILLER-1", "FILLER-2"], .names ["GRP", "FILLER-3", "FILLER-4"]] ∧
    (run step g0 [.parse fragment, .parse fragment]) =
      [.names ["GRP", "FILLER-1", "FILLER-2"], .names ["GRP", "FILLER-1", "FILLER-2"]] := by
  decide

/-- **D16.**  Constructing the extended-vocabulary maker made every later `SchemaMaker` accept
`"type": "decimal"`. -/
theorem D16_counterexample :
    (run stepOrig g0 [.load ["decimal"], .mkExt, .load ["decimal"]]) =
      [.kinds [false], .unit, .kinds [true]] ∧
    (run step g0 [.load ["decimal"], .mkExt, .load ["decimal"]]) =
      [.kinds [false], .unit, .kinds [false]] := by
  decide

end Stingray.History
