import Stingray.Model.Json
/-!
# C15 — JSON Schema is mirrored one-to-one; JSON instances navigate like plain indexing

* `walk_mirror` — a successful load yields, node for node, the mirror of the document: same
  nesting, same property order, the node kind determined by the keywords with the precedence
  `oneOf` > `$ref` > atomic `type` > array > object (the declarative relation `Mirror`).
* `walk_docOf` — every loaded node gives back the document it was made from, unchanged.
* `walk_cache` — the name cache after loading is exactly the document's keys in post-order;
  `refs_resolve_unique` — hence, when the keys are unique, every `$ref` (resolved on the way or
  fixed up afterwards) and every `maxItemsDependsOn` points at the one node bearing that name;
  `dangling_is_ValueError` — a `$ref` naming no key is refused with `ValueError`.
* `dnav_is_indexing` — navigating a JSON instance by names and indices returns exactly what plain
  indexing returns, with the same error, whenever the schema has a property/items for each step;
  `name_on_nonobject`, `index_on_nonarray` — refused with `TypeError`.
-/
namespace Stingray.Json

def docOf : LSch → Doc
  | .atomic d => d
  | .array d _ _ => d
  | .object d _ => d
  | .oneOf d _ => d
  | .ref d _ _ => d

/-! ## the declarative mirror relation -/

mutual
inductive Mirror (atomic : List String) : LSch → Doc → Prop
  | oneOf (a : Attrs) (o : Doc) (os items : List Doc) (props : List (String × Doc)) (alts : List LSch) :
      MirrorL atomic alts (o :: os) → Mirror atomic (.oneOf (.mk a (o :: os) items props) alts) (.mk a (o :: os) items props)
  | ref (a : Attrs) (items : List Doc) (props : List (String × Doc)) (uri name : String) (t : Option Path) :
      a.ref = some uri → refName uri = some name →
      Mirror atomic (.ref (.mk a [] items props) name t) (.mk a [] items props)
  | atomic (a : Attrs) (items : List Doc) (props : List (String × Doc)) (ty : String) :
      a.ref = none → a.type = some ty → atomic.contains ty = true →
      Mirror atomic (.atomic (.mk a [] items props)) (.mk a [] items props)
  | array (a : Attrs) (it : Doc) (its : List Doc) (props : List (String × Doc)) (ty : String) (ss : List LSch)
      (dep : Option (String × Path)) :
      a.ref = none → a.type = some ty → atomic.contains ty = false → (ty == "array" || a.hasItems) = true →
      MirrorL atomic ss (it :: its) → Mirror atomic (.array (.mk a [] (it :: its) props) ss dep) (.mk a [] (it :: its) props)
  | object (a : Attrs) (items : List Doc) (props : List (String × Doc)) (ty : String) (ps : List (String × LSch)) :
      a.ref = none → a.type = some ty → atomic.contains ty = false → (ty == "array" || a.hasItems) = false →
      (ty == "object" || a.hasProps) = true →
      MirrorP atomic ps props → Mirror atomic (.object (.mk a [] items props) ps) (.mk a [] items props)
inductive MirrorL (atomic : List String) : List LSch → List Doc → Prop
  | nil : MirrorL atomic [] []
  | cons (s : LSch) (d : Doc) (ss : List LSch) (ds : List Doc) :
      Mirror atomic s d → MirrorL atomic ss ds → MirrorL atomic (s :: ss) (d :: ds)
inductive MirrorP (atomic : List String) : List (String × LSch) → List (String × Doc) → Prop
  | nil : MirrorP atomic [] []
  | cons (k : String) (s : LSch) (d : Doc) (ss : List (String × LSch)) (ds : List (String × Doc)) :
      Mirror atomic s d → MirrorP atomic ss ds → MirrorP atomic ((k, s) :: ss) ((k, d) :: ds)
end

/-- a tiny helper: unpack the `finish` step of `walk` -/
theorem finish_ok {a : Attrs} {p : Path} {s s' : LSch} {st st' : WState} {isRef : Bool}
    (h : (if (isRef && a.anchor.isNone) = true then (Except.ok (s, st) : Except JErr (LSch × WState))
          else .ok (s, { st with cache := st.cache ++ [(cacheKey a, p)] })) = .ok (s', st')) :
    s' = s ∧ st'.fixups = st.fixups ∧
      st'.cache = st.cache ++ (if (isRef && a.anchor.isNone) = true then [] else [(cacheKey a, p)]) := by
  split at h
  · rename_i hc
    injection h with h; injection h with h1 h2; subst h1; subst h2; simp [hc]
  · rename_i hc
    injection h with h; injection h with h1 h2; subst h1; subst h2; simp [hc]

mutual
/-- **C15 (one-to-one mirror).** -/
theorem walk_mirror (atomic : List String) : ∀ (d : Doc) (p : Path) (st st' : WState) (s : LSch),
    walk atomic d p st = .ok (s, st') → Mirror atomic s d
  | .mk a oneOf items props, p, st, st', s, h => by
    unfold walk at h
    simp only at h
    split at h
    · -- oneOf
      rename_i o os
      split at h
      · cases h
      · rename_i alts st1 hl
        obtain ⟨rfl, _, _⟩ := finish_ok h
        exact Mirror.oneOf a o os items props alts (walkList_mirror atomic (o :: os) p 0 st st1 alts hl)
    · split at h
      · rename_i uri huri
        split at h
        · cases h
        · rename_i name hname
          split at h
          · rename_i t _
            obtain ⟨rfl, _, _⟩ := finish_ok h
            exact Mirror.ref a items props uri name (some t) huri hname
          · obtain ⟨rfl, _, _⟩ := finish_ok h
            exact Mirror.ref a items props uri name none huri hname
      · rename_i href
        split at h
        · cases h
        · rename_i ty hty
          split at h
          · rename_i hat
            obtain ⟨rfl, _, _⟩ := finish_ok h
            exact Mirror.atomic a items props ty href hty hat
          · rename_i hat
            split at h
            · rename_i harr
              split at h
              · cases h
              · cases h
              · rename_i its rest st1 hl
                have hm := walkList_mirror atomic items p 0 st st1 (its :: rest) hl
                cases items with
                | nil => cases hm
                | cons it itl =>
                  split at h
                  · obtain ⟨rfl, _, _⟩ := finish_ok h
                    exact Mirror.array a it itl props ty (its :: rest) none href hty (by simpa using hat) harr hm
                  · split at h
                    · cases h
                    · split at h
                      · obtain ⟨rfl, _, _⟩ := finish_ok h
                        exact Mirror.array a it itl props ty (its :: rest) _ href hty (by simpa using hat) harr hm
                      · cases h
            · rename_i harr
              split at h
              · rename_i hobj
                split at h
                · cases h
                · rename_i ps st1 hl
                  obtain ⟨rfl, _, _⟩ := finish_ok h
                  exact Mirror.object a items props ty ps href hty (by simpa using hat) (by simpa using harr) hobj
                    (walkProps_mirror atomic props p 0 st st1 ps hl)
              · cases h
theorem walkList_mirror (atomic : List String) : ∀ (ds : List Doc) (p : Path) (i : Nat) (st st' : WState) (ss : List LSch),
    walkList atomic ds p i st = .ok (ss, st') → MirrorL atomic ss ds
  | [], _, _, _, _, ss, h => by simp [walkList] at h; rw [h.1]; exact MirrorL.nil
  | d :: ds, p, i, st, st', ss, h => by
    simp only [walkList] at h
    split at h
    · cases h
    · rename_i s st1 h1
      split at h
      · cases h
      · rename_i ss' st2 h2
        injection h with h; injection h with ha hb; subst ha
        exact MirrorL.cons s d ss' ds (walk_mirror atomic d _ st st1 s h1) (walkList_mirror atomic ds p (i + 1) st1 st2 ss' h2)
theorem walkProps_mirror (atomic : List String) : ∀ (ds : List (String × Doc)) (p : Path) (i : Nat) (st st' : WState)
    (ss : List (String × LSch)), walkProps atomic ds p i st = .ok (ss, st') → MirrorP atomic ss ds
  | [], _, _, _, _, ss, h => by simp [walkProps] at h; rw [h.1]; exact MirrorP.nil
  | (k, d) :: ds, p, i, st, st', ss, h => by
    simp only [walkProps] at h
    split at h
    · cases h
    · rename_i s st1 h1
      split at h
      · cases h
      · rename_i ss' st2 h2
        injection h with h; injection h with ha hb; subst ha
        exact MirrorP.cons k s d ss' ds (walk_mirror atomic d _ st st1 s h1) (walkProps_mirror atomic ds p (i + 1) st1 st2 ss' h2)
end

/-- **C15 (the original document is given back unchanged).** -/
theorem mirror_docOf (atomic : List String) (s : LSch) (d : Doc) (h : Mirror atomic s d) : docOf s = d := by
  cases h <;> rfl

theorem walk_docOf (atomic : List String) (d : Doc) (p : Path) (st st' : WState) (s : LSch)
    (h : walk atomic d p st = .ok (s, st')) : docOf s = d :=
  mirror_docOf atomic s d (walk_mirror atomic d p st st' s h)

/-! ## the name cache and reference resolution -/

mutual
/-- the (name, path) pairs a loaded schema contributes to the name cache, in post-order -/
def keysOf : LSch → Path → Cache
  | .atomic d, p => [(cacheKey d.attrs, p)]
  | .array d its _, p => keysOfL its p 0 ++ [(cacheKey d.attrs, p)]
  | .object d ps, p => keysOfP ps p 0 ++ [(cacheKey d.attrs, p)]
  | .oneOf d alts, p => keysOfL alts p 0 ++ [(cacheKey d.attrs, p)]
  | .ref d _ _, p => if d.attrs.anchor.isNone then [] else [(cacheKey d.attrs, p)]
def keysOfL : List LSch → Path → Nat → Cache
  | [], _, _ => []
  | s :: ss, p, i => keysOf s (p ++ [i]) ++ keysOfL ss p (i + 1)
def keysOfP : List (String × LSch) → Path → Nat → Cache
  | [], _, _ => []
  | (_, s) :: ss, p, i => keysOf s (p ++ [i]) ++ keysOfP ss p (i + 1)
end

mutual
/-- resolved references of a loaded schema: (name, target) -/
def resolved : LSch → List (String × Path)
  | .atomic _ => []
  | .array _ its dep => resolvedL its ++ (match dep with | some x => [x] | none => [])
  | .object _ ps => resolvedP ps
  | .oneOf _ alts => resolvedL alts
  | .ref _ name (some t) => [(name, t)]
  | .ref _ _ none => []
def resolvedL : List LSch → List (String × Path)
  | [] => []
  | s :: ss => resolved s ++ resolvedL ss
def resolvedP : List (String × LSch) → List (String × Path)
  | [] => []
  | (_, s) :: ss => resolved s ++ resolvedP ss
end

theorem cacheGet_mem (c : Cache) (k : String) (t : Path) (h : cacheGet c k = some t) : (k, t) ∈ c := by
  simp only [cacheGet, Option.map_eq_some_iff] at h
  obtain ⟨⟨k', t'⟩, hf, ht⟩ := h
  simp only at ht; subst ht
  have := List.find?_some hf
  simp only [beq_iff_eq] at this; subst this
  exact List.mem_reverse.mp (List.mem_of_find?_eq_some hf)

mutual
/-- **The name cache after loading is the schema's keys in post-order**, the fix-up list only grows,
and every reference resolved on the way was found in the cache. -/
theorem walk_cache (atomic : List String) : ∀ (d : Doc) (p : Path) (st st' : WState) (s : LSch),
    walk atomic d p st = .ok (s, st') →
    st'.cache = st.cache ++ keysOf s p ∧ (∀ x ∈ resolved s, x ∈ st'.cache) ∧
      (∃ fx, st'.fixups = st.fixups ++ fx)
  | .mk a oneOf items props, p, st, st', s, h => by
    unfold walk at h
    simp only at h
    split at h
    · rename_i o os
      split at h
      · cases h
      · rename_i alts st1 hl
        obtain ⟨rfl, hfx, hc⟩ := finish_ok h
        have ⟨h1, h2, fx, h3⟩ := walkList_cache atomic (o :: os) p 0 st st1 alts hl
        refine ⟨?_, ?_, fx, by rw [hfx, h3]⟩
        · simp [hc, h1, keysOf, Doc.attrs, List.append_assoc]
        · intro x hx; simp only [resolved] at hx
          rw [hc]; exact List.mem_append_left _ (h2 x hx)
    · split at h
      · rename_i uri huri
        split at h
        · cases h
        · rename_i name hname
          split at h
          · rename_i t ht
            obtain ⟨rfl, hfx, hc⟩ := finish_ok h
            refine ⟨?_, ?_, [], by simp [hfx]⟩
            · rw [hc]; simp [keysOf, Doc.attrs]
            · intro x hx; simp only [resolved, List.mem_singleton] at hx; subst hx
              rw [hc]; exact List.mem_append_left _ (cacheGet_mem _ _ _ ht)
          · obtain ⟨rfl, hfx, hc⟩ := finish_ok h
            refine ⟨?_, ?_, [(p, name)], by simp [hfx]⟩
            · rw [hc]; simp [keysOf, Doc.attrs]
            · intro x hx; simp [resolved] at hx
      · split at h
        · cases h
        · rename_i ty hty
          split at h
          · obtain ⟨rfl, hfx, hc⟩ := finish_ok h
            exact ⟨by simp [hc, keysOf, Doc.attrs], by simp [resolved], [], by simp [hfx]⟩
          · split at h
            · split at h
              · cases h
              · cases h
              · rename_i its rest st1 hl
                have ⟨h1, h2, fx, h3⟩ := walkList_cache atomic items p 0 st st1 (its :: rest) hl
                split at h
                · obtain ⟨rfl, hfx, hc⟩ := finish_ok h
                  refine ⟨?_, ?_, fx, by rw [hfx, h3]⟩
                  · simp [hc, h1, keysOf, Doc.attrs, List.append_assoc]
                  · intro x hx; simp only [resolved, List.append_nil] at hx
                    rw [hc]; exact List.mem_append_left _ (h2 x hx)
                · split at h
                  · cases h
                  · split at h
                    · rename_i t ht
                      obtain ⟨rfl, hfx, hc⟩ := finish_ok h
                      refine ⟨?_, ?_, fx, by rw [hfx, h3]⟩
                      · simp [hc, h1, keysOf, Doc.attrs, List.append_assoc]
                      · intro x hx; simp only [resolved, List.mem_append, List.mem_singleton] at hx
                        rw [hc]
                        rcases hx with hx | rfl
                        · exact List.mem_append_left _ (h2 x hx)
                        · exact List.mem_append_left _ (cacheGet_mem _ _ _ ht)
                    · cases h
            · split at h
              · split at h
                · cases h
                · rename_i ps st1 hl
                  obtain ⟨rfl, hfx, hc⟩ := finish_ok h
                  have ⟨h1, h2, fx, h3⟩ := walkProps_cache atomic props p 0 st st1 ps hl
                  refine ⟨?_, ?_, fx, by rw [hfx, h3]⟩
                  · simp [hc, h1, keysOf, Doc.attrs, List.append_assoc]
                  · intro x hx; simp only [resolved] at hx
                    rw [hc]; exact List.mem_append_left _ (h2 x hx)
              · cases h
theorem walkList_cache (atomic : List String) : ∀ (ds : List Doc) (p : Path) (i : Nat) (st st' : WState) (ss : List LSch),
    walkList atomic ds p i st = .ok (ss, st') →
    st'.cache = st.cache ++ keysOfL ss p i ∧ (∀ x ∈ resolvedL ss, x ∈ st'.cache) ∧
      (∃ fx, st'.fixups = st.fixups ++ fx)
  | [], _, _, st, st', ss, h => by
    simp [walkList] at h; obtain ⟨rfl, rfl⟩ := h
    exact ⟨by simp [keysOfL], by simp [resolvedL], [], by simp⟩
  | d :: ds, p, i, st, st', ss, h => by
    simp only [walkList] at h
    split at h
    · cases h
    · rename_i s st1 h1
      split at h
      · cases h
      · rename_i ss' st2 h2
        injection h with h; injection h with ha hb; subst ha; subst hb
        have ⟨a1, a2, fx1, a3⟩ := walk_cache atomic d _ st st1 s h1
        have ⟨b1, b2, fx2, b3⟩ := walkList_cache atomic ds p (i + 1) st1 st2 ss' h2
        refine ⟨by simp [b1, a1, keysOfL, List.append_assoc], ?_, fx1 ++ fx2, by simp [b3, a3, List.append_assoc]⟩
        intro x hx; simp only [resolvedL, List.mem_append] at hx
        rcases hx with hx | hx
        · rw [b1]; exact List.mem_append_left _ (a2 x hx)
        · exact b2 x hx
theorem walkProps_cache (atomic : List String) : ∀ (ds : List (String × Doc)) (p : Path) (i : Nat) (st st' : WState)
    (ss : List (String × LSch)), walkProps atomic ds p i st = .ok (ss, st') →
    st'.cache = st.cache ++ keysOfP ss p i ∧ (∀ x ∈ resolvedP ss, x ∈ st'.cache) ∧
      (∃ fx, st'.fixups = st.fixups ++ fx)
  | [], _, _, st, st', ss, h => by
    simp [walkProps] at h; obtain ⟨rfl, rfl⟩ := h
    exact ⟨by simp [keysOfP], by simp [resolvedP], [], by simp⟩
  | (k, d) :: ds, p, i, st, st', ss, h => by
    simp only [walkProps] at h
    split at h
    · cases h
    · rename_i s st1 h1
      split at h
      · cases h
      · rename_i ss' st2 h2
        injection h with h; injection h with ha hb; subst ha; subst hb
        have ⟨a1, a2, fx1, a3⟩ := walk_cache atomic d _ st st1 s h1
        have ⟨b1, b2, fx2, b3⟩ := walkProps_cache atomic ds p (i + 1) st1 st2 ss' h2
        refine ⟨by simp [b1, a1, keysOfP, List.append_assoc], ?_, fx1 ++ fx2, by simp [b3, a3, List.append_assoc]⟩
        intro x hx; simp only [resolvedP, List.mem_append] at hx
        rcases hx with hx | hx
        · rw [b1]; exact List.mem_append_left _ (a2 x hx)
        · exact b2 x hx
end

theorem resolveFixups_mem (c : Cache) : ∀ (fx : List (Path × String)) (r : List (Path × Path)),
    resolveFixups c fx = .ok r → ∀ x ∈ r, ∃ name, (x.1, name) ∈ fx ∧ (name, x.2) ∈ c
  | [], r, h => by simp [resolveFixups] at h; subst h; intro x hx; cases hx
  | (p, name) :: rest, r, h => by
    simp only [resolveFixups] at h
    split at h
    · cases h
    · rename_i t ht
      split at h
      · cases h
      · rename_i r' hr
        injection h with h; subst h
        intro x hx
        rcases List.mem_cons.mp hx with rfl | hx
        · exact ⟨name, by simp, cacheGet_mem _ _ _ ht⟩
        · obtain ⟨n, h1, h2⟩ := resolveFixups_mem c rest r' hr x hx
          exact ⟨n, by simp [h1], h2⟩

theorem unique_of_nodup (c : Cache) (hnd : (c.map (·.1)).Nodup) (k : String) (t t' : Path)
    (h : (k, t) ∈ c) (h' : (k, t') ∈ c) : t = t' := by
  induction c with
  | nil => cases h
  | cons x xs ih =>
    simp only [List.map_cons, List.nodup_cons] at hnd
    have key : ∀ u, (k, u) ∈ xs → k ∈ xs.map (·.1) := fun u hu => List.mem_map.mpr ⟨(k, u), hu, rfl⟩
    rcases List.mem_cons.mp h with h1 | h1
    · rcases List.mem_cons.mp h' with h2 | h2
      · rw [← h1] at h2; injection h2 with _ h3; exact h3.symm
      · rw [← h1] at hnd; exact absurd (key t' h2) hnd.1
    · rcases List.mem_cons.mp h' with h2 | h2
      · rw [← h2] at hnd; exact absurd (key t h1) hnd.1
      · exact ih hnd.2 h1 h2

/-- **C15 (every reference points at the node bearing that name).**  If the names of the loaded
schema (its `$anchor`s, or titles of un-anchored nodes) are unique, then every `$ref` resolved while
walking, every `maxItemsDependsOn`, and every forward `$ref` fixed up by `resolve` has as target
the path of the one node registered under that name. -/
theorem refs_resolve_unique (atomic : List String) (d : Doc) (s : LSch) (fx : List (Path × Path))
    (h : fromJson atomic d = .ok (s, fx)) (hnd : ((keysOf s []).map (·.1)).Nodup) (name : String) (t : Path)
    (hkey : (name, t) ∈ keysOf s []) :
    ∀ t', (name, t') ∈ resolved s → t' = t := by
  unfold fromJson at h
  split at h
  · cases h
  · rename_i s0 st hw
    split at h
    · cases h
    · rename_i fx0 hr
      have hs : s0 = s := by injection h with h; injection h with h1 _
      subst hs
      have ⟨hc, hres, _⟩ := walk_cache atomic d [] {} st s0 hw
      simp only [List.nil_append] at hc
      intro t' ht'
      have := hres _ ht'
      rw [hc] at this
      exact unique_of_nodup _ hnd name t' t this hkey

/-- Forward references: each fixed-up target is the node registered under the referenced name. -/
theorem fixups_resolve_unique (atomic : List String) (d : Doc) (s : LSch) (fx : List (Path × Path))
    (h : fromJson atomic d = .ok (s, fx)) (hnd : ((keysOf s []).map (·.1)).Nodup) :
    ∀ x ∈ fx, ∃ name, (name, x.2) ∈ keysOf s [] ∧ ∀ t, (name, t) ∈ keysOf s [] → t = x.2 := by
  unfold fromJson at h
  split at h
  · cases h
  · rename_i s0 st hw
    split at h
    · cases h
    · rename_i fx0 hr
      have hs : s0 = s ∧ fx0 = fx := by injection h with h; injection h with h1 h2; exact ⟨h1, h2⟩
      obtain ⟨hs1, hs2⟩ := hs
      subst hs1; subst hs2
      have ⟨hc, _, _⟩ := walk_cache atomic d [] {} st s0 hw
      simp only [List.nil_append] at hc
      intro x hx
      obtain ⟨name, _, hm⟩ := resolveFixups_mem st.cache st.fixups fx0 hr x hx
      rw [hc] at hm
      exact ⟨name, hm, fun t ht => unique_of_nodup _ hnd name t x.2 ht hm⟩

/-- **C15 (dangling reference).** If some fix-up name is not a key of the final cache, loading
fails with `ValueError`. -/
theorem dangling_is_ValueError (c : Cache) (fx : List (Path × String)) (p : Path) (name : String)
    (hm : (p, name) ∈ fx) (hno : cacheGet c name = none) : resolveFixups c fx = .error .valueError := by
  induction fx with
  | nil => cases hm
  | cons x rest ih =>
    obtain ⟨p', n'⟩ := x
    simp only [resolveFixups]
    rcases List.mem_cons.mp hm with h | h
    · injection h with h1 h2; subst h1; subst h2; simp [hno]
    · split
      · rfl
      · rw [ih h]

/-! ## DNav is plain indexing -/

/-- the (dereferenced) schema has a sub-schema for every step of the path — what "the instance
conforms to the schema" provides -/
def Supports (rs : LSch → Option LSch) : LSch → List Step → Prop
  | _, [] => True
  | s, .name k :: rest => ∃ d ps sub, rs s = some (.object d ps) ∧ lookup k ps = some sub ∧ Supports rs sub rest
  | s, .idx _ :: rest => ∃ d it its dep, rs s = some (.array d (it :: its) dep) ∧ Supports rs it rest

/-- **C15 (DNav = plain indexing).** Along any path the schema supports (references followed),
`DNav` returns exactly what indexing the document returns — the same value, or the same error. -/
theorem dnav_is_indexing (rs : LSch → Option LSch) : ∀ (s : LSch) (v : JVal) (path : List Step),
    Supports rs s path → dnav rs (s, v) path = pyIndexPath v path
  | _, _, [], _ => rfl
  | s, v, .name k :: rest, h => by
    simp only [Supports] at h
    obtain ⟨d, ps, sub, hr, hl, hs⟩ := h
    simp only [dnav, dnavStep, hr, hl, pyIndexPath]
    cases hp : pyIndex v (.name k) with
    | error e => rfl
    | ok v' => simpa using dnav_is_indexing rs sub v' rest hs
  | s, v, .idx i :: rest, h => by
    simp only [Supports] at h
    obtain ⟨d, it, its, dep, hr, hs⟩ := h
    simp only [dnav, dnavStep, hr, pyIndexPath]
    cases hp : pyIndex v (.idx i) with
    | error e => rfl
    | ok v' => simpa using dnav_is_indexing rs it v' rest hs

/-- a name on anything but an object schema, an index on anything but an array schema: `TypeError` -/
theorem name_on_nonobject (rs : LSch → Option LSch) (s s' : LSch) (v : JVal) (k : String) (hr : rs s = some s')
    (h : ∀ d ps, s' ≠ .object d ps) : dnavStep rs (s, v) (.name k) = .error .typeError := by
  simp only [dnavStep, hr]
  cases s' <;> simp_all

theorem index_on_nonarray (rs : LSch → Option LSch) (s s' : LSch) (v : JVal) (i : Nat) (hr : rs s = some s')
    (h : ∀ d its dep, s' ≠ .array d its dep) : dnavStep rs (s, v) (.idx i) = .error .typeError := by
  simp only [dnavStep, hr]
  cases s' with
  | array d its dep => exact absurd rfl (h d its dep)
  | _ => rfl

end Stingray.Json
