import Stingray.Model.Value
import Stingray.Model.Odo
import Stingray.Props.C06
/-!
# C10 — navigation is coherent and lazy: a part of the value is the value of the part

* **Laziness as non-interference** (`value_local`): the value obtained at a location depends only
  on the bytes in `touched` — for an elementary item exactly its own byte range
  (`touched_atomic`) — so undecodable bytes elsewhere can neither raise nor change the result;
  a REDEFINES alternative reads only its own elementary items (`touched_oneOf_first`).
* **Navigation decodes nothing**: `nav` has no instance argument at all; with DEPENDING ON tables
  the only bytes read are the counters' (`layout_depends_only_on_counters`).
* **Coherence**: the value of an object is the list of its properties' values in schema order
  (`value_object`), the entry under a name is the value at the location `name()` navigates to
  (`name_commutes`), likewise for indices (`index_commutes`), a `$ref` property's value is its
  referent's (`ref_value`), `Row.values()` is the top-level values in order (`row_values`), an
  out-of-range index is refused (`index_out_of_range_refused`).
-/
namespace Stingray.Layout

variable {V : Type} (env : Env) (dec : Key → Bytes → Except String V) (anch : Anch)

def AgreeOn (inst inst' : Bytes) (rs : List (Nat × Nat)) : Prop :=
  ∀ r ∈ rs, slice inst r.1 r.2 = slice inst' r.1 r.2

theorem AgreeOn.append_left {inst inst' : Bytes} {a b : List (Nat × Nat)} (h : AgreeOn inst inst' (a ++ b)) :
    AgreeOn inst inst' a := fun r hr => h r (List.mem_append_left _ hr)
theorem AgreeOn.append_right {inst inst' : Bytes} {a b : List (Nat × Nat)} (h : AgreeOn inst inst' (a ++ b)) :
    AgreeOn inst inst' b := fun r hr => h r (List.mem_append_right _ hr)

/-! ## laziness -/

theorem evalProps_congr {α : Type} (ev ev' : Sch → Nat → Except String α) (tv : Sch → Nat → List (Nat × Nat))
    (inst inst' : Bytes)
    (hev : ∀ p s, AgreeOn inst inst' (tv p s) → ev p s = ev' p s) :
    ∀ (ps : List (Key × Sch)) (s0 : Nat), AgreeOn inst inst' (touchProps env tv ps s0) →
      evalProps env ev ps s0 = evalProps env ev' ps s0
  | [], _, _ => rfl
  | (k, p) :: ps, s0, h => by
    simp only [touchProps] at h
    simp only [evalProps]
    rw [hev p s0 h.append_left, evalProps_congr ev ev' tv inst inst' hev ps _ h.append_right]

/-- **C10 (a read touches only its own bytes).**  Two records that agree on the byte ranges
`touched` lists give the same result (value or error) at that location. -/
theorem value_local (inst inst' : Bytes) : ∀ (f : Nat) (sch : Sch) (s0 off : Nat),
    AgreeOn inst inst' (touched env anch f sch s0 off) →
    valueAt env dec anch inst f sch s0 off = valueAt env dec anch inst' f sch s0 off
  | 0, _, _, _, _ => rfl
  | f + 1, .atomic a sz, s0, off, h => by
    simp only [valueAt]
    rw [h (s0 + off, sz) (by simp [touched])]
  | f + 1, .array a n it, s0, off, h => by
    simp only [valueAt]
    congr 2
    apply List.map_congr_left
    intro i hi
    apply value_local inst inst' f it s0 _
    intro r hr
    apply h r
    simp only [touched, List.mem_flatMap]
    exact ⟨i, hi, hr⟩
  | f + 1, .object a ps, s0, off, h => by
    simp only [valueAt]
    rw [evalProps_congr env _ _ (fun p s => touched env anch f p s off) inst inst'
      (fun p s hp => value_local inst inst' f p s off hp) ps s0 (by simpa [touched] using h)]
  | f + 1, .oneOf a [], s0, off, _ => rfl
  | f + 1, .oneOf a (x :: xs), s0, off, h => by
    simp only [valueAt]
    exact value_local inst inst' f x s0 off (by simpa [touched] using h)
  | f + 1, .ref t, s0, off, h => by
    simp only [valueAt]
    cases hl : lookupLast anch t with
    | none => rfl
    | some v =>
      obtain ⟨sch', s0'⟩ := v
      simp only
      exact value_local inst inst' f sch' s0' off (by simpa [touched, hl] using h)

/-- Reading an elementary item touches exactly its own byte range. -/
theorem touched_atomic (f : Nat) (a : Key) (sz s0 off : Nat) :
    touched env anch (f + 1) (.atomic a sz) s0 off = [(s0 + off, sz)] := rfl

/-- Hence: corrupt bytes anywhere outside an elementary item's own range do not affect reading it. -/
theorem atomic_unaffected (inst inst' : Bytes) (f : Nat) (a : Key) (sz s0 off : Nat)
    (h : slice inst (s0 + off) sz = slice inst' (s0 + off) sz) :
    valueAt env dec anch inst (f + 1) (.atomic a sz) s0 off
      = valueAt env dec anch inst' (f + 1) (.atomic a sz) s0 off :=
  value_local env dec anch inst inst' (f + 1) (.atomic a sz) s0 off (by
    intro r hr; simp [touched] at hr; subst hr; exact h)

/-- The value of a REDEFINES `oneOf` is its first alternative's; the other alternatives are not read. -/
theorem touched_oneOf_first (f : Nat) (a : Key) (x : Sch) (xs : List Sch) (s0 off : Nat) :
    touched env anch (f + 1) (.oneOf a (x :: xs)) s0 off = touched env anch f x s0 off := rfl

/-- **Navigation decodes nothing.**  The stateful reader's layout depends on the record only
through the DEPENDING ON counters: two records holding the same counter values are laid out
identically, whatever else they contain (in particular undecodable bytes in other fields). -/
theorem layout_depends_only_on_counters (decode : String → Inst → Nat) (inst inst' : Inst) (sch : Sch)
    (h1 : okM decode env inst sch 0 []) (h2 : okM decode env inst' sch 0 []) :
    walkM decode inst sch 0 [] = walkM decode inst' sch 0 [] := by
  rw [walkM_eq decode env inst sch 0 [] h1, walkM_eq decode env inst' sch 0 [] h2]

/-! ## coherence -/

def lookupKey {α : Type} (k : Key) : List (Key × α) → Option α
  | [] => none
  | (k', v) :: rest => if k' = k then some v else lookupKey k rest

/-- The value of a group is the list of its properties' values, in schema order. -/
theorem value_object (inst : Bytes) (f : Nat) (a : Option Key) (ps : List (Key × Sch)) (s0 off : Nat) :
    valueAt env dec anch inst (f + 1) (.object a ps) s0 off
      = (evalProps env (fun p s => valueAt env dec anch inst f p s off) ps s0).map Val.obj := rfl

theorem evalProps_keys {α : Type} (ev : Sch → Nat → Except String α) :
    ∀ (ps : List (Key × Sch)) (s0 : Nat) (vs : List (Key × α)),
    evalProps env ev ps s0 = .ok vs → vs.map (·.1) = ps.map (·.1)
  | [], _, vs, h => by simp [evalProps] at h; subst h; rfl
  | (k, p) :: ps, s0, vs, h => by
    simp only [evalProps] at h
    split at h
    · cases h
    · split at h
      · cases h
      · rename_i v _ vs' hvs
        injection h with h; subst h
        simp [evalProps_keys ev ps _ vs' hvs]

/-- **C10 (name commutes).**  In the value of a group, the entry under property `k` is exactly
the value at the location where `findProp` (the lookup `NDNav.name(k)` performs) finds `k`. -/
theorem evalProps_lookup {α : Type} (ev : Sch → Nat → Except String α) :
    ∀ (ps : List (Key × Sch)) (s0 : Nat) (vs : List (Key × α)) (k : Key) (p : Sch) (sk : Nat),
    evalProps env ev ps s0 = .ok vs → findProp env ps s0 k = some (p, sk) →
    (lookupKey k vs).map Except.ok = some (ev p sk)
  | [], _, _, _, _, _, _, hf => by simp [findProp] at hf
  | (k', p') :: ps, s0, vs, k, p, sk, h, hf => by
    simp only [evalProps] at h
    split at h
    · cases h
    · rename_i v hv
      split at h
      · cases h
      · rename_i vs' hvs
        injection h with h; subst h
        simp only [findProp] at hf
        by_cases hk : k' = k
        · simp only [hk, if_true, Option.some.injEq, Prod.mk.injEq] at hf
          obtain ⟨rfl, rfl⟩ := hf
          simp [lookupKey, hk, hv]
        · simp only [hk, if_false] at hf
          simp only [lookupKey, hk, if_false]
          exact evalProps_lookup ev ps _ vs' k p sk hvs hf

theorem name_commutes (inst : Bytes) (f : Nat) (a : Option Key) (ps : List (Key × Sch)) (s0 off : Nat)
    (vs : List (Key × Val V)) (k : Key) (p : Sch) (sk : Nat)
    (h : valueAt env dec anch inst (f + 1) (.object a ps) s0 off = .ok (.obj vs))
    (hf : findProp env ps s0 k = some (p, sk)) :
    (lookupKey k vs).map Except.ok = some (valueAt env dec anch inst f p sk off) := by
  rw [value_object] at h
  cases he : evalProps env (fun p s => valueAt env dec anch inst f p s off) ps s0 with
  | error e => simp [he, Except.map] at h
  | ok ws =>
    simp [he, Except.map] at h
    subst h
    exact evalProps_lookup env _ ps s0 ws k p sk he hf

/-- A `$ref` property (the COBOL-visible name of a REDEFINES participant) has the value of the
location it refers to — which is where `name()` lands through `.referent`. -/
theorem ref_value (inst : Bytes) (f : Nat) (t : Key) (s0 off : Nat) :
    valueAt env dec anch inst (f + 1) (.ref t) s0 off =
      match deref anch (.ref t, s0) with
      | some (sch', s0') => valueAt env dec anch inst f sch' s0' off
      | none => .error "KeyError" := by
  simp only [valueAt, deref]
  cases lookupLast anch t with
  | none => rfl
  | some v => rfl

theorem sequence_get {α : Type} : ∀ (xs : List (Except String α)) (vs : List α) (i : Nat),
    sequence xs = .ok vs → i < xs.length → xs[i]? = (vs[i]?).map Except.ok
  | [], vs, i, _, hi => by simp at hi
  | x :: xs, vs, i, h, hi => by
    simp only [sequence] at h
    split at h
    · cases h
    · rename_i v
      split at h
      · cases h
      · rename_i vs' hvs
        injection h with h; subst h
        cases i with
        | zero => simp
        | succ i => simpa using sequence_get xs vs' i hvs (by simpa using hi)

/-- **C10 (index commutes).**  Element `i` of the value of a table is the value of the item
schema evaluated at offset `i · item_size` — the bytes `index(i)` navigates to. -/
theorem index_commutes (inst : Bytes) (f : Nat) (a : Option Key) (n : Count) (it : Sch) (s0 off i : Nat)
    (vs : List (Val V))
    (h : valueAt env dec anch inst (f + 1) (.array a n it) s0 off = .ok (.arr vs)) (hi : i < cnt env n) :
    (vs[i]?).map Except.ok = some (valueAt env dec anch inst f it s0 (off + size env it * i)) := by
  simp only [valueAt] at h
  cases hs : sequence ((List.range (cnt env n)).map fun i => valueAt env dec anch inst f it s0 (off + size env it * i)) with
  | error e => simp [hs, Except.map] at h
  | ok ws =>
    simp [hs, Except.map] at h
    subst h
    have := sequence_get _ ws i hs (by simpa using hi)
    simp [hi] at this
    exact this.symm

/-- **C10 (index bound).** -/
theorem index_out_of_range_refused (a : Option Key) (n : Count) (it : Sch) (s i : Nat) (h : cnt env n ≤ i) :
    navStep env anch (.array a n it) s (.idx i) = none := by
  have : ¬ (i < cnt env n) := by omega
  simp [navStep, this]

/-- `Row.values()` is the list of the values of the top-level properties, in schema order. -/
theorem row_values (inst : Bytes) (f : Nat) (a : Option Key) (ps : List (Key × Sch)) (vs : List (Key × Val V))
    (h : valueAt env dec anch inst (f + 1) (.object a ps) 0 0 = .ok (.obj vs)) :
    rowValues env dec anch inst f (.object a ps) = .ok (vs.map (·.2)) := by
  rw [value_object] at h
  cases he : evalProps env (fun p s => valueAt env dec anch inst f p s 0) ps 0 with
  | error e => simp [he, Except.map] at h
  | ok ws =>
    simp [he, Except.map] at h
    subst h
    simp [rowValues, he, Except.map]

end Stingray.Layout
