import Stingray.Model.Decode
import Stingray.Model.Facade
import Stingray.Props.C02
/-!
# C04 — a field's width is what its decoder needs, and is the same wherever reported

Numeric pictures `S?9(m)V9(n)` are the element lists `numElts s m n` (what both scanners produce
for them; checked exhaustively by the correspondence).  `specWidth` is the COBOL storage rule.
-/
namespace Stingray.Decode
open Stingray.Picture

/-- The parsed form of `S?9(m)V9(n)`. -/
def numElts (s : Bool) (m n : Nat) : List Elt :=
  (if s then [Elt.sign ['S']] else []) ++
  (if m = 0 then [] else [Elt.digit (List.replicate m '9')]) ++
  (if n = 0 then [] else [Elt.dec 'V', Elt.digit (List.replicate n '9')])

/-- The COBOL storage rule (the project counts the `S` of a DISPLAY item as a position). -/
def specWidth (f : Fam) (s : Bool) (m n : Nat) : Nat :=
  match f with
  | .display => (if s then 1 else 0) + m + n
  | .packed => (m + n + 1 + 1) / 2           -- digits plus a sign nibble, two per byte, rounded up
  | .binary => if m + n ≤ 4 then 2 else if m + n ≤ 9 then 4 else 8
  | .float4 => 4
  | .float8 => 8

theorem size_numElts (s : Bool) (m n : Nat) :
    size (numElts s m n) = (if s then 1 else 0) + m + n := by
  cases s <;> by_cases hm : m = 0 <;> by_cases hn : n = 0 <;>
    simp [numElts, size, eltSize, hm, hn] <;> omega

theorem groups_numElts (s : Bool) (m n : Nat) :
    (groups (numElts s m n)).whole.length = m ∧ (groups (numElts s m n)).frac.length = n := by
  cases s <;> by_cases hm : m = 0 <;> by_cases hn : n = 0 <;>
    simp [numElts, groups, groupsGo, hm, hn]

/-- **C04 (DISPLAY, packed, COMP-1, COMP-2).** The size used for layout is the storage rule's. -/
theorem width_display_packed_float (u : Usage13) (s : Bool) (m n : Nat) (h : 1 ≤ m + n)
    (hf : u.fam ≠ .binary) :
    calcsize u (numElts s m n) = some (specWidth u.fam s m n) := by
  have hs := size_numElts s m n
  have hg := groups_numElts s m n
  have hne : size (numElts s m n) ≠ 0 := by rw [hs]; split <;> omega
  simp only [calcsize, hne, if_false]
  cases hfam : u.fam <;> simp [specWidth, hs, hg.1, hg.2] <;> first | omega | simp_all

/-- The bytes a mainframe stores for a packed value are exactly as many as the layout reserves. -/
theorem packed_stored_length (ds : List Nat) (sn : Nat) :
    (encPacked ds sn).length = (ds.length + 2) / 2 := by
  have key : ∀ ns : List Nat, (packPairs ns).length = ns.length / 2 := by
    intro ns
    induction ns using packPairs.induct with
    | case1 hi lo rest ih => simp [packPairs, ih]; omega
    | case2 t hne =>
      match t, hne with
      | [], _ => simp [packPairs]
      | [x], _ => simp [packPairs]
      | a :: b :: r, hne => exact absurd rfl (hne a b r)
  simp only [encPacked, key, List.length_append, List.length_singleton]
  split <;> simp <;> omega

/-- **C04 (binary), partial.** For unsigned binary items without fraction digits the layout size,
the decoder's width and the storage rule coincide … -/
theorem width_binary_partial (u : Usage13) (m : Nat) (h1 : 1 ≤ m) (h18 : m ≤ 18) (hf : u.fam = .binary) :
    calcsize u (numElts false m 0) = some (specWidth .binary false m 0) ∧
    binWidthByDigits (groups (numElts false m 0)).whole.length = some (specWidth .binary false m 0) := by
  have hs := size_numElts false m 0
  have hg := groups_numElts false m 0
  have hne : size (numElts false m 0) ≠ 0 := by rw [hs]; simp; omega
  simp only [calcsize, hne, if_false, hf, hg.1, hs, binSizeBySize, binWidthByDigits, specWidth]
  constructor <;> (simp; repeat' split) <;> first | rfl | omega

/-- … but the full statement is false of the code as it is (findings D7, D6: the layout counts the
`S` and the fraction digits, the decoder only the integer digits): `S9(4) COMP` is laid out as
4 bytes and decoded from 2. -/
theorem width_binary_counterexample :
    calcsize .comp (numElts true 4 0) = some 4 ∧
    binWidthByDigits (groups (numElts true 4 0)).whole.length = some 2 := by decide

theorem width_binary_counterexample_V :
    calcsize .comp (numElts false 3 2) = some 4 ∧
    binWidthByDigits (groups (numElts false 3 2)).whole.length = some 2 := by decide

/-- **C04 (same everywhere).** The native-bytes reader sizes DISPLAY and (unsigned, V-less) binary
items exactly as the EBCDIC reader, and the text reader sizes DISPLAY items the same. -/
theorem struct_agrees_display (s : Bool) (m n : Nat) (h : 1 ≤ m + n) :
    structCalcsize .display (numElts s m n) = calcsize .display (numElts s m n) ∧
    some (textCalcsize (numElts s m n)) = calcsize .display (numElts s m n) := by
  have hs := size_numElts s m n
  have hne : size (numElts s m n) ≠ 0 := by rw [hs]; split <;> omega
  simp [structCalcsize, textCalcsize, calcsize, Usage13.fam, hne]

theorem struct_agrees_binary_partial (u : Usage13) (m : Nat) (h1 : 1 ≤ m) (h18 : m ≤ 18)
    (hf : u.fam = .binary) :
    structCalcsize u (numElts false m 0) = calcsize u (numElts false m 0) := by
  have := width_binary_partial u m h1 h18 hf
  simp only [structCalcsize, hf, this.1, this.2]

/-- Non-vacuity. -/
example : calcsize .packedDecimal (numElts true 11 2) = some 7 := by decide
example : calcsize .comp3 (numElts false 4 0) = some 3 := by decide     -- D8: was 2

end Stingray.Decode

/-! ## the computed record length is that of the layout bound NOW

`COBOL_EBCDIC_Sheet.set_schema` (model: `Facade.EFile.setSchema`).  Without an explicit `lrecl` the length a sheet works with is the end
of the layout just bound -- whatever layouts were bound to this workbook before, on this sheet or another (header / detail files). -/
namespace Stingray.Facade

theorem EFile.run_fst (f : EFile) (ls : List Nat) : (f.run ls).1 = f := by
  induction ls generalizing f with
  | nil => rfl
  | cons l ls ih => simp [EFile.run, EFile.setSchema, ih]

/-- **C04 (computed record length).** No explicit lrecl: after ANY history of earlier bindings the sheet's length is the layout's. -/
theorem EFile.computed_length_is_current_layout (f : EFile) (h : f.given = none) (history : List Nat) (len : Nat) :
    ((f.run history).1.setSchema len).2 = len := by
  simp [EFile.run_fst, EFile.setSchema, h]

/-- every call of a history answers as it would on a fresh workbook -/
theorem EFile.run_pointwise (f : EFile) (ls : List Nat) : (f.run ls).2 = ls.map fun l => (f.setSchema l).2 := by
  induction ls generalizing f with
  | nil => rfl
  | cons l ls ih => simp [EFile.run, EFile.setSchema, ih]

/-- an explicit (non-zero) lrecl is used for every layout -/
theorem EFile.explicit_lrecl_wins (n : Nat) (hn : n ≠ 0) (history : List Nat) (len : Nat) :
    (((EFile.mk (some n)).run history).1.setSchema len).2 = n := by
  simp [EFile.run_fst, EFile.setSchema, EFile.given, hn]

example : ((EFile.mk none).run [4, 12, 12, 7]).2 = [4, 12, 12, 7] := by decide
example : ((EFile.mk (some 0)).run [4, 12]).2 = [4, 12] := by decide
example : ((EFile.mk (some 80)).run [4, 12]).2 = [80, 80] := by decide

end Stingray.Facade
