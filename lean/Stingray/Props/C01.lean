import Stingray.Model.Layout
/-!
# C01 — every named COBOL item is read from the byte range the record layout assigns it

Specification side: `specNav` is the COBOL layout rule — the children of a group lie end to end in
declaration order, `OCCURS n` lays `n` copies end to end, a REDEFINES item begins where the item it
redefines begins and adds no length, and the record length is the end of the last item.
Theorem `C01_layout`: for every well-formed item tree, every navigation path (by name, by index,
through REDEFINES alternatives) over the *generated schema*, through the library's per-record
anchors map, lands on exactly the range the rule assigns; `C01_length`: the record length is the
rule's total.  The elementary size is a parameter of the tree, so the theorem covers EBCDIC and
native text alike; OCCURS DEPENDING ON counts come from `env` (C06).
-/
namespace Stingray.Layout

/-! ## the COBOL layout rule (specification) -/
mutual
def single (env : Env) : Item → Nat
  | .elem _ _ sz => sz
  | .group _ _ cs => singleC env cs
def singleC (env : Env) : List (Item × List Item) → Nat
  | [] => 0
  | (b, _) :: cs => single env b * occN env b.occ + singleC env cs
end
def total (env : Env) (it : Item) : Nat := single env it * occN env it.occ

mutual
def specNav (env : Env) : Item → Nat → List Step → Option (Nat × Nat)
  | it, s, [] => some (s, s + total env it)
  | .elem _ none _, _, _ :: _ => none
  | .elem n (some k) sz, s, .idx i :: rest =>
      if i < cnt env k then
        match rest with
        | [] => some (s + sz * i, s + sz * i + sz)
        | [.name m] => if n = m then some (s + sz * i, s + sz * i + sz) else none
        | _ => none
      else none
  | .elem _ (some _) _, _, .name _ :: _ => none
  | .group _ none cs, s, .name m :: rest => specMember env cs s m rest
  | .group _ none _, _, .idx _ :: _ => none
  | .group _ (some k) cs, s, .idx i :: rest =>
      if i < cnt env k then
        match rest with
        | [] => some (s + singleC env cs * i, s + singleC env cs * i + singleC env cs)
        | .name m :: rest' => specMember env cs (s + singleC env cs * i) m rest'
        | .idx _ :: _ => none
      else none
  | .group _ (some _) _, _, .name _ :: _ => none
def specMember (env : Env) : List (Item × List Item) → Nat → String → List Step → Option (Nat × Nat)
  | [], _, _, _ => none
  | (b, rs) :: cs, s, m, rest =>
      if b.name = m then specNav env b s rest
      else if rs.any (fun r => r.name = m) then specRedefs env rs s m rest
      else specMember env cs (s + total env b) m rest
def specRedefs (env : Env) : List Item → Nat → String → List Step → Option (Nat × Nat)
  | [], _, _, _ => none
  | r :: rs, s, m, rest => if r.name = m then specNav env r s rest else specRedefs env rs s m rest
end

/-- a REDEFINES participant may not be an elementary OCCURS item (finding D34) -/
def participantOk : Item → Prop
  | .elem _ (some _) _ => False
  | _ => True

/-! Well-formedness: every redefiner is no longer than the item it redefines, and REDEFINES
participants are not elementary OCCURS items. -/
mutual
def WF (env : Env) : Item → Prop
  | .elem _ _ _ => True
  | .group _ _ cs => WFc env cs
def WFc (env : Env) : List (Item × List Item) → Prop
  | [] => True
  | (b, rs) :: cs => WF env b ∧ (rs ≠ [] → participantOk b) ∧ WFl env (total env b) rs ∧ WFc env cs
def WFl (env : Env) (bound : Nat) : List Item → Prop
  | [] => True
  | r :: rs => WF env r ∧ participantOk r ∧ total env r ≤ bound ∧ WFl env bound rs
end

variable {env : Env}

/-! ## sizes -/
theorem sizeProps_append (a b : List (Key × Sch)) : sizeProps env (a ++ b) = sizeProps env a + sizeProps env b := by
  induction a with
  | nil => simp [sizeProps]
  | cons x xs ih => obtain ⟨n, s⟩ := x; simp [sizeProps, ih]; omega

theorem sizeProps_refList (rs : List Item) : sizeProps env (refList rs) = 0 := by
  induction rs with
  | nil => simp [refList, sizeProps]
  | cons r rs ih => simp [refList, sizeProps, size, ih]

mutual
theorem size_emit : ∀ (it : Item), WF env it → size env (emit it) = total env it
  | .elem n none sz, _ => by simp [emit, size, total, single, Item.occ, occN]
  | .elem n (some k) sz, _ => by simp [emit, size, sizeProps, total, single, Item.occ, occN]
  | .group n none cs, h => by
    simp only [emit, size, total, single, Item.occ, occN, Nat.mul_one]
    exact size_clusters cs (by simpa [WF] using h)
  | .group n (some k) cs, h => by
    simp only [emit, size, total, single, Item.occ, occN]
    rw [size_clusters cs (by simpa [WF] using h)]
theorem size_clusters : ∀ (cs : List (Item × List Item)), WFc env cs → sizeProps env (emitClusters cs) = singleC env cs
  | [], _ => by simp [emitClusters, sizeProps, singleC]
  | (b, rs) :: cs, h => by
    simp only [WFc] at h
    obtain ⟨hb, _, hrs, hcs⟩ := h
    simp only [emitClusters, singleC, sizeProps_append]
    rw [size_clusters cs hcs]
    have hbt := size_emit b hb
    simp only [total] at hbt
    cases rs with
    | nil => simp [sizeProps, hbt]
    | cons r rs' =>
      simp only [sizeProps, size, maxAlts, sizeProps_refList]
      have := max_list (r :: rs') (total env b) hrs
      simp only [total] at this
      omega
theorem max_list : ∀ (rs : List Item) (bound : Nat), WFl env bound rs → maxAlts env (emitList rs) ≤ bound
  | [], _, _ => by simp [emitList, maxAlts]
  | r :: rs, bound, h => by
    simp only [WFl] at h
    obtain ⟨hr, _, hle, hrest⟩ := h
    simp only [emitList, maxAlts]
    have := max_list rs bound hrest
    rw [size_emit r hr]
    omega
end

theorem size_oneOf_cluster (b : Item) (r : Item) (rs : List Item) (hb : WF env b) (hrs : WFl env (total env b) (r :: rs)) :
    size env (Sch.oneOf (.redef b.name) (emit b :: emitList (r :: rs))) = total env b := by
  have := max_list (r :: rs) (total env b) hrs
  simp only [size, maxAlts, size_emit b hb]
  omega

/-! ## sub-schemas reachable without crossing an array, and their anchors env -/
mutual
def subs (env : Env) : Sch → Nat → List (Sch × Nat)
  | .object a ps, s => (.object a ps, s) :: subsProps env ps s
  | .oneOf a alts, s => (.oneOf a alts, s) :: subsAlts env alts s
  | .atomic a sz, s => [(.atomic a sz, s)]
  | .array a n it, s => [(.array a n it, s)]
  | .ref t, s => [(.ref t, s)]
def subsProps (env : Env) : List (Key × Sch) → Nat → List (Sch × Nat)
  | [], _ => []
  | (_, p) :: ps, s => subs env p s ++ subsProps env ps (s + size env p)
def subsAlts (env : Env) : List Sch → Nat → List (Sch × Nat)
  | [], _ => []
  | a :: as, s => subs env a s ++ subsAlts env as s
end

theorem self_mem_subs (c : Sch) (s : Nat) : (c, s) ∈ subs env c s := by
  cases c <;> simp [subs]

mutual
theorem anch_sublist : ∀ (root : Sch) (rs : Nat) (c : Sch) (cs : Nat),
    (c, cs) ∈ subs env root rs → List.Sublist (anchors env c cs) (anchors env root rs)
  | .atomic a sz, rs, c, cs, h => by
    simp only [subs, List.mem_singleton, Prod.mk.injEq] at h; obtain ⟨rfl, rfl⟩ := h; exact List.Sublist.refl _
  | .array a n it, rs, c, cs, h => by
    simp only [subs, List.mem_singleton, Prod.mk.injEq] at h; obtain ⟨rfl, rfl⟩ := h; exact List.Sublist.refl _
  | .ref t, rs, c, cs, h => by
    simp only [subs, List.mem_singleton, Prod.mk.injEq] at h; obtain ⟨rfl, rfl⟩ := h; exact List.Sublist.refl _
  | .object a ps, rs, c, cs, h => by
    simp only [subs, List.mem_cons, Prod.mk.injEq] at h
    rcases h with ⟨rfl, rfl⟩ | h
    · exact List.Sublist.refl _
    · simp only [anchors]
      exact (anch_sublist_props ps rs c cs h).trans (List.sublist_append_left _ _)
  | .oneOf a alts, rs, c, cs, h => by
    simp only [subs, List.mem_cons, Prod.mk.injEq] at h
    rcases h with ⟨rfl, rfl⟩ | h
    · exact List.Sublist.refl _
    · simp only [anchors]
      exact (anch_sublist_alts alts rs c cs h).trans (List.sublist_append_left _ _)
theorem anch_sublist_props : ∀ (ps : List (Key × Sch)) (rs : Nat) (c : Sch) (cs : Nat),
    (c, cs) ∈ subsProps env ps rs → List.Sublist (anchors env c cs) (anchorsProps env ps rs)
  | [], _, _, _, h => by simp [subsProps] at h
  | (k, p) :: ps, rs, c, cs, h => by
    simp only [subsProps, List.mem_append] at h
    simp only [anchorsProps]
    rcases h with h | h
    · exact (anch_sublist p rs c cs h).trans (List.sublist_append_left _ _)
    · exact (anch_sublist_props ps _ c cs h).trans (List.sublist_append_right _ _)
theorem anch_sublist_alts : ∀ (alts : List Sch) (rs : Nat) (c : Sch) (cs : Nat),
    (c, cs) ∈ subsAlts env alts rs → List.Sublist (anchors env c cs) (anchorsAlts env alts rs)
  | [], _, _, _, h => by simp [subsAlts] at h
  | a :: as, rs, c, cs, h => by
    simp only [subsAlts, List.mem_append] at h
    simp only [anchorsAlts]
    rcases h with h | h
    · exact (anch_sublist a rs c cs h).trans (List.sublist_append_left _ _)
    · exact (anch_sublist_alts as rs c cs h).trans (List.sublist_append_right _ _)
end

mutual
theorem subs_trans : ∀ (root : Sch) (rs : Nat) (c : Sch) (cs : Nat),
    (c, cs) ∈ subs env root rs → ∀ x ∈ subs env c cs, x ∈ subs env root rs
  | .atomic a sz, rs, c, cs, h => by
    simp only [subs, List.mem_singleton, Prod.mk.injEq] at h; obtain ⟨rfl, rfl⟩ := h; exact fun x hx => hx
  | .array a n it, rs, c, cs, h => by
    simp only [subs, List.mem_singleton, Prod.mk.injEq] at h; obtain ⟨rfl, rfl⟩ := h; exact fun x hx => hx
  | .ref t, rs, c, cs, h => by
    simp only [subs, List.mem_singleton, Prod.mk.injEq] at h; obtain ⟨rfl, rfl⟩ := h; exact fun x hx => hx
  | .object a ps, rs, c, cs, h => by
    simp only [subs, List.mem_cons, Prod.mk.injEq] at h
    rcases h with ⟨rfl, rfl⟩ | h
    · exact fun x hx => hx
    · intro x hx
      simp only [subs, List.mem_cons]
      exact Or.inr (subs_trans_props ps rs c cs h x hx)
  | .oneOf a alts, rs, c, cs, h => by
    simp only [subs, List.mem_cons, Prod.mk.injEq] at h
    rcases h with ⟨rfl, rfl⟩ | h
    · exact fun x hx => hx
    · intro x hx
      simp only [subs, List.mem_cons]
      exact Or.inr (subs_trans_alts alts rs c cs h x hx)
theorem subs_trans_props : ∀ (ps : List (Key × Sch)) (rs : Nat) (c : Sch) (cs : Nat),
    (c, cs) ∈ subsProps env ps rs → ∀ x ∈ subs env c cs, x ∈ subsProps env ps rs
  | [], _, _, _, h => by simp [subsProps] at h
  | (k, p) :: ps, rs, c, cs, h => by
    simp only [subsProps, List.mem_append] at h ⊢
    intro x hx
    rcases h with h | h
    · exact Or.inl (subs_trans p rs c cs h x hx)
    · exact Or.inr (subs_trans_props ps _ c cs h x hx)
theorem subs_trans_alts : ∀ (alts : List Sch) (rs : Nat) (c : Sch) (cs : Nat),
    (c, cs) ∈ subsAlts env alts rs → ∀ x ∈ subs env c cs, x ∈ subsAlts env alts rs
  | [], _, _, _, h => by simp [subsAlts] at h
  | a :: as, rs, c, cs, h => by
    simp only [subsAlts, List.mem_append] at h ⊢
    intro x hx
    rcases h with h | h
    · exact Or.inl (subs_trans a rs c cs h x hx)
    · exact Or.inr (subs_trans_alts as _ c cs h x hx)
end

/-! ## last-wins lookup under unique keys -/

theorem lookupLast_of_mem (l : Anch) (k : Key) (v : Sch × Nat) (hm : (k, v) ∈ l) (hnd : (keys l).Nodup) :
    lookupLast l k = some v := by
  induction l with
  | nil => simp at hm
  | cons x xs ih =>
    obtain ⟨k', v'⟩ := x
    simp only [keys, List.map_cons, List.nodup_cons] at hnd
    obtain ⟨hnot, hnd'⟩ := hnd
    simp only [lookupLast, List.reverse_cons, List.find?_append]
    rcases List.mem_cons.mp hm with h | h
    · injection h with h1 h2
      subst h1; subst h2
      have : xs.reverse.find? (fun p => p.1 == k) = none := by
        rw [List.find?_eq_none]
        intro p hp
        have hp' : p ∈ xs := List.mem_reverse.mp hp
        simp only [beq_iff_eq]
        intro heq
        exact hnot (by rw [← heq]; exact List.mem_map_of_mem (f := (·.1)) hp')
      simp [this]
    · have := ih h hnd'
      simp only [lookupLast] at this
      cases hf : xs.reverse.find? (fun p => p.1 == k) with
      | none => simp [hf] at this
      | some w => simp [hf] at this ⊢; exact this

/-! ## keys do not depend on the start offset -/
mutual
theorem keys_anchors : ∀ (c : Sch) (s s' : Nat), keys (anchors env c s) = keys (anchors env c s')
  | .atomic a sz, s, s' => by simp [anchors, keys]
  | .ref t, s, s' => by simp [anchors, keys]
  | .array a n it, s, s' => by
    have := keys_anchors it s s'
    cases a <;> simp_all [anchors, keys]
  | .object a ps, s, s' => by
    have := keys_props ps s s'
    cases a <;> simp_all [anchors, keys]
  | .oneOf a alts, s, s' => by
    have := keys_alts alts s s'
    simp_all [anchors, keys]
theorem keys_props : ∀ (ps : List (Key × Sch)) (s s' : Nat), keys (anchorsProps env ps s) = keys (anchorsProps env ps s')
  | [], _, _ => by simp [anchorsProps]
  | (k, p) :: ps, s, s' => by
    have h1 := keys_anchors p s s'
    have h2 := keys_props ps (s + size env p) (s' + size env p)
    simp_all [anchorsProps, keys]
theorem keys_alts : ∀ (alts : List Sch) (s s' : Nat), keys (anchorsAlts env alts s) = keys (anchorsAlts env alts s')
  | [], _, _ => by simp [anchorsAlts]
  | a :: as, s, s' => by
    have h1 := keys_anchors a s s'
    have h2 := keys_alts as s s'
    simp_all [anchorsAlts, keys]
end

theorem nodup_of_sub (root : Sch) (rs : Nat) (c : Sch) (cs : Nat) (h : (c, cs) ∈ subs env root rs)
    (hnd : (keys (anchors env root rs)).Nodup) : (keys (anchors env c cs)).Nodup :=
  List.Sublist.nodup ((anch_sublist root rs c cs h).map _) hnd

theorem nodup_items (a : Option Key) (n : Count) (it : Sch) (s s' : Nat)
    (hnd : (keys (anchors env (.array a n it) s)).Nodup) : (keys (anchors env it s')).Nodup := by
  rw [keys_anchors it s' s]
  have : List.Sublist (anchors env it s) (anchors env (.array a n it) s) := by
    simp only [anchors]; exact List.sublist_append_left _ _
  exact List.Sublist.nodup (this.map _) hnd

/-! ## navigation lemmas -/
def cont (env : Env) (anch : Anch) (rest : List Step) (x : Option (Sch × Nat)) : Option (Nat × Nat) :=
  match x.bind (deref anch) with
  | some v => nav env anch v.1 v.2 rest
  | none => none

theorem nav_name_object (anch : Anch) (a : Option Key) (ps : List (Key × Sch)) (s : Nat) (m : String) (rest : List Step) :
    nav env anch (.object a ps) s (.name m :: rest) = cont env anch rest (findProp env ps s (.item m)) := by
  simp only [nav, navStep, cont]
  cases (findProp env ps s (Key.item m)).bind (deref anch) <;> simp

theorem nav_idx_array (anch : Anch) (a : Option Key) (n : Count) (it : Sch) (s i : Nat) (rest : List Step) :
    nav env anch (.array a n it) s (.idx i :: rest) =
      if i < cnt env n then nav env (anchors env it (s + size env it * i)) it (s + size env it * i) rest else none := by
  by_cases h : i < cnt env n <;> simp [nav, navStep, h]

theorem nav_name_array (anch : Anch) (a : Option Key) (n : Count) (it : Sch) (s : Nat) (m : String) (rest : List Step) :
    nav env anch (.array a n it) s (.name m :: rest) = none := by simp [nav, navStep]
theorem nav_idx_object (anch : Anch) (a : Option Key) (ps : List (Key × Sch)) (s i : Nat) (rest : List Step) :
    nav env anch (.object a ps) s (.idx i :: rest) = none := by simp [nav, navStep]
theorem nav_atomic (anch : Anch) (a : Key) (sz s : Nat) (p : Step) (rest : List Step) :
    nav env anch (.atomic a sz) s (p :: rest) = none := by cases p <;> simp [nav, navStep]
theorem nav_nil (anch : Anch) (c : Sch) (s : Nat) : nav env anch c s [] = some (s, s + size env c) := rfl

theorem deref_emit (anch : Anch) (it : Item) (s : Nat) : deref anch (emit it, s) = some (emit it, s) := by
  match it with
  | .elem n none sz => simp [emit, deref]
  | .elem n (some k) sz => simp [emit, deref]
  | .group n none cs => simp [emit, deref]
  | .group n (some k) cs => simp [emit, deref]

theorem self_anchor (it : Item) (s : Nat) (h : participantOk it) :
    (Key.item it.name, (emit it, s)) ∈ anchors env (emit it) s := by
  match it, h with
  | .elem n none sz, _ => simp [emit, anchors, Item.name]
  | .group n none cs, _ => simp [emit, anchors, Item.name]
  | .group n (some k) cs, _ => simp [emit, anchors, Item.name]

theorem lookup_participant (root : Sch) (rs : Nat) (it : Item) (s : Nat) (hp : participantOk it)
    (hsub : (emit it, s) ∈ subs env root rs) (hnd : (keys (anchors env root rs)).Nodup) :
    lookupLast (anchors env root rs) (.item it.name) = some (emit it, s) :=
  lookupLast_of_mem _ _ _ ((anch_sublist root rs _ _ hsub).subset (self_anchor it s hp)) hnd

theorem subsProps_refList_skip (rl : List Item) (tail : List (Key × Sch)) (o : Nat) (x : Sch × Nat)
    (hx : x ∈ subsProps env tail o) : x ∈ subsProps env (refList rl ++ tail) o := by
  induction rl with
  | nil => simpa [refList] using hx
  | cons r rl ih =>
    simp only [refList, List.cons_append, subsProps, size, Nat.add_zero, List.mem_append]
    exact Or.inr ih

theorem any_cons_false {r : Item} {rl : List Item} {m : String}
    (h : (r :: rl).any (fun r => decide (r.name = m)) = false) : r.name ≠ m ∧ rl.any (fun r => decide (r.name = m)) = false := by
  simp only [List.any_cons, Bool.or_eq_false_iff, decide_eq_false_iff_not] at h
  exact h

/-! ## main theorem: navigation over the generated schema = the COBOL layout rule -/
mutual
theorem nav_emit : ∀ (it : Item) (root : Sch) (rs s : Nat) (path : List Step),
    WF env it → (keys (anchors env root rs)).Nodup → (emit it, s) ∈ subs env root rs →
    nav env (anchors env root rs) (emit it) s path = specNav env it s path
  | .elem n none sz, root, rs, s, path, _, _, _ => by
    cases path with
    | nil => simp [nav, specNav, emit, size, total, single, Item.occ, occN]
    | cons p ps => simp [nav_atomic, specNav, emit]
  | .elem n (some k) sz, root, rs, s, path, _, _, _ => by
    cases path with
    | nil => simp [nav, specNav, emit, size, sizeProps, total, single, Item.occ, occN]
    | cons p ps =>
      cases p with
      | name m => simp [nav_name_array, specNav, emit]
      | idx i =>
        simp only [emit, nav_idx_array, specNav, size, sizeProps, Nat.add_zero]
        split
        · cases ps with
          | nil => simp [nav_nil, size, sizeProps]
          | cons q qs =>
            cases q with
            | idx j => simp [nav_idx_object]
            | name m =>
              simp only [nav_name_object, findProp]
              by_cases hnm : n = m
              · subst hnm
                cases qs with
                | nil => simp [cont, deref, nav_nil, size]
                | cons q' qs' => simp [cont, deref, nav_atomic]
              · have : ¬ (Key.item n = Key.item m) := by intro h; injection h with h; exact hnm h
                cases qs with
                | nil => simp [cont, this, hnm]
                | cons q' qs' => simp [cont, this]
        · rfl
  | .group n none cs, root, rs, s, path, hwf, hnd, hsub => by
    have hwf' : WFc env cs := by simpa [WF] using hwf
    cases path with
    | nil =>
      have := size_clusters cs hwf'
      simp [nav, specNav, emit, size, total, single, Item.occ, occN, this]
    | cons p ps =>
      cases p with
      | idx i => simp [nav_idx_object, specNav, emit]
      | name m =>
        simp only [emit, specNav, nav_name_object]
        apply nav_member cs root rs s m ps hwf' hnd
        intro x hx
        apply subs_trans root rs _ s hsub
        simp only [emit, subs, List.mem_cons]
        exact Or.inr hx
  | .group n (some k) cs, root, rs, s, path, hwf, hnd, hsub => by
    have hwf' : WFc env cs := by simpa [WF] using hwf
    have hsz := size_clusters cs hwf'
    cases path with
    | nil => simp [nav, specNav, emit, size, total, single, Item.occ, occN, hsz]
    | cons p ps =>
      cases p with
      | name m => simp [nav_name_array, specNav, emit]
      | idx i =>
        simp only [emit, nav_idx_array, specNav, size, hsz]
        split
        · have hnd' : (keys (anchors env (Sch.object none (emitClusters cs)) (s + singleC env cs * i))).Nodup := by
            have h1 := nodup_of_sub root rs _ s hsub hnd
            simp only [emit] at h1
            exact nodup_items _ _ _ _ _ h1
          cases ps with
          | nil => simp [nav_nil, size, hsz]
          | cons q qs =>
            cases q with
            | idx j => simp [nav_idx_object]
            | name m =>
              simp only [nav_name_object]
              apply nav_member cs (Sch.object none (emitClusters cs)) (s + singleC env cs * i) (s + singleC env cs * i) m qs hwf' hnd'
              intro x hx
              simp only [subs, List.mem_cons]
              exact Or.inr hx
        · rfl
theorem nav_member : ∀ (cs : List (Item × List Item)) (root : Sch) (rs s : Nat) (m : String) (rest : List Step),
    WFc env cs → (keys (anchors env root rs)).Nodup → (∀ x ∈ subsProps env (emitClusters cs) s, x ∈ subs env root rs) →
    cont env (anchors env root rs) rest (findProp env (emitClusters cs) s (.item m)) = specMember env cs s m rest
  | [], root, rs, s, m, rest, _, _, _ => by simp [emitClusters, findProp, cont, specMember]
  | (b, []) :: cs, root, rs, s, m, rest, hwf, hnd, hsub => by
    simp only [WFc] at hwf
    obtain ⟨hb, _, _, hcs⟩ := hwf
    simp only [emitClusters, List.cons_append, List.nil_append, findProp, specMember, List.any_nil]
    have hbsub : (emit b, s) ∈ subs env root rs := by
      apply hsub
      simp only [emitClusters, List.cons_append, List.nil_append, subsProps, List.mem_append]
      exact Or.inl (self_mem_subs _ _)
    by_cases hbm : b.name = m
    · simp only [hbm, if_true, cont, Option.bind_some, deref_emit]
      exact nav_emit b root rs s rest hb hnd hbsub
    · have : ¬ (Key.item b.name = Key.item m) := by intro h; injection h with h; exact hbm h
      simp only [this, hbm, if_false, Bool.false_eq_true]
      rw [size_emit b hb]
      apply nav_member cs root rs (s + total env b) m rest hcs hnd
      intro x hx
      apply hsub
      simp only [emitClusters, List.cons_append, List.nil_append, subsProps, List.mem_append]
      rw [size_emit b hb]
      exact Or.inr hx
  | (b, r :: rl) :: cs, root, rs, s, m, rest, hwf, hnd, hsub => by
    simp only [WFc] at hwf
    obtain ⟨hb, hpb, hrl, hcs⟩ := hwf
    have hpb' := hpb (by simp)
    have hone := size_oneOf_cluster b r rl hb hrl
    -- sub-schema facts
    have hsubOne : ∀ x ∈ subsAlts env (emit b :: emitList (r :: rl)) s, x ∈ subs env root rs := by
      intro x hx
      apply hsub
      simp only [emitClusters, List.cons_append, subsProps, subs, List.mem_append, List.mem_cons]
      first | exact Or.inl (Or.inr hx) | exact Or.inr (Or.inl hx)
    have hbsub : (emit b, s) ∈ subs env root rs := by
      apply hsubOne
      simp only [subsAlts, List.mem_append]
      exact Or.inl (self_mem_subs _ _)
    have hrsub : ∀ x ∈ subsAlts env (emitList (r :: rl)) s, x ∈ subs env root rs := by
      intro x hx
      apply hsubOne
      simp only [subsAlts, List.mem_append] at hx ⊢
      exact Or.inr hx
    have hne : ¬ (Key.redef b.name = Key.item m) := by intro h; cases h
    simp only [emitClusters, List.cons_append, findProp, hne, if_false, specMember, hone]
    by_cases hbm : b.name = m
    · simp only [hbm, if_true, cont, Option.bind_some, deref]
      have := lookup_participant root rs b s hpb' hbsub hnd
      rw [hbm] at this
      rw [this]
      exact nav_emit b root rs s rest hb hnd hbsub
    · have : ¬ (Key.item b.name = Key.item m) := by intro h; injection h with h; exact hbm h
      simp only [this, hbm, if_false, size, Nat.add_zero]
      rw [nav_redefs (r :: rl) (emitClusters cs) root rs s (s + total env b) (total env b) m rest hrl hnd hrsub]
      split
      · rfl
      · apply nav_member cs root rs (s + total env b) m rest hcs hnd
        intro x hx
        apply hsub
        simp only [emitClusters, List.cons_append, subsProps, List.mem_append]
        rw [hone]
        simp only [size, Nat.add_zero]
        refine Or.inr (Or.inr ?_)
        exact subsProps_refList_skip (r :: rl) (emitClusters cs) (s + total env b) x hx
theorem nav_redefs : ∀ (rl : List Item) (tail : List (Key × Sch)) (root : Sch) (rs s o bound : Nat) (m : String) (rest : List Step),
    WFl env bound rl → (keys (anchors env root rs)).Nodup → (∀ x ∈ subsAlts env (emitList rl) s, x ∈ subs env root rs) →
    cont env (anchors env root rs) rest (findProp env (refList rl ++ tail) o (.item m)) =
      if rl.any (fun r => r.name = m) then specRedefs env rl s m rest
      else cont env (anchors env root rs) rest (findProp env tail o (.item m))
  | [], tail, root, rs, s, o, bound, m, rest, _, _, _ => by simp [refList]
  | r :: rl, tail, root, rs, s, o, bound, m, rest, hwf, hnd, hsub => by
    simp only [WFl] at hwf
    obtain ⟨hr, hpr, _, hrest⟩ := hwf
    have hrsub : (emit r, s) ∈ subs env root rs := by
      apply hsub
      simp only [emitList, subsAlts, List.mem_append]
      exact Or.inl (self_mem_subs _ _)
    simp only [refList, List.cons_append, findProp, specRedefs, List.any_cons]
    by_cases hrm : r.name = m
    · simp only [hrm, if_true, decide_true, Bool.true_or, cont, Option.bind_some, deref]
      have := lookup_participant root rs r s hpr hrsub hnd
      rw [hrm] at this
      rw [this]
      exact nav_emit r root rs s rest hr hnd hrsub
    · have : ¬ (Key.item r.name = Key.item m) := by intro h; injection h with h; exact hrm h
      simp only [this, hrm, if_false, decide_false, Bool.false_or, size, Nat.add_zero]
      apply nav_redefs rl tail root rs s o bound m rest hrest hnd
      intro x hx
      apply hsub
      simp only [emitList, subsAlts, List.mem_append]
      exact Or.inr hx
end

/-- C01, prototype form: every by-name / by-index path into a record described by `it` lands on the
byte range the COBOL layout rule assigns, and the record length is the rule's total. -/
theorem C01_layout (it : Item) (path : List Step) (hwf : WF env it)
    (hnames : (keys (anchors env (emit it) 0)).Nodup) :
    nav env (anchors env (emit it) 0) (emit it) 0 path = specNav env it 0 path :=
  nav_emit it (emit it) 0 0 path hwf hnames (self_mem_subs _ _)

theorem C01_length (it : Item) (hwf : WF env it) : size env (emit it) = total env it := size_emit it hwf


end Stingray.Layout

namespace Stingray.Layout

/-! ## non-vacuity and the D1 counter-witness -/

/-- a record with a REDEFINES that is not the first child, a group redefiner, nested OCCURS -/
def sample : Item :=
  .group "R" none [(.elem "A" none 3, []),
                   (.group "B" none [(.elem "B1" none 2, []), (.elem "B2" (some (.fixed 2)) 1, [])],
                      [.elem "C" none 4, .group "D" none [(.elem "D1" none 1, []), (.elem "D2" none 2, [.elem "D3" none 1])]]),
                   (.group "G" (some (.fixed 2)) [(.elem "H" none 1, []), (.elem "I" (some (.fixed 3)) 2, [])], []),
                   (.elem "Z" none 2, [])]

def env0 : Env := fun _ => 0

example : WF env0 sample ∧ (keys (anchors env0 (emit sample) 0)).Nodup := by
  refine ⟨by simp [sample, WF, WFc, WFl, participantOk, total, single, singleC, Item.occ, occN, cnt], by decide⟩

example : navRecord env0 sample [.name "D", .name "D3"] = some (4, 5) := by decide
example : navRecord env0 sample [.name "G", .idx 1, .name "I", .idx 2, .name "I"] = some (19, 21) := by decide

/-- `A X(3), B X(4), C REDEFINES B` -/
def d1Item : Item :=
  .group "R" none [(.elem "A" none 3, []), (.elem "B" none 4, [.elem "C" none 4])]

/-- the schema the pinned commit generated for it: `REDEFINES-B` hoisted before all children -/
def d1Faulty : Sch :=
  .object (some (.item "R"))
    (hoistRedefs (emitClusters [(.elem "A" none 3, []), (.elem "B" none 4, [.elem "C" none 4])]))

/-- **D1 (fixed in /repo).**  With the hoisted ordering every sibling is displaced: `A` is read
at 4 and `B` at 0, while the layout rule puts `A` at 0 and `B` at 3. -/
theorem D1_counterexample :
    nav env0 (anchors env0 d1Faulty 0) d1Faulty 0 [.name "A"] = some (4, 7) ∧
    specNav env0 d1Item 0 [.name "A"] = some (0, 3) ∧
    navRecord env0 d1Item [.name "A"] = some (0, 3) := by decide

end Stingray.Layout
