import Stingray.Model.Convert
/-!
# C16 — conversion helpers restore exactly what the spreadsheet mangled
-/
namespace Stingray.Convert

/-! ## digit_string -/

/-- **C16 (digits).** For every `n ≥ 1` and every `v < 10^n` the helper returns exactly `n`
characters, all decimal digits, whose integer value is `v`. -/
theorem digit_string_exact (n v : Nat) (hn : 0 < n) (hv : v < 10 ^ n) :
    (digitString n v).length = n ∧ Nat.ofDigitChars 10 (digitString n v) 0 = v ∧
    ∀ c ∈ digitString n v, c.isDigit = true := by
  have hk : (Nat.toDigits 10 v).length ≤ n :=
    (Nat.length_toDigits_le_iff (b := 10) (by decide) hn).mpr hv
  have hn0 : n ≠ 0 := by omega
  have hform : digitString n v
      = List.replicate (n - (Nat.toDigits 10 v).length) '0' ++ Nat.toDigits 10 v := by
    simp only [digitString, lastN, hn0, if_false, List.length_append, List.length_replicate]
    have : n + (Nat.toDigits 10 v).length - n = (Nat.toDigits 10 v).length := by omega
    rw [this, List.drop_append_of_le_length (by simpa using hk), List.drop_replicate]
  rw [hform]
  refine ⟨?_, ?_, ?_⟩
  · simp; omega
  · rw [Nat.ofDigitChars_append, Nat.ofDigitChars_replicate_zero]
    rw [Nat.ofDigitChars_eq_ofDigitChars_zero, Nat.ofDigitChars_ten_toDigits]; simp
  · intro c hc
    rcases List.mem_append.mp hc with h | h
    · rw [(List.mem_replicate.mp h).2]; decide
    · exact Nat.isDigit_of_mem_toDigits (by decide) (by decide) h

/-- Non-vacuity. -/
example : (5 : Nat) > 0 ∧ 1020 < 10 ^ 5 := by decide
/-- executable spot check (a test, labelled as a test) -/
example : digitString 5 1020 = "01020".toList := by decide

/-! ## decimal_places -/

theorem divHalfEven_bound (c m : Nat) (hm : 0 < m) :
    2 * (divHalfEven c m * m - c) ≤ m ∧ 2 * (c - divHalfEven c m * m) ≤ m := by
  have h1 := Nat.div_add_mod c m
  have h2 := Nat.mod_lt c hm
  rw [Nat.mul_comm] at h1
  unfold divHalfEven
  simp only
  split
  · rename_i h
    rw [Nat.add_mul, Nat.one_mul]
    omega
  · rename_i h
    omega

theorem divHalfEven_exact (c m : Nat) (hm : 0 < m) : divHalfEven (c * m) m = c := by
  unfold divHalfEven
  simp [Nat.mul_mod_left, Nat.mul_div_cancel _ hm]
  omega

theorem quantize_some (d : Nat) (x y : Dec) :
    decimalPlaces d x = some y ↔ qcoeff d x < 10 ^ prec ∧ y = ⟨x.neg, qcoeff d x, -(d : Int)⟩ := by
  simp only [decimalPlaces, quantize]
  split
  · rename_i h; simp [h, eq_comm]
  · rename_i h; simp [h]

/-- **C16 (scale).** The result has exactly `d` fractional digits and keeps the sign. -/
theorem places_scale (d : Nat) (x y : Dec) (h : decimalPlaces d x = some y) :
    y.exp = -(d : Int) ∧ y.neg = x.neg := by
  obtain ⟨_, rfl⟩ := (quantize_some d x y).mp h
  exact ⟨rfl, rfl⟩

/-- **C16 (half a unit in the last place).**  Scale both numbers to the finer exponent:
`k` digits are dropped (or `j` zeros appended).  Then twice the distance is at most one unit `10^k`. -/
theorem places_half_ulp (d : Nat) (x y : Dec) (h : decimalPlaces d x = some y) :
    let k := (-(d : Int) - x.exp).toNat
    let j := (x.exp + d).toNat
    2 * (y.coeff * 10 ^ k - x.coeff * 10 ^ j) ≤ 10 ^ k ∧
    2 * (x.coeff * 10 ^ j - y.coeff * 10 ^ k) ≤ 10 ^ k := by
  obtain ⟨_, rfl⟩ := (quantize_some d x y).mp h
  simp only [qcoeff]
  by_cases he : x.exp ≥ -(d : Int)
  · have hk : (-(d : Int) - x.exp).toNat = 0 := by omega
    simp [he, hk]
  · have hj : (x.exp + d).toNat = 0 := by omega
    simp only [he, if_false, hj, Nat.pow_zero, Nat.mul_one]
    exact divHalfEven_bound _ _ (Nat.pow_pos (by decide))

theorem qcoeff_scaled (d : Nat) (n : Bool) (c : Nat) : qcoeff d ⟨n, c, -(d : Int)⟩ = c := by
  have : (-(d : Int) + d).toNat = 0 := by omega
  simp [qcoeff, this]

/-- **C16 (idempotent).** Applying the helper to its own result changes nothing. -/
theorem places_idempotent (d : Nat) (x y : Dec) (h : decimalPlaces d x = some y) :
    decimalPlaces d y = some y := by
  obtain ⟨hlt, rfl⟩ := (quantize_some d x y).mp h
  rw [quantize_some, qcoeff_scaled]
  exact ⟨hlt, rfl⟩

/-- A value already carrying `d` places is returned unchanged. -/
theorem places_id_on_scaled (d : Nat) (x : Dec) (he : x.exp = -(d : Int)) (hc : x.coeff < 10 ^ prec) :
    decimalPlaces d x = some x := by
  cases x with
  | mk n c e =>
    simp only at he hc
    subst he
    rw [quantize_some, qcoeff_scaled]
    exact ⟨hc, rfl⟩

/-- Within the precision stated in the property the helper never refuses:
integer digits plus `d` within 28 digits (stated without rationals). -/
theorem places_ok_of_small (d : Nat) (x : Dec)
    (h1 : x.exp ≥ -(d : Int) → x.coeff * 10 ^ (x.exp + d).toNat < 10 ^ prec)
    (h2 : x.exp < -(d : Int) → x.coeff / 10 ^ (-(d : Int) - x.exp).toNat + 1 < 10 ^ prec) :
    (decimalPlaces d x).isSome = true := by
  have hq : qcoeff d x < 10 ^ prec := by
    simp only [qcoeff]
    by_cases he : x.exp ≥ -(d : Int)
    · simp [he, h1 he]
    · have := h2 (by omega)
      have hle : divHalfEven x.coeff (10 ^ (-(d : Int) - x.exp).toNat)
          ≤ x.coeff / 10 ^ (-(d : Int) - x.exp).toNat + 1 := by
        unfold divHalfEven; simp only; split <;> omega
      simp only [he, if_false]; omega
  simp [decimalPlaces, quantize, hq]

/-- Ties go to the even neighbour (3.985 → 3.98, 3.995 → 4.00): tests, labelled as tests. -/
example : decimalPlaces 2 ⟨false, 3985, -3⟩ = some ⟨false, 398, -2⟩ := by decide
example : decimalPlaces 2 ⟨false, 3995, -3⟩ = some ⟨false, 400, -2⟩ := by decide
example : decimalPlaces 0 ⟨true, 25, -1⟩ = some ⟨true, 2, 0⟩ := by decide

/-! ## CONVERSION -/

/-- **C16 (named conversions).** Each conversion named by the vocabulary yields the named type. -/
theorem conversion_types :
    conversionType (some "null") = some .none ∧ conversionType (some "bool") = some .bool ∧
    conversionType (some "integer") = some .int ∧ conversionType (some "number") = some .float ∧
    conversionType (some "string") = some .str ∧ conversionType (some "decimal") = some .decimal ∧
    conversionType none = some .same := by decide

end Stingray.Convert
