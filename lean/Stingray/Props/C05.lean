import Stingray.Model.Recfm
/-!
# C05 — record framing: what was written in a RECFM is what is read back

Specification side: the *writers* (`writeF`, `writeV`, `writeVB`, plain concatenation for N).
Theorems: for every list of records (every length that fits a 16-bit length word; for N every
sequence of announced lengths not exceeding the reader's buffer size) the model of the reader
returns exactly the records written, in order.
-/
namespace Stingray.Recfm

/-! ## Writers (the specification) -/

def writeN (recs : List Bytes) : Bytes := recs.flatten
def writeF (recs : List Bytes) : Bytes := recs.flatten
def encV (r : Bytes) : Bytes := word (r.length + 4) ++ r
def writeV (recs : List Bytes) : Bytes := (recs.map encV).flatten
def blockData (b : List Bytes) : Bytes := (b.map encV).flatten
def encBlock (b : List Bytes) : Bytes := word ((blockData b).length + 4) ++ blockData b
def writeVB (blocks : List (List Bytes)) : Bytes := (blocks.map encBlock).flatten

/-! ## Length words -/

theorem unword_word (n : Nat) (_h : n < 65536) : unword (word n) = some n := by
  simp only [word, unword]
  congr 1
  omega

theorem word_length (n : Nat) : (word n).length = 4 := rfl

/-! ## RECFM_N -/

def InvN (cap : Nat) (s : St) : Prop :=
  s.buf.length = min cap (s.buf ++ s.src).length

theorem initN_inv (cap : Nat) (file : Bytes) : InvN cap (initN cap file) := by
  simp [InvN, initN, List.length_take]

theorem initN_all (cap : Nat) (file : Bytes) :
    (initN cap file).buf ++ (initN cap file).src = file := by
  simp [initN]

theorem stepN_all (cap : Nat) (s : St) (u : Nat) (hle : u ≤ s.buf.length) :
    (stepN cap s u).buf ++ (stepN cap s u).src = (s.buf ++ s.src).drop u := by
  simp only [stepN, List.append_assoc, List.take_append_drop]
  rw [List.drop_append_of_le_length hle]

theorem stepN_inv (cap : Nat) (s : St) (u : Nat) (h : InvN cap s) :
    InvN cap (stepN cap s u) := by
  simp [InvN, stepN, List.length_take, List.length_drop] at *
  omega

/-- Every record list whose records are non-empty and no longer than the buffer is read back
exactly, from any state satisfying the buffer invariant; the loop ends by exhaustion with an
empty buffer and nothing left in the source. -/
theorem runN_readback (cap : Nat) (recs : List Bytes) (s : St)
    (hinv : InvN cap s) (hall : s.buf ++ s.src = recs.flatten)
    (hlen : ∀ r ∈ recs, 0 < r.length ∧ r.length ≤ cap) :
    (runN (stepN cap) s (recs.map List.length)).1 = recs ∧
    (runN (stepN cap) s (recs.map List.length)).2.1 = .exhausted ∧
    (runN (stepN cap) s (recs.map List.length)).2.2.buf = [] ∧
    (runN (stepN cap) s (recs.map List.length)).2.2.src = [] := by
  induction recs generalizing s with
  | nil =>
    simp at hall
    simp [runN, hall.1, hall.2]
  | cons r rs ih =>
    have hr := hlen r (by simp)
    have hlenall : (s.buf ++ s.src).length = (r :: rs).flatten.length := by rw [hall]
    have hne : s.buf ≠ [] := by
      intro h
      simp only [InvN] at hinv
      simp [h] at hinv hlenall
      omega
    have hbl : r.length ≤ s.buf.length := by
      simp [InvN] at hinv
      simp at hlenall
      omega
    have htake : s.buf.take r.length = r := by
      have : (s.buf ++ s.src).take r.length = r := by
        rw [hall]; simp
      rw [List.take_append_of_le_length hbl] at this
      exact this
    have hall' : (stepN cap s r.length).buf ++ (stepN cap s r.length).src = rs.flatten := by
      rw [stepN_all cap s r.length hbl, hall]; simp
    have := ih (stepN cap s r.length) (stepN_inv cap s _ hinv) hall'
      (fun x hx => hlen x (by simp [hx]))
    have hr0 : r.length ≠ 0 := by omega
    simp [runN, hne, htake, hr0]
    exact this

/-- **C05 / N.**  Records concatenated without headers, the consumer announcing each length:
read back exactly, for every list of records of 1..cap bytes. -/
theorem N_readback (cap : Nat) (recs : List Bytes)
    (hlen : ∀ r ∈ recs, 0 < r.length ∧ r.length ≤ cap) :
    (readN cap (writeN recs) (recs.map List.length)).1 = recs ∧
    (readN cap (writeN recs) (recs.map List.length)).2.1 = .exhausted := by
  have := runN_readback cap recs (initN cap (writeN recs)) (initN_inv _ _)
    (by rw [initN_all]; rfl) hlen
  exact ⟨this.1, this.2.1⟩

/-- The refill expression of the pinned commit loses data: cap 8, three 5-byte records. -/
theorem N_orig_counterexample :
    (runN (stepNOrig 8) (initN 8 (writeN [[1,2,3,4,5],[6,7,8,9,10],[11,12,13,14,15]])) [5,5,5]).1
      ≠ [[1,2,3,4,5],[6,7,8,9,10],[11,12,13,14,15]] := by decide

/-- Non-vacuity: a record list that straddles the buffer boundary meets the hypotheses. -/
example : ∀ r ∈ [[1,2,3,4,5],[6,7,8,9,10],[11,12,13,14,15]],
    0 < (r : Bytes).length ∧ r.length ≤ 8 := by decide

/-! ## RECFM_F -/

theorem chunks_flatten (lrecl : Nat) (hl : 0 < lrecl) (recs : List Bytes)
    (h : ∀ r ∈ recs, r.length = lrecl) (fuel : Nat) (hf : recs.length ≤ fuel) :
    chunks lrecl fuel recs.flatten = recs := by
  induction recs generalizing fuel with
  | nil => cases fuel <;> simp [chunks]
  | cons r rs ih =>
    cases fuel with
    | zero => simp at hf
    | succ fuel =>
      have hr : r.length = lrecl := h r (by simp)
      have hne : r ≠ [] := by intro h0; simp [h0] at hr; omega
      have hne' : ¬ (r = [] ∧ ∀ l ∈ rs, l = []) := fun hh => hne hh.1
      have hlr : lrecl ≤ r.length := by omega
      simp only [chunks, List.flatten_cons, List.append_eq_nil_iff, List.flatten_eq_nil_iff,
        hne', if_false]
      rw [List.take_append_of_le_length hlr, List.drop_append_of_le_length hlr]
      rw [← hr]
      simp only [List.take_length, List.drop_length, List.nil_append]
      rw [hr, ih (fun x hx => h x (by simp [hx])) fuel (by simpa using hf)]

theorem flatten_length_ge (lrecl : Nat) (hl : 0 < lrecl) (recs : List Bytes)
    (h : ∀ r ∈ recs, r.length = lrecl) : recs.length ≤ recs.flatten.length := by
  induction recs with
  | nil => simp
  | cons r rs ih =>
    have := h r (by simp)
    have := ih (fun x hx => h x (by simp [hx]))
    simp only [List.flatten_cons, List.length_append, List.length_cons]
    omega

/-- **C05 / F, FB.**  Fixed-length records: read back exactly. -/
theorem F_readback (lrecl : Nat) (hl : 0 < lrecl) (recs : List Bytes)
    (h : ∀ r ∈ recs, r.length = lrecl) :
    readF lrecl (writeF recs) = some recs := by
  have hl0 : lrecl ≠ 0 := by omega
  simp only [readF, hl0, if_false, writeF]
  rw [chunks_flatten lrecl hl recs h _ (flatten_length_ge lrecl hl recs h)]

/-- The header-injecting iterator for F: same payloads, each with length word = payload + 4. -/
theorem F_rdw (lrecl : Nat) (hl : 0 < lrecl) (hmax : lrecl + 4 < 65536) (recs : List Bytes)
    (h : ∀ r ∈ recs, r.length = lrecl) :
    rdwF lrecl (writeF recs) = some (recs.map encV) := by
  have hall : recs.all (fun r => decide (r.length + 4 < 65536)) = true := by
    rw [List.all_eq_true]; intro r hr; rw [h r hr]; simpa using hmax
  simp only [rdwF, F_readback lrecl hl recs h, hall, if_true]
  rfl

/-- A missing or zero `lrecl` is refused (the code's `TypeError`). -/
theorem F_no_lrecl (file : Bytes) : readF 0 file = none := rfl

/-! ## RECFM_V -/

theorem dataV_writeV (recs : List Bytes) (h : ∀ r ∈ recs, r.length + 4 < 65536)
    (fuel : Nat) (hf : recs.length < fuel) :
    dataV fuel (writeV recs) = .ok (recs.map fun r => (word (r.length + 4), r)) := by
  induction recs generalizing fuel with
  | nil => cases fuel <;> simp [dataV, writeV]
  | cons r rs ih =>
    cases fuel with
    | zero => simp at hf
    | succ fuel =>
      have hr := h r (by simp)
      have hw : writeV (r :: rs) = word (r.length + 4) ++ (r ++ writeV rs) := by
        simp [writeV, encV]
      have h4 : (4 : Nat) ≤ (word (r.length + 4)).length := by simp [word_length]
      rw [hw]
      simp only [dataV]
      rw [List.take_append_of_le_length h4, List.drop_append_of_le_length h4]
      have e1 : (word (r.length + 4)).take 4 = word (r.length + 4) := rfl
      have e2 : (word (r.length + 4)).drop 4 = [] := rfl
      rw [e1, e2]
      have hne : word (r.length + 4) ≠ [] := by simp [word]
      simp only [hne, if_false, unword_word _ hr, List.nil_append]
      have hn : ¬ (r.length + 4 < 4) := by omega
      simp only [hn, if_false, Nat.add_sub_cancel]
      rw [List.drop_append_of_le_length (Nat.le_refl _), List.take_append_of_le_length (Nat.le_refl _)]
      simp only [List.drop_length, List.take_length, List.nil_append]
      rw [ih (fun x hx => h x (by simp [hx])) fuel (by simpa using hf)]
      rfl

theorem writeV_length_ge (recs : List Bytes) : recs.length ≤ (writeV recs).length := by
  induction recs with
  | nil => simp [writeV]
  | cons r rs ih =>
    have : (writeV (r :: rs)).length = 4 + r.length + (writeV rs).length := by
      simp [writeV, encV, word_length]; omega
    rw [this]; simp; omega

/-- **C05 / V.**  RDW-prefixed records: read back exactly, no header byte in the data. -/
theorem V_readback (recs : List Bytes) (h : ∀ r ∈ recs, r.length + 4 < 65536) :
    readV (writeV recs) = .ok recs := by
  have := dataV_writeV recs h ((writeV recs).length + 1)
    (Nat.lt_succ_of_le (writeV_length_ge recs))
  simp only [readV, this, Except.map, List.map_map]
  congr 1
  induction recs with
  | nil => rfl
  | cons r rs ih => simp [Function.comp_def]

/-- The header-preserving iterator for V: payloads with correct length words. -/
theorem V_rdw (recs : List Bytes) (h : ∀ r ∈ recs, r.length + 4 < 65536) :
    rdwV (writeV recs) = .ok (recs.map encV) := by
  have := dataV_writeV recs h ((writeV recs).length + 1)
    (Nat.lt_succ_of_le (writeV_length_ge recs))
  simp only [rdwV, this, Except.map, List.map_map]
  congr 1

/-! ## RECFM_VB -/

theorem blockData_cons (r : Bytes) (rs : List Bytes) :
    blockData (r :: rs) = word (r.length + 4) ++ (r ++ blockData rs) := by
  simp [blockData, encV]

theorem blockData_length_ge (b : List Bytes) : b.length ≤ (blockData b).length := by
  induction b with
  | nil => simp [blockData]
  | cons r rs ih =>
    rw [blockData_cons]; simp [word_length]; omega

theorem splitBlock_blockData (b : List Bytes)
    (h : ∀ r ∈ b, 0 < r.length ∧ r.length + 4 < 65536) (fuel : Nat) (hf : b.length ≤ fuel) :
    splitBlock fuel (blockData b) = .ok (b.map fun r => (word (r.length + 4), r)) := by
  induction b generalizing fuel with
  | nil => cases fuel <;> simp [splitBlock, blockData]
  | cons r rs ih =>
    cases fuel with
    | zero => simp at hf
    | succ fuel =>
      have hr := h r (by simp)
      rw [blockData_cons]
      have hne : word (r.length + 4) ++ (r ++ blockData rs) ≠ [] := by simp [word]
      have hlen : 4 < (word (r.length + 4) ++ (r ++ blockData rs)).length := by
        simp [word_length]; omega
      have h4 : (4 : Nat) ≤ (word (r.length + 4)).length := by simp [word_length]
      simp only [splitBlock, hne, if_false, hlen, not_true_eq_false]
      rw [List.take_append_of_le_length h4]
      have e1 : (word (r.length + 4)).take 4 = word (r.length + 4) := rfl
      rw [e1]
      have hs0 : r.length + 4 ≠ 0 := by omega
      have hover : ¬ ((word (r.length + 4) ++ (r ++ blockData rs)).length < r.length + 4) := by
        simp [word_length]; omega
      simp only [unword_word _ hr.2, hs0, if_false, hover]
      have hsplit : word (r.length + 4) ++ (r ++ blockData rs)
          = (word (r.length + 4) ++ r) ++ blockData rs := by simp
      have hl : (word (r.length + 4) ++ r).length = r.length + 4 := by
        simp [word_length]; omega
      rw [hsplit]
      rw [List.drop_append_of_le_length (by omega), List.take_append_of_le_length (by omega)]
      have hd : (word (r.length + 4) ++ r).drop (r.length + 4) = [] :=
        List.drop_eq_nil_of_le (by omega)
      have ht : (word (r.length + 4) ++ r).take (r.length + 4) = word (r.length + 4) ++ r :=
        List.take_of_length_le (by omega)
      rw [hd, ht, List.nil_append]
      rw [ih (fun x hx => h x (by simp [hx])) fuel (by simpa using hf)]
      have : (word (r.length + 4) ++ r).drop 4 = r := by
        rw [List.drop_append_of_le_length h4]; rfl
      rw [this]
      rfl

theorem blocksVB_writeVB (blocks : List (List Bytes))
    (h : ∀ b ∈ blocks, (blockData b).length + 4 < 65536) (fuel : Nat) (hf : blocks.length < fuel) :
    blocksVB fuel (writeVB blocks)
      = .ok (blocks.map fun b => (word ((blockData b).length + 4), blockData b)) := by
  induction blocks generalizing fuel with
  | nil => cases fuel <;> simp [blocksVB, writeVB]
  | cons b bs ih =>
    cases fuel with
    | zero => simp at hf
    | succ fuel =>
      have hb := h b (by simp)
      have hw : writeVB (b :: bs)
          = word ((blockData b).length + 4) ++ (blockData b ++ writeVB bs) := by
        simp [writeVB, encBlock]
      have h4 : (4 : Nat) ≤ (word ((blockData b).length + 4)).length := by simp [word_length]
      rw [hw]
      simp only [blocksVB]
      rw [List.take_append_of_le_length h4, List.drop_append_of_le_length h4]
      have e1 : (word ((blockData b).length + 4)).take 4 = word ((blockData b).length + 4) := rfl
      have e2 : (word ((blockData b).length + 4)).drop 4 = [] := rfl
      rw [e1, e2]
      have hne : word ((blockData b).length + 4) ≠ [] := by simp [word]
      simp only [hne, if_false, unword_word _ hb, List.nil_append]
      have hn : ¬ ((blockData b).length + 4 < 4) := by omega
      simp only [hn, if_false, Nat.add_sub_cancel]
      rw [List.drop_append_of_le_length (Nat.le_refl _), List.take_append_of_le_length (Nat.le_refl _)]
      simp only [List.drop_length, List.take_length, List.nil_append]
      rw [ih (fun x hx => h x (by simp [hx])) fuel (by simpa using hf)]
      rfl

theorem writeVB_length_ge (blocks : List (List Bytes)) :
    blocks.length ≤ (writeVB blocks).length := by
  induction blocks with
  | nil => simp [writeVB]
  | cons b bs ih =>
    have : (writeVB (b :: bs)).length = 4 + (blockData b).length + (writeVB bs).length := by
      simp [writeVB, encBlock, word_length]; omega
    rw [this]; simp; omega

/-- A block is legal when its records are non-empty and its total length fits the BDW. -/
def LegalBlock (b : List Bytes) : Prop :=
  (∀ r ∈ b, 0 < r.length ∧ r.length + 4 < 65536) ∧ (blockData b).length + 4 < 65536

theorem dataVBgo_writeVB (blocks : List (List Bytes)) (h : ∀ b ∈ blocks, LegalBlock b)
    (fuel : Nat) (hf : blocks.length < fuel) :
    dataVBgo fuel (writeVB blocks) = .ok (blocks.flatten.map fun r => (word (r.length + 4), r)) := by
  induction blocks generalizing fuel with
  | nil => cases fuel <;> simp [dataVBgo, writeVB]
  | cons b bs ih =>
    cases fuel with
    | zero => simp at hf
    | succ fuel =>
      have hb := h b (by simp)
      have hw : writeVB (b :: bs)
          = word ((blockData b).length + 4) ++ (blockData b ++ writeVB bs) := by
        simp [writeVB, encBlock]
      have h4 : (4 : Nat) ≤ (word ((blockData b).length + 4)).length := by simp [word_length]
      rw [hw]
      simp only [dataVBgo]
      rw [List.take_append_of_le_length h4, List.drop_append_of_le_length h4]
      have e1 : (word ((blockData b).length + 4)).take 4 = word ((blockData b).length + 4) := rfl
      have e2 : (word ((blockData b).length + 4)).drop 4 = [] := rfl
      rw [e1, e2]
      have hne : word ((blockData b).length + 4) ≠ [] := by simp [word]
      simp only [hne, if_false, unword_word _ hb.2, List.nil_append]
      have hn : ¬ ((blockData b).length + 4 < 4) := by omega
      simp only [hn, if_false, Nat.add_sub_cancel]
      rw [List.drop_append_of_le_length (Nat.le_refl _), List.take_append_of_le_length (Nat.le_refl _)]
      simp only [List.drop_length, List.take_length, List.nil_append]
      rw [splitBlock_blockData b hb.1 _ (blockData_length_ge b)]
      rw [ih (fun x hx => h x (by simp [hx])) fuel (by simpa using hf)]
      simp

/-- **C05 / VB.**  For *every* legal blocking of the records, reading back yields exactly the
records in order, stripped of BDWs and RDWs. -/
theorem VB_readback (blocks : List (List Bytes)) (h : ∀ b ∈ blocks, LegalBlock b) :
    readVB (writeVB blocks) = .ok blocks.flatten := by
  have h1 := dataVBgo_writeVB blocks h ((writeVB blocks).length + 1)
    (Nat.lt_succ_of_le (writeVB_length_ge blocks))
  simp only [readVB, dataVB, h1, Except.map, List.map_map]
  congr 1
  generalize blocks.flatten = rs
  induction rs with
  | nil => rfl
  | cons r rs ih => simp [Function.comp_def]

/-- The RDW-preserving iterator for VB. -/
theorem VB_rdw (blocks : List (List Bytes)) (h : ∀ b ∈ blocks, LegalBlock b) :
    rdwVB (writeVB blocks) = .ok (blocks.flatten.map encV) := by
  have h1 := dataVBgo_writeVB blocks h ((writeVB blocks).length + 1)
    (Nat.lt_succ_of_le (writeVB_length_ge blocks))
  simp only [rdwVB, dataVB, h1, Except.map, List.map_map]
  congr 1

/-- The BDW-preserving iterator for VB: the blocks as written. -/
theorem VB_bdw (blocks : List (List Bytes)) (h : ∀ b ∈ blocks, (blockData b).length + 4 < 65536) :
    bdwVB (writeVB blocks) = .ok (blocks.map encBlock) := by
  have h1 := blocksVB_writeVB blocks h ((writeVB blocks).length + 1)
    (Nat.lt_succ_of_le (writeVB_length_ge blocks))
  simp only [bdwVB, h1, Except.map, List.map_map]
  congr 1

/-- Blocking is irrelevant: two legal blockings of the same record list read back the same. -/
theorem VB_blocking_irrelevant (b1 b2 : List (List Bytes))
    (h1 : ∀ b ∈ b1, LegalBlock b) (h2 : ∀ b ∈ b2, LegalBlock b) (he : b1.flatten = b2.flatten) :
    readVB (writeVB b1) = readVB (writeVB b2) := by
  rw [VB_readback b1 h1, VB_readback b2 h2, he]

/-- Non-vacuity: a two-block file with records of different lengths is legal. -/
example : ∀ b ∈ [[[1,2,3],[4]],[[5,6]]], LegalBlock b := by
  intro b hb
  simp at hb
  rcases hb with rfl | rfl <;> (constructor <;> simp [blockData, encV, word])

/-! ## positioned sources

Whatever precedes the position -- a label, junk, records another reader has taken -- is no part of what is read: the records are those
written from the position on, for every record format.  (A reader that rewound its source would deliver `skipped` as records.) -/

@[simp] theorem Source.rest_skip (skipped file : Bytes) : (Source.mk (skipped ++ file) skipped.length).rest = file := by
  simp [Source.rest]

/-- **C05 / positioned V.** -/
theorem V_readback_positioned (skipped : Bytes) (recs : List Bytes) (h : ∀ r ∈ recs, r.length + 4 < 65536) :
    (Source.mk (skipped ++ writeV recs) skipped.length).readV = .ok recs := by
  simp [Source.readV, V_readback recs h]

/-- **C05 / positioned VB**, every legal blocking. -/
theorem VB_readback_positioned (skipped : Bytes) (blocks : List (List Bytes)) (h : ∀ b ∈ blocks, LegalBlock b) :
    (Source.mk (skipped ++ writeVB blocks) skipped.length).readVB = .ok blocks.flatten := by
  simp [Source.readVB, VB_readback blocks h]

/-- **C05 / positioned F.** -/
theorem F_readback_positioned (skipped : Bytes) (lrecl : Nat) (hl : 0 < lrecl) (recs : List Bytes)
    (h : ∀ r ∈ recs, r.length = lrecl) :
    (Source.mk (skipped ++ writeF recs) skipped.length).readF lrecl = some recs := by
  simp [Source.readF, F_readback lrecl hl recs h]

/-- **C05 / positioned N.** -/
theorem N_readback_positioned (skipped : Bytes) (cap : Nat) (recs : List Bytes)
    (hlen : ∀ r ∈ recs, 0 < r.length ∧ r.length ≤ cap) :
    ((Source.mk (skipped ++ writeN recs) skipped.length).readN cap (recs.map List.length)).1 = recs := by
  simp only [Source.readN, Source.rest_skip]
  exact (N_readback cap recs hlen).1

/-- two readers one after the other on one source: the second reads what the first left -/
theorem second_reader_continues (label : Bytes) (recs : List Bytes) (h : ∀ r ∈ recs, r.length + 4 < 65536) :
    (Source.mk (label ++ writeV recs) label.length).readV = readV (writeV recs) := by
  simp [Source.readV]

example : (Source.mk ([0, 8, 0, 0, 76, 66, 76, 49] ++ writeV [[1, 2], [3]]) 8).readV = .ok [[1, 2], [3]] :=
  V_readback_positioned [0, 8, 0, 0, 76, 66, 76, 49] [[1, 2], [3]] (by decide)
/-- what a reader that rewound its source would deliver instead: the label framed as a record -/
example : readV ([0, 8, 0, 0, 76, 66, 76, 49] ++ writeV [[1, 2], [3]]) = .ok [[76, 66, 76, 49], [1, 2], [3]] := by
  simp [readV, dataV, writeV, encV, word, unword, Except.map, Bind.bind, Except.bind, pure, Except.pure]

end Stingray.Recfm
