-- Root of the `Stingray` library: models, drivers and property theorems (no Tie/Extracted here).
import Stingray.Model
import Stingray.Props.C05
import Stingray.Props.C17
import Stingray.Props.C16
