-- Root of the `Stingray` library: models, drivers and property theorems (no Tie/Extracted here).
import Stingray.Model
import Stingray.Props.C05
import Stingray.Props.C17
import Stingray.Props.C16
import Stingray.Props.C13
import Stingray.Props.C02
import Stingray.Props.C18
import Stingray.Props.C04
import Stingray.Props.C01
import Stingray.Props.C06
import Stingray.Props.C10
import Stingray.Props.C07
import Stingray.Props.C11
import Stingray.Props.C12
import Stingray.Props.C08
import Stingray.Props.C15
