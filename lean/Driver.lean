import Stingray.Driver.C05
import Stingray.Driver.C17
import Stingray.Driver.C16
import Stingray.Driver.Decode
import Stingray.Driver.Layout
import Stingray.Driver.Value
import Stingray.Driver.Copybook
import Stingray.Driver.History
import Stingray.Driver.RefFormat
import Stingray.Driver.Json
import Stingray.Driver.Facade
import Stingray.Driver.Clause
/-!
Line protocol driver: `lake env lean --run Driver.lean < requests > answers`.
One request per line: `<family> <op> <args…>` separated by single spaces; one answer line each.
The functions called are the same definitions the theorems in `Stingray/Props` are about.
`DEC tables …` loads the per-byte code-page facts (read from the Python runtime) used by text decoding.
-/
open Stingray.Drv

structure DState where
  tables : List Stingray.Decode.ByteInfo := []

def dispatch (st : DState) (line : String) : DState × String :=
  match (line.trimAscii.toString.splitOn " ") with
  | "C05" :: rest => (st, C05.handle rest)
  | "C17" :: rest => (st, C17.handle rest)
  | "C16" :: rest => (st, C16.handle rest)
  | ["DEC", "tables", cps, w, d, s] => ({ st with tables := Dec.mkTables cps w d s }, "ok")
  | "DEC" :: rest => (st, Dec.handle st.tables rest)
  | "LAY" :: rest => (st, Lay.handle rest)
  | "VAL" :: rest => (st, Value.handle st.tables rest)
  | "CPY" :: rest => (st, Cpy.handle rest)
  | "HIS" :: rest => (st, His.handle rest)
  | "REF" :: rest => (st, Ref.handle rest)
  | "JSN" :: rest => (st, Jsn.handle rest)
  | "FAC" :: rest => (st, Fac.handle rest)
  | "CLA" :: rest => (st, Cla.handle rest)
  | _ => (st, "bad-op")

partial def loop (h : IO.FS.Stream) (out : IO.FS.Stream) (st : DState) : IO Unit := do
  let line ← h.getLine
  if line.isEmpty then return ()
  let (st', ans) := dispatch st line
  out.putStrLn ans
  loop h out st'

def main : IO Unit := do
  let out ← IO.getStdout
  loop (← IO.getStdin) out {}
  out.flush
