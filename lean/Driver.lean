import Stingray.Driver.C05
import Stingray.Driver.C17
import Stingray.Driver.C16
/-!
Line protocol driver: `lake env lean --run Driver.lean < requests > answers`.
One request per line: `<property> <op> <args…>` separated by single spaces; one answer line each.
The functions called are the same definitions the theorems in `Stingray/Props` are about.
-/
open Stingray.Drv

def dispatch (line : String) : String :=
  match (line.trimAscii.toString.splitOn " ") with
  | "C05" :: rest => C05.handle rest
  | "C17" :: rest => C17.handle rest
  | "C16" :: rest => C16.handle rest
  | _ => "bad-op"

partial def loop (h : IO.FS.Stream) (out : IO.FS.Stream) : IO Unit := do
  let line ← h.getLine
  if line.isEmpty then return ()
  out.putStrLn (dispatch line)
  loop h out

def main : IO Unit := do
  let out ← IO.getStdout
  loop (← IO.getStdin) out
  out.flush
