"""Shared helpers for the picture / decode family (C02, C04, C13, C18)."""
from __future__ import annotations

import re
from decimal import Decimal
from typing import Any, Optional

from harness.common import Check, err_enum, hexs

USAGES = ["DISPLAY", "COMP-3", "COMPUTATIONAL-3", "PACKED-DECIMAL", "COMP-1", "COMPUTATIONAL-1", "COMP-2",
          "COMPUTATIONAL-2", "COMP-4", "COMPUTATIONAL-4", "BINARY", "COMP", "COMPUTATIONAL"]
FAM = {"DISPLAY": "display", "COMP-3": "packed", "COMPUTATIONAL-3": "packed", "PACKED-DECIMAL": "packed",
       "COMP-1": "float4", "COMPUTATIONAL-1": "float4", "COMP-2": "float8", "COMPUTATIONAL-2": "float8",
       "COMP-4": "binary", "COMPUTATIONAL-4": "binary", "BINARY": "binary", "COMP": "binary", "COMPUTATIONAL": "binary"}


def cps(s: str) -> str:
    return ",".join(str(ord(c)) for c in s) if s else "-"


def tables_line() -> str:
    text = bytes(range(256)).decode("cp037")
    bits = lambda pat: "".join("1" if re.match(pat, c) else "0" for c in text)  # noqa: E731
    return f"DEC tables {','.join(str(ord(c)) for c in text)} {bits(r'\\w')} {bits(r'\\d')} {bits(r'\\s')}"


def enum(ex: BaseException) -> str:
    if isinstance(ex, re.error):
        return "ReError"
    return err_enum(ex)


def show_val(v: Any) -> str:
    if isinstance(v, Decimal):
        t = v.as_tuple()
        return f"dec {t.sign} {int(''.join(map(str, t.digits)))} {t.exponent}"
    if isinstance(v, bool):
        return f"bool {v}"
    if isinstance(v, int):
        return f"int {v}"
    if isinstance(v, str):
        return "str " + (",".join(str(ord(c)) for c in v) if v else "-")
    return f"other {type(v).__name__}"


def impl_unpack(usage: str, pic: str, buf: bytes, fmt: Optional[str] = None) -> str:
    import stingray.estruct as E

    try:
        (v,) = E.unpack(fmt or f"USAGE {usage} PIC {pic}", buf)
        return show_val(v)
    except BaseException as ex:  # noqa: BLE001
        return enum(ex)


def impl_calcsize(usage: str, pic: str, fmt: Optional[str] = None) -> str:
    import stingray.estruct as E

    try:
        return str(E.calcsize(fmt or f"USAGE {usage} PIC {pic}"))
    except BaseException as ex:  # noqa: BLE001
        return enum(ex)


def picture(s: bool, m: int, n: int, style: int = 0) -> str:
    """S?9(m)V9(n) in one of several spellings."""
    def nines(k: int) -> str:
        if k == 0:
            return ""
        if style == 0:
            return "9" * k if k <= 3 else f"9({k})"
        if style == 1:
            return "9" * k
        return f"9({k})" if style == 2 else f"9({k:04d})"
    return ("S" if s else "") + nines(m) + (("V" + nines(n)) if n else "")


# ---- spec encoders (Python twins of Props/C02) ------------------------------------------------
def enc_packed(digits: list[int], sn: int) -> bytes:
    nibs = ([0] if len(digits) % 2 == 0 else []) + digits + [sn]
    return bytes(nibs[i] * 16 + nibs[i + 1] for i in range(0, len(nibs), 2))


def enc_zoned(digits: list[int], zones: list[int], sn: int) -> bytes:
    out = [z * 16 + d for z, d in zip(zones, digits)]
    out[-1] = sn * 16 + digits[-1]
    return bytes(out)


def enc_binary(w: int, v: int) -> bytes:
    return (v % (256 ** w)).to_bytes(w, "big")


def spec_value(digits: list[int], neg: bool, frac: int) -> Decimal:
    return Decimal((1 if neg else 0, tuple(digits), -frac))


NEG_NIBBLES = {0xB, 0xD}
SIGN_NIBBLES = [0xC, 0xF, 0xA, 0xE, 0xD, 0xB]

# ---- spec grammar for pictures (independent of both scanners) ----------------------------------
SYM1 = set("+-S$,/*BV.AX9Z0P")


def spec_positions(pic: str) -> Optional[int]:
    """Number of character positions a picture denotes by the COBOL rule, None if it is not a picture.
    Lenient superset: any symbol may carry a repeat count; DB and CR are two-character symbols; V and P occupy nothing."""
    if not pic or not pic.isascii():
        return None
    s = pic.upper()
    i, pos = 0, 0
    while i < len(s):
        if s.startswith("DB", i) or s.startswith("CR", i):
            sym, width, i = s[i:i + 2], 2, i + 2
        elif s[i] in SYM1:
            sym, width, i = s[i], (0 if s[i] in "VP" else 1), i + 1
        else:
            return None
        n = 1
        if i < len(s) and s[i] == "(":
            j = s.find(")", i)
            if j < 0 or not s[i + 1:j].isdigit() or not s[i + 1:j].isascii():
                return None
            n = int(s[i + 1:j])
            if n == 0:
                return None
            i = j + 1
        pos += width * n
    return pos
