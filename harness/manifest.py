"""Regenerate MANIFEST.json from the table below (keeps it valid at all times)."""
import json
from pathlib import Path

VERIF = Path(__file__).resolve().parent.parent

CHECKS = {
    "C05": dict(
        text="Lean 4 theorems (Props/C05.lean) prove for every record list, every legal VB blocking and every announced-length "
             "sequence that the reader model returns exactly the records written; the model is tied to estruct.py on every run "
             "by extraction of RECFM_N's refill statement (Tie/C05.step_eq) and by differential execution against the real readers.",
        note="Trusted: Lean kernel; file object = read(n) gives next min(n, remaining) bytes; struct '>H2x' = word/unword; "
             "extract.py; correspondence sampling (record lengths around the 32768 boundary, random blockings). "
             "F/V/VB loops are modelled by hand (correspondence only), RECFM_N's refill arithmetic is extracted.",
        technique="Lean 4 proof by induction over the record list with a buffer invariant; extraction tie + differential correspondence",
        design="5/C05"),
}

CHECKS["C17"] = dict(
    text="Lean 4: name cleaning is a well-founded recursion (termination proved with the measure 'characters outside [A-Za-z_]'); "
         "clean_legal, clean_id_on_legal, clean_idempotent, clean_ne_nil hold for every string. Tied to workbook.name_cleaner by "
         "extraction of the pattern/flags/replace chain and by exhaustive differential execution on short strings.",
    note="Trusted: Lean kernel; Python's re engine on this pattern is modelled by `rest` (longest legal prefix + remainder) and "
         "str.replace by replaceChar/collapse, validated exhaustively over a 12-symbol alphabet up to length 4 (quick) / 5 (thorough) "
         "and on random Unicode; jsonschema.check_schema observed on heading-row schemas.",
    technique="Lean 4 proof (well-founded recursion, functional induction); pinned-source tie + exhaustive differential correspondence",
    design="5/C17")

CHECKS["C16"] = dict(
    text="Lean 4: digit_string_exact (every n>=1, every v<10^n: n digit characters whose value is v), places_scale, "
         "places_half_ulp (half-even rounding within half a unit of the last place, in exact integer arithmetic), places_idempotent, "
         "places_ok_of_small, conversion_types. Tied to schema_instance.py by pinned sources of the two one-liners, the extracted "
         "CONVERSION table, and differential execution (exhaustive for n<=4 in three numeric representations).",
    note="Trusted: Lean kernel; str(int)=Nat.toDigits 10, int() of integral float/Decimal, Decimal(value) exactness and "
         "Decimal.quantize (half-even, InvalidOperation above 28 digits) are library behaviour modelled by hand and validated by the "
         "correspondence; finite values only.",
    technique="Lean 4 proof (core Nat.toDigits lemmas, omega over div/mod) + pinned-source/extracted-table tie + differential correspondence",
    design="5/C16")

CHECKS["C02"] = dict(
    text="Lean 4: packed_roundtrip / zoned_roundtrip for every digit list, sign nibble and scale, binary_roundtrip for every in-range "
         "integer of 2/4/8 bytes, *_injective, text_decodes_every_byte; the cp037 table of the running interpreter is proved a bijection "
         "(Nodup by kernel evaluation). Tied to estruct.unpack by semantic extraction of the sign tests, the pinned function body and "
         "differential execution incl. all halfwords, all text bytes, all 1-3 digit packed and 1-2 digit zoned values.",
    note="Trusted: Lean kernel; decimal.Decimal tuple construction, struct.unpack('>h/>i/>q'), the cp037 codec and re's \\w\\d\\s classes "
         "(tables read from the interpreter each run); Representation.parse's clause regex exercised with 'USAGE u PIC p' formats; COMP-1/2 "
         "are not decoded by the code. Random sampling above 3 digits.",
    technique="Lean 4 proof (induction over nibble/digit lists, omega for two's complement) + extraction tie + exhaustive/differential correspondence",
    design="5/C02")
CHECKS["C04"] = dict(
    text="Lean 4: the layout size equals the COBOL storage rule for DISPLAY, packed, COMP-1/2 for all (s,m,n); the stored packed encoding "
         "has exactly that many bytes; for binary the statement is proved for unsigned V-less pictures and machine-refuted in general "
         "(known findings D6, D7). estruct.calcsize, the decoder's width ladder and Struct.struct_format are EXTRACTED from the source each "
         "run and proved equal to the model for every usage spelling and every parsed picture; the whole finite domain is also executed.",
    note="Trusted: Lean kernel, extract.py; numeric pictures are represented by numElts (their parsed form; the scanner producing it is C13's "
         "model, exhaustively corresponded); five reporting sites compared by execution; binary is partial by the listed known findings.",
    technique="Lean 4 proof by cases + omega; semantic extraction tie (Extracted = Model); exhaustive execution of the finite domain",
    design="5/C04")
CHECKS["C13"] = dict(
    text="Lean 4: scan_denotes (an accepted picture is a picture by the inductive COBOL rule `Denotes` and its elements are exactly the "
         "repeat-expanded symbol string: nothing skipped), scan_size / scan_size_denoted (size = positions, V counts 0), denotes_unique, "
         "scan_case_insensitive; classification mismatch machine-witnessed (D13, D36). Both real scanners are corresponded with the model "
         "exhaustively on all strings of <=4 (5) picture symbols.",
    note="Trusted: Lean kernel; re.finditer on the pinned alternation is modelled by tok/scanGo (validated exhaustively); both scanners are "
         "one model function because they run the same pinned alternation (Tie.same_alternation).",
    technique="Lean 4 proof (inductive specification relation, structural induction) + pinned-source tie + exhaustive differential correspondence",
    design="5/C13")
CHECKS["C18"] = dict(
    text="Lean 4: packed_fits_or_error and zoned_fits_or_error hold for EVERY byte string of the field's width (result refused, or exact "
         "scale and no more digits than declared); for signed zoned items the full statement is machine-refuted (D31) and the partial one "
         "proved. Corresponded with estruct.unpack on all byte strings of width 1-2 (3 thorough).",
    note="Trusted: as C02. Known finding D31 (signed zoned sign-position byte) is a consequence of the C04 width convention.",
    technique="Lean 4 proof (digit-list bounds) + exhaustive differential correspondence on short buffers",
    design="5/C18")

CHECKS["C01"] = dict(
    text="Lean 4: C01_layout -- for every well-formed item tree (any nesting of groups, OCCURS, REDEFINES clusters at any position), every "
         "navigation path over the GENERATED schema, through the per-record anchors map and fresh LocationMakers after index(), lands on the "
         "byte range of the COBOL layout rule `specNav`; C01_length; the elementary width is a parameter so EBCDIC and text are both covered. "
         "Tied to the code by rendering generated trees to copybook text and comparing the emitted schema (property order included) and the "
         "(start,end) of every path with the model, plus raw() slices.",
    note="Trusted: Lean kernel; the model of build_json_schema/LocationMaker.walk/NDNav is hand-written; tied by correspondence and by the "
         "pinned sources of LocationMaker, NDNav and the Location.value methods (Tie/C01; no semantic extraction: method dispatch). Hypotheses of the theorem = negations of known findings D2 (unique anchor names) and D34 "
         "(participants are not elementary OCCURS items); redefiners adjacent to their base and no longer than it.",
    technique="Lean 4 proof (mutual structural induction over nested inductive item trees, sublist/Nodup lemmas for the anchors map) + differential correspondence on every path",
    design="5/C01")

CHECKS["C06"] = dict(
    text="Lean 4: walkM_eq (the one-pass, instance-reading LocationMaker.walk equals the pure layout of the record's own counter values), "
         "okM_of_encodes (its side condition follows from: counters declared before their tables, unique anchor names, the record holds "
         "the values), odo_layout (= C01 under env + announced length = rule's total), odo_index_refused, rowsN_readback / odo_file_readback "
         "(back-to-back records delivered each where the previous ended, composed with C05's buffer invariant, for every count sequence). "
         "Corresponded with the real LocationMaker and COBOL_EBCDIC_File.rows() over RECFM N (incl. files crossing 32768 bytes), V and VB.",
    note="Trusted: as C01/C05; counter decoding is abstract in the theorems (any decode with decode(record slice)=env c) and instantiated in the "
         "driver with zoned/binary decoders (C02). ODO inside a repeated group is excluded (index() there is known finding D17, C10).",
    technique="Lean 4 proof (mutual induction over the schema with threaded anchors; refinement of the stateful reader to the pure layout; composition with the RECFM_N invariant) + differential correspondence",
    design="5/C06")

CHECKS["C10"] = dict(
    text="Lean 4: value_local (non-interference: the result at a location depends only on the byte ranges `touched` lists; for an "
         "elementary item exactly its own range; a oneOf reads only its first alternative), layout_depends_only_on_counters (navigation "
         "decodes nothing but DEPENDING ON counters), name_commutes, index_commutes, ref_value, value_object, row_values, "
         "index_out_of_range_refused. The value model (Layout.valueAt composed with the C02 decoder model) is corresponded with the real "
         "NDNav on every path of generated records, valid and with each field in turn corrupted; decoded byte ranges are compared with `touched`.",
    note="Trusted: as C01/C02; evaluation is fuel-indexed (fuel 64 in the driver, theorems hold for every fuel); DNav/WBNav coherence is "
         "checked by execution only (their model is plain indexing, C15/C09).",
    technique="Lean 4 proof (non-interference by structural induction on the evaluation; commutation lemmas) + differential correspondence with fault enumeration over fields",
    design="5/C10")

CHECKS["C07"] = dict(
    text="Lean 4: buildForest_preorder (the trees structure() builds, in preorder, are the copybook's entries in source order minus 66/77/88: "
         "nothing lost, duplicated, reordered), buildForest_levels (every entry hangs below a strictly smaller level number), entries_emit and "
         "names_toItem (one schema node per entry, in place, REDEFINES alternatives in declaration order), C07_every_entry_once (composition), "
         "one_schema_per_record. Corresponded with structure()/schema_iter() on rendered copybooks.",
    note="Trusted: Lean kernel; the regular-expression layers (reference_format, dde_sentences, clause_dict) are exercised by rendering the "
         "abstract copybook to text, not modelled here (C12). Known findings D11 (final entry dropped, test-pinned) and D37 (copybook starting "
         "with a 77-level).",
    technique="Lean 4 proof (stack-machine invariant + abstraction function to the entry list; mutual induction over item trees) + differential correspondence",
    design="5/C07")
CHECKS["C11"] = dict(
    text="Lean 4: over the explicit process-wide state (FILLER counter, atomic-type set) every operation's output from any reachable state "
         "equals its output from the initial state (step_out_independent), hence probe_history_independent for every history; the pinned "
         "commit's behaviour is machine-refuted (D15, D16). Per-object state: ONE LocationMaker over any history of records lays out every "
         "record as a fresh maker does (walkM_stale by mutual induction, maker_reuse_sizes, maker_reuse_lookup; LAY maker correspondence, "
         "operation makerreuse on the real code). The model's completeness is tied by a STATE INVENTORY extracted from the source "
         "each run (every module/class-level object, every statement mutating process-wide state) which must equal the reviewed one, and by "
         "three-way comparison: probe after a random history in a long-lived interpreter / same probe in a fresh interpreter / model.",
    note="Trusted: Lean kernel; the inventory scanner (extract.py) and its reviewed output (Tie/Pinned.lean); documents and loaded schemas are "
         "values in the model, their immutability is observed by deep comparison on the real objects; single-threaded use.",
    technique="Lean 4 proof (state-independence of outputs on reachable states, induction over histories) + extracted state inventory + differential correspondence against a fresh interpreter",
    design="5/C11")

CHECKS["C12"] = dict(
    text="Lean 4 (line and level layers): refFormat_congr, seq_area_irrelevant (columns 1-6), ident_area_irrelevant (columns 73-80), "
         "dropped_lines_irrelevant (comment/blank/EJECT/SKIP lines), replacing_once (every line once, all replacements applied; D18 refuted for "
         "the pinned commit), leading_space_irrelevant, renumber_invariant (any order-preserving renumbering of the levels that occur gives the "
         "same forest). Clause layer (Props/C12Clause.lean over the word-level model Model/Clause.lean of clause_dict): parse_entry -- for EVERY head "
         "and EVERY list of well-formed clauses, in any order and spelling, the parser returns the head's name and exactly the clauses' meanings; "
         "spelling_irrelevant (optional words IS/TIMES/USAGE/ON/WHEN/SIGN, synonyms), order_irrelevant (any permutation), name_kept, "
         "estruct_agrees_with_parser (the second reader of the entry text, estruct.Representation.parse, takes the same USAGE and PICTURE). Tied by the "
         "pinned CLAUSES source and by correspondence with the real clause_dict on canonical entries and on word soup (exhaustive over short "
         "sequences of a 40-word vocabulary). On top, a METAMORPHIC oracle on the real code: every rewrite kind alone and in random compositions "
         "must leave layout and decoded values unchanged; reference_format+dde_sentences are corresponded with RefFormat.parseText.",
    note="Character-level behaviour of the pattern (separator glued to a picture, two separators before INDEXED, quoted literals with blanks or "
         "quotes, lower case) is outside the word model (it answers `unmodelled`) and decided by the metamorphic oracle only. Known findings D20, "
         "D26, D27, D28, D33, D42, D11 each have their own rewrite-kind signature; any other rewrite that changes the result is a violation.",
    technique="Lean 4 proof (list congruence for the line layer; simulation of the stack machine under level renumbering; parse-of-render induction over clause lists for the clause layer) + pinned-source tie + differential correspondence + metamorphic testing",
    design="5/C12")

CHECKS["C08"] = dict(
    text="Lean 4 over the emitted schema: refs_resolve (every $ref names an $anchor of the same schema), oneOf_nonempty, "
         "anchors_from_names (every $anchor is a data name or REDEFINES-<data name>, hence legal when names are), C06.declOk for "
         "DEPENDING ON references, declared_is_delivered for every USAGE (partial: pictures both sides classify alike; full statement "
         "machine-refuted = D13), ext_type_matches. Both json_type ladders are EXTRACTED from the source and proved equal to the model. "
         "Real schemas are checked with jsonschema's 2020-12 validator, loaded, references resolved, declarations and delivered types compared.",
    note="Trusted: Lean kernel, extract.py; jsonschema's validator stands for the meta-schema (the model's validity covers the keywords the "
         "generator emits); names start with a letter; COMP-1/COMP-2 declared but not decoded by the code.",
    technique="Lean 4 proof (mutual induction over the emitted schema) + semantic extraction tie (json_type ladders) + differential/oracle checks with jsonschema",
    design="5/C08")

CHECKS["C15"] = dict(
    text="Lean 4: walk_mirror (a successful load is, node for node, the mirror of the document: nesting, property order, kind by keyword "
         "precedence, stated as a declarative relation), walk_docOf (json() gives the document back), walk_cache (the name cache is the keys "
         "in post-order), refs_resolve_unique / fixups_resolve_unique (under unique names every backward, forward and DEPENDING ON reference "
         "points at the one node bearing the name), dangling_is_ValueError, dnav_is_indexing (DNav = plain indexing along every supported "
         "path, same value or same error), name_on_nonobject / index_on_nonarray. Corresponded with SchemaMaker.from_json and DNav on "
         "generated documents, object graph compared by document paths.",
    note="Trusted: Lean kernel; walk_schema/resolve/DNav modelled by hand, pinned (Tie/C15) and corresponded; object identity = document path. "
         "Known finding D41 (a title equal to a foreign anchor can capture its references) is outside the unique-names hypothesis.",
    technique="Lean 4 proof (mutual induction over nested-inductive documents; cache-prefix invariant) + pinned-source tie + differential correspondence",
    design="5/C15")

CHECKS["C09"] = dict(
    text="Lean 4: rows_once_in_order, empty_sheet_no_rows, headingSchema_nodup (distinct headings -> name maps to its column number), "
         "by_name, short_row_absent, present_cells_unshifted, values_in_header_order, perm_invariant (any column permutation leaves every "
         "value-by-name unchanged), external_positions. Corresponded with the real CSV/XLSX readers + HeadingRowSchemaLoader/WBNav/Row on "
         "generated tables, all column permutations (<= 4 columns), ragged rows, empty sheets, external schema sheets.",
    note="Trusted: Lean kernel; the facade functions are modelled by hand and pinned (Tie/C09); csv/openpyxl deliver what was written "
         "(observed); header names distinct; the 'absent' marker is the value [None].",
    technique="Lean 4 proof (list/index lemmas over the heading dictionary model) + pinned-source tie + differential correspondence with permutation enumeration",
    design="5/C09")
CHECKS["C03"] = dict(
    text="PARTIAL. Lean 4 proves the facade part for every table: format_transparent (the client's observation is a function of what the "
         "unpacker delivers and nothing else) and observe_is_the_table (sheet names, rows after the heading once and in order, under every "
         "column name the cell of that column). That each third-party reader delivers the cells that were written is the theorem's "
         "hypothesis; it is OBSERVED on real files: the same generated table written as CSV, TAB, NDJSON, XLSX, ODS, Numbers, fixed-width "
         "text and EBCDIC (generated copybook) must read back identically through the uniform calls.",
    note="Not modelled: csv, json, openpyxl, pyexcel-ods3, numbers-parser, xlrd (XLS cannot be written offline). Numbers sheet names "
         "'sheet::table' are compared without the table part; fixed-width cells are compared without trailing blanks; cells are non-empty text.",
    technique="Lean 4 proof of the facade (congruence + the C09 lemmas) with the readers' behaviour as an explicit hypothesis, validated by cross-format differential testing",
    design="5/C03, 7")
CHECKS["C14"] = dict(
    text="PARTIAL. Lean 4: later_registration_wins, registration_is_local, unknown_suffix_refused (registry as an association map); "
         "registry_history + unrelated_registration_irrelevant (induction over EVERY history of registrations, each naming any number "
         "of suffixes: open_workbook constructs the class of the last registration naming the suffix, else NotImplementedError), "
         "corresponded on random histories with private registries; exit_releases_forever; "
         "exit_releases (for every operation sequence inside the with-block, after __exit__ no handle is held), close_idempotent. The OS "
         "descriptor table is OBSERVED by fault enumeration: every workbook class x every raise point x {path, caller's file object}, "
         "/proc/self/fd checked right after the block.",
    note="Not modelled: the operating system's descriptor table and third-party libraries' own handles. Known finding D29 (Numbers "
         "descriptor released only by the cyclic garbage collector).",
    technique="Lean 4 proof (association-map lemmas; fold over operation sequences) + pinned-source tie + fault enumeration over raise points with /proc/self/fd observation",
    design="5/C14, 7")

NOT_APPLICABLE = {
}

def main():
    checks = []
    for pid, c in sorted(CHECKS.items()):
        checks.append({
            "property_id": pid,
            "quick_cmd": f"./check {pid} --tier quick",
            "thorough_cmd": f"./check {pid} --tier thorough",
            "evidence_file": f"evidence/{pid}.json",
            "replay_cmd_template": f"./check {pid} --replay {{path}}",
            "engine": "lean4-proof+correspondence",
            "level_claimed": {"category": "proof", "text": c["text"], "design_ref": c["design"]},
            "level_note": c["note"],
            "technique": c["technique"],
        })
    all_ids = [json.loads(l)["id"] for l in (VERIF / "properties.jsonl").read_text().splitlines() if l.strip()]
    na = [{"property_id": p, "reason": NOT_APPLICABLE.get(p, "check not built yet in this round (work in progress; see DESIGN.md section 8)")}
          for p in all_ids if p not in CHECKS]
    m = {
        "version": 1,
        "setup_cmd": "/venv/bin/python -m harness.extract /repo && cd lean && lake build Stingray",
        "hooks": {
            "guard": "STINGRAY_READER_VERIF",
            "enable": "no source hooks: every observation is through the public API, /proc/self/fd or harness-side wrappers; the harness sets STINGRAY_READER_VERIF=1 for uniformity",
            "baseline_off_cmd": "cd /repo && /venv/bin/python -m pytest -ra -q -p no:cacheprovider --timeout=900 --continue-on-collection-errors",
            "source_commits": [],
            "add_only": True,
        },
        "engines": [{
            "name": "lean4-proof+correspondence",
            "path": "lean/ (models, theorems, ties, driver) + harness/ (extract.py, cXX.py, common.py)",
            "serves_properties": sorted(CHECKS),
            "kind_free_text": "machine-checked proof in Lean 4 about executable models; models tied to /repo on every run by AST extraction (Tie theorems) and differential execution through a line protocol",
        }],
        "checks": checks,
        "not_applicable": na,
        "notes": "Each check: extract -> lake build Props+Tie -> #print axioms audit -> correspondence (real code vs Lean driver) -> spec-level oracle -> decision. See DESIGN.md.",
    }
    (VERIF / "MANIFEST.json").write_text(json.dumps(m, indent=1) + "\n")

if __name__ == "__main__":
    main()
