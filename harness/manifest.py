"""Regenerate MANIFEST.json from the table below (keeps it valid at all times)."""
import json
from pathlib import Path

VERIF = Path(__file__).resolve().parent.parent

CHECKS = {
    "C05": dict(
        text="Lean 4 theorems (Props/C05.lean) prove for every record list, every legal VB blocking and every announced-length "
             "sequence that the reader model returns exactly the records written; the model is tied to estruct.py on every run "
             "by extraction of RECFM_N's refill statement (Tie/C05.step_eq) and by differential execution against the real readers.",
        note="Trusted: Lean kernel; file object = read(n) gives next min(n, remaining) bytes; struct '>H2x' = word/unword; "
             "extract.py; correspondence sampling (record lengths around the 32768 boundary, random blockings). "
             "F/V/VB loops are modelled by hand (correspondence only), RECFM_N's refill arithmetic is extracted.",
        technique="Lean 4 proof by induction over the record list with a buffer invariant; extraction tie + differential correspondence",
        design="5/C05"),
}

CHECKS["C17"] = dict(
    text="Lean 4: name cleaning is a well-founded recursion (termination proved with the measure 'characters outside [A-Za-z_]'); "
         "clean_legal, clean_id_on_legal, clean_idempotent, clean_ne_nil hold for every string. Tied to workbook.name_cleaner by "
         "extraction of the pattern/flags/replace chain and by exhaustive differential execution on short strings.",
    note="Trusted: Lean kernel; Python's re engine on this pattern is modelled by `rest` (longest legal prefix + remainder) and "
         "str.replace by replaceChar/collapse, validated exhaustively over a 12-symbol alphabet up to length 4 (quick) / 5 (thorough) "
         "and on random Unicode; jsonschema.check_schema observed on heading-row schemas.",
    technique="Lean 4 proof (well-founded recursion, functional induction); pinned-source tie + exhaustive differential correspondence",
    design="5/C17")

CHECKS["C16"] = dict(
    text="Lean 4: digit_string_exact (every n>=1, every v<10^n: n digit characters whose value is v), places_scale, "
         "places_half_ulp (half-even rounding within half a unit of the last place, in exact integer arithmetic), places_idempotent, "
         "places_ok_of_small, conversion_types. Tied to schema_instance.py by pinned sources of the two one-liners, the extracted "
         "CONVERSION table, and differential execution (exhaustive for n<=4 in three numeric representations).",
    note="Trusted: Lean kernel; str(int)=Nat.toDigits 10, int() of integral float/Decimal, Decimal(value) exactness and "
         "Decimal.quantize (half-even, InvalidOperation above 28 digits) are library behaviour modelled by hand and validated by the "
         "correspondence; finite values only.",
    technique="Lean 4 proof (core Nat.toDigits lemmas, omega over div/mod) + pinned-source/extracted-table tie + differential correspondence",
    design="5/C16")

NOT_APPLICABLE = {
}

def main():
    checks = []
    for pid, c in sorted(CHECKS.items()):
        checks.append({
            "property_id": pid,
            "quick_cmd": f"./check {pid} --tier quick",
            "thorough_cmd": f"./check {pid} --tier thorough",
            "evidence_file": f"evidence/{pid}.json",
            "replay_cmd_template": f"./check {pid} --replay {{path}}",
            "engine": "lean4-proof+correspondence",
            "level_claimed": {"category": "proof", "text": c["text"], "design_ref": c["design"]},
            "level_note": c["note"],
            "technique": c["technique"],
        })
    all_ids = [json.loads(l)["id"] for l in (VERIF / "properties.jsonl").read_text().splitlines() if l.strip()]
    na = [{"property_id": p, "reason": NOT_APPLICABLE.get(p, "check not built yet in this round (work in progress; see DESIGN.md section 8)")}
          for p in all_ids if p not in CHECKS]
    m = {
        "version": 1,
        "setup_cmd": "/venv/bin/python -m harness.extract /repo && cd lean && lake build Stingray",
        "hooks": {
            "guard": "STINGRAY_READER_VERIF",
            "enable": "no source hooks: every observation is through the public API, /proc/self/fd or harness-side wrappers; the harness sets STINGRAY_READER_VERIF=1 for uniformity",
            "baseline_off_cmd": "cd /repo && /venv/bin/python -m pytest -ra -q -p no:cacheprovider --timeout=900 --continue-on-collection-errors",
            "source_commits": [],
            "add_only": True,
        },
        "engines": [{
            "name": "lean4-proof+correspondence",
            "path": "lean/ (models, theorems, ties, driver) + harness/ (extract.py, cXX.py, common.py)",
            "serves_properties": sorted(CHECKS),
            "kind_free_text": "machine-checked proof in Lean 4 about executable models; models tied to /repo on every run by AST extraction (Tie theorems) and differential execution through a line protocol",
        }],
        "checks": checks,
        "not_applicable": na,
        "notes": "Each check: extract -> lake build Props+Tie -> #print axioms audit -> correspondence (real code vs Lean driver) -> spec-level oracle -> decision. See DESIGN.md.",
    }
    (VERIF / "MANIFEST.json").write_text(json.dumps(m, indent=1) + "\n")

if __name__ == "__main__":
    main()
