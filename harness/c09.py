"""
C09 -- header-row / external schemas: by-name access, any column order, no row skipped.

Proof:           lean/Stingray/Props/C09.lean (rows_once_in_order, empty_sheet_no_rows, headingSchema_nodup, by_name,
                 short_row_absent, present_cells_unshifted, values_in_header_order, perm_invariant, external_positions)
Tie:             pinned sources of HeadingRowSchemaLoader.header, WBNav.name, Sheet.row_iter, ExternalSchemaLoader.load, Row.values
                 (Tie/C09.lean) and correspondence: CSV / XLSX files from generated tables x column permutations x ragged rows x
                 empty sheets, observed through the real classes vs Facade.observe
Oracle:          value-by-name invariance under ALL column permutations (n <= 5), row count and order, Row.values(), absent cells,
                 external schema sheets
"""
from __future__ import annotations

import itertools
import tempfile
from pathlib import Path
from typing import Any

from harness.common import Check, err_enum
from harness.facade_common import (ABSENT, cell_text, delivered_token, gen_table, hexcell, obs_token, observe_heading, write_csv,
                                   write_xlsx)


def observe_file(path: Path) -> Any:
    import stingray.implementations  # noqa: F401  (registers the spreadsheet suffixes)
    from stingray.workbook import open_workbook

    try:
        with open_workbook(path) as wb:
            return observe_heading(wb)
    except BaseException as ex:  # noqa: BLE001
        return err_enum(ex)


def ragged(rng, t: list[list[str]]) -> list[list[str]]:
    out = [t[0]]
    for r in t[1:]:
        out.append(r[: rng.randint(0, len(r))] if rng.random() < 0.4 else r)
    return out


def explore(ck: Check, n_tables: int, xlsx_every: int) -> None:
    from stingray.schema_instance import SchemaMaker
    from stingray.workbook import CSV_Workbook, ExternalSchemaLoader, HeadingRowSchemaLoader

    rng = ck.rng
    reqs: list[str] = []
    impl: list[str] = []
    inputs: list[Any] = []
    with tempfile.TemporaryDirectory(prefix="verif_c09_") as td:
        tdp = Path(td)
        for i in range(n_tables):
            t = gen_table(rng, n_cols=rng.randint(1, 5), cleaning_headers=rng.random() < 0.3)
            t = [[c if c.strip() else "x" for c in r] for r in t]
            kind = "full"
            if rng.random() < 0.35:
                t = ragged(rng, t)
                kind = "ragged"
            fmt = "xlsx" if (xlsx_every and i % xlsx_every == 0 and kind == "full") else "csv"
            if i % 7 == 5 and len(t[0]) > 1 and fmt == "csv":
                # one heading cell is the empty text: still a distinct name (CSV only: a spreadsheet cannot tell '' from an absent cell)
                t[0][rng.randrange(len(t[0]))] = ""
                ck.histogram["heading/empty-text"] += 1
            if i % 5 == 2 and kind == "full":
                # a body row whose cells are exactly the heading texts (a lookup table of its own column names, a concatenated
                # export): an ordinary physical row, delivered once like any other
                t.insert(rng.randint(1, len(t)), list(t[0]))
                if rng.random() < 0.5:
                    t.append(list(t[0]))
                ck.histogram["body/row-equal-to-heading"] += 1
            inp = {"table": t, "format": fmt}
            path = tdp / f"t{i}.{fmt}"
            (write_xlsx(path, {"S": t}) if fmt == "xlsx" else write_csv(path, t))
            base = observe_file(path)
            ck.case((fmt, str(t)), feature=f"{fmt}/{kind}")
            ck.oracle_evaluations += 1
            # ---- oracle 1: the rows after the heading, once, in order; cell under each header; absent for short rows
            if isinstance(base, str):
                ck.fail("read-fails", f"reading a {fmt} table with a heading row raises {base}", inp)
                continue
            _, header, body = base[0]
            want = [[(r[j] if j < len(r) else ABSENT) for j in range(len(t[0]))] for r in t[1:]]
            if header != t[0] or body != want:
                what = ("header names differ" if header != t[0] else f"{len(body)} rows delivered for {len(want)} written"
                        if len(body) != len(want) else "a cell is read under the wrong name or a short row shifts its cells")
                ck.fail("by-name", f"{fmt}: {what}", inp)
            if fmt == "csv":
                reqs.append(f"FAC observe {delivered_token([('', t)])}")
                impl.append(obs_token(base))
                inputs.append(inp)
            # Row.values() == cells in header order
            try:
                with CSV_Workbook(path) if fmt == "csv" else __import__("stingray.workbook", fromlist=["open_workbook"]).open_workbook(path) as wb:
                    for sheet in wb.sheet_iter():
                        sheet.set_schema_loader(HeadingRowSchemaLoader())
                        for row, w in zip(sheet.rows(), want):
                            if [cell_text(v) for v in row.values()] != w:
                                ck.fail("row-values", f"{fmt}: Row.values() is not the cells in header order", inp)
                                break
            except BaseException as ex:  # noqa: BLE001
                ck.fail("row-values", f"{fmt}: Row.values() raises {type(ex).__name__}", inp)
            # ---- oracle 2: every column permutation leaves every value-by-name unchanged (full rows, csv)
            if kind == "full" and fmt == "csv" and len(t[0]) <= 5:
                perms = list(itertools.permutations(range(len(t[0]))))
                ck.exhaustive_parts.append("all column permutations of tables with <= 5 columns") if not ck.exhaustive_parts else None
                for sigma in perms if len(perms) <= 24 else rng.sample(perms, 24):
                    tp = [[r[j] for j in sigma] for r in t]
                    pp = tdp / f"p{i}.csv"
                    write_csv(pp, tp)
                    got = observe_file(pp)
                    ck.oracle_evaluations += 1
                    if isinstance(got, str):
                        ck.fail("permutation", f"permuted file raises {got}", {"table": tp})
                        break
                    _, h2, b2 = got[0]
                    by_name = [dict(zip(h2, r)) for r in b2]
                    base_by_name = [dict(zip(header, r)) for r in body]
                    if by_name != base_by_name:
                        ck.fail("permutation", f"values obtained by name change when the columns are permuted by {sigma}", {"table": t, "sigma": sigma})
                        break
            # ---- oracle 2b: ONE loader object handed to two sheets whose headings differ (columns permuted, the last one dropped):
            # the second sheet's schema is ITS heading, in its order; values() and values by name are its cells
            if fmt == "csv" and kind == "full" and len(t) > 1 and len(t[0]) >= 2 and i % 3 == 1:
                ck.oracle_evaluations += 1
                sigma2 = list(range(len(t[0])))
                rng.shuffle(sigma2)
                sigma2 = sigma2[:-1] if len(sigma2) > 2 else sigma2
                t2 = [[r[j] for j in sigma2] for r in t]
                p2 = tdp / f"q{i}.csv"
                write_csv(p2, t2)
                try:
                    loader = HeadingRowSchemaLoader()
                    seen = []
                    for pth in (path, p2):
                        with CSV_Workbook(pth) as wb_:
                            sh_ = wb_.sheet("")
                            sh_.set_schema_loader(loader)
                            body_ = [([cell_text(v) for v in row.values()], {h: cell_text(row.name(h).value()) for h in (t[0] if pth is path else t2[0])})
                                     for row in sh_.rows()]
                            seen.append((list(sh_.schema.properties), body_))    # type: ignore[union-attr]
                    names2, body2 = seen[1]
                    if names2 != t2[0]:
                        ck.fail("loader-reuse", f"one loader object used for two sheets: the second sheet's schema lists {names2}, its heading is {t2[0]}",
                                {"first": t, "second": t2})
                    elif [b[0] for b in body2] != t2[1:] or [b[1] for b in body2] != [dict(zip(t2[0], r)) for r in t2[1:]]:
                        ck.fail("loader-reuse", "one loader object used for two sheets: the second sheet's values() / values by name are not its cells "
                                                "in its heading's order", {"first": t, "second": t2})
                except BaseException as ex:  # noqa: BLE001
                    ck.fail("loader-reuse", f"one loader object used for two sheets raises {type(ex).__name__}: {str(ex)[:80]}", {"first": t, "second": t2})
            # ---- oracle 3: histories of one Sheet object: a second pass (the caller rewinds its file object) skips the heading row
            # again and uses the NEW header; a schema bound before the heading-row loader does not survive it
            if fmt == "csv" and kind == "full" and len(t) > 1 and i % 3 == 0:
                import io as _io
                ck.oracle_evaluations += 1
                try:
                    sigma = list(range(len(t[0])))
                    rng.shuffle(sigma)
                    tp = [[r[j] for j in sigma] for r in t]
                    buf = _io.StringIO()
                    import csv as _csv
                    _csv.writer(buf).writerows(t)
                    first_len = buf.tell()
                    wb2 = CSV_Workbook(Path("two_pass.csv"), file_object=buf)
                    sheet2 = wb2.sheet("")
                    if rng.random() < 0.5:
                        sheet2.set_schema(SchemaMaker.from_json({"type": "object", "properties": {"ZZ": {"type": "string", "position": 0}}}))
                    sheet2.set_schema_loader(HeadingRowSchemaLoader())
                    passes = []
                    sops = (["S=" + hexcell("ZZ")] if hasattr(sheet2, "schema") else []) + ["L=h"]
                    simpl = []
                    for content in (t, tp):
                        buf.seek(0); buf.truncate(0)
                        _csv.writer(buf).writerows(content)
                        buf.seek(0)
                        rows2 = list(sheet2.rows())
                        passes.append([{h: cell_text(r.name(h).value()) for h in t[0]} for r in rows2])
                        sops.append("P=" + "/".join(".".join(hexcell(c) for c in r) if r else "~" for r in content))
                        props = sheet2.schema.properties  # type: ignore[attr-defined]
                        simpl.append(".".join(f"{hexcell(k)}@{v.attributes['position']}" for k, v in props.items()) + ":" +
                                     ("/".join(".".join(hexcell(cell_text(c)) for c in r.instance) for r in rows2) or "!"))
                    # … and a schema bound with set_schema AFTER the heading-row loader was used: every row of the next pass is
                    # delivered (the heading-row loader is gone), read through the bound schema
                    hand = SchemaMaker.from_json({"type": "object", "properties": {f"K{j}": {"type": "string", "position": j} for j in range(len(t[0]))}})
                    sheet2.set_schema(hand)
                    buf.seek(0); buf.truncate(0)
                    _csv.writer(buf).writerows(t)
                    buf.seek(0)
                    rows3 = list(sheet2.rows())
                    got3 = [[cell_text(r.name(f"K{j}").value()) for j in range(len(t[0]))] for r in rows3]
                    if got3 != t:
                        ck.fail("by-name", f"csv: after set_schema() on a sheet that had the heading-row loader, a pass delivers {len(got3)} rows "
                                           f"for {len(t)} physical rows / other cells", {"table": t})
                    sops += ["S=" + ".".join(hexcell(f"K{j}") for j in range(len(t[0]))),
                             "P=" + "/".join(".".join(hexcell(c) for c in r) if r else "~" for r in t)]
                    simpl.append(".".join(f"{hexcell(f'K{j}')}@{j}" for j in range(len(t[0]))) + ":" +
                                 ("/".join(".".join(hexcell(cell_text(c)) for c in r.instance) for r in rows3) or "!"))
                    reqs.append("FAC sheet " + " ".join(sops))
                    impl.append("|".join(simpl))
                    inputs.append({"table": t, "sigma": sigma, "what": "two passes over one Sheet object"})
                    want_named = [dict(zip(t[0], r)) for r in t[1:]]
                    if passes[0] != want_named or passes[1] != want_named:
                        which = "first" if passes[0] != want_named else "second"
                        ck.fail("by-name", f"csv: the {which} pass over one Sheet object (second pass: columns permuted by {sigma}) delivers "
                                           f"{len(passes[0 if which == 'first' else 1])} rows / other values than the {len(want_named)} rows written",
                                {"table": t, "sigma": sigma})
                except BaseException as ex:  # noqa: BLE001
                    ck.fail("by-name", f"csv: re-reading one Sheet object raises {err_enum(ex)}: {str(ex)[:60]}", {"table": t})
            if i < 2:
                ck.sample({"table": t[:3], "format": fmt})
        # ---- empty sheets and header-only sheets
        for fmt in ("csv", "xlsx"):
            for t, label in (([], "no-rows"), ([["A", "B"]], "header-only")):
                path = tdp / f"e_{label}.{fmt}"
                if fmt == "csv":
                    write_csv(path, t)
                else:
                    write_xlsx(path, {"S": t})
                got = observe_file(path)
                ck.case((fmt, label), feature=f"{fmt}/{label}")
                ck.oracle_evaluations += 1
                if isinstance(got, str):
                    ck.fail("empty-sheet", f"{fmt} sheet with {label}: rows() raises {got} instead of yielding no rows", {"format": fmt, "table": t})
                elif got[0][2] != []:
                    ck.fail("empty-sheet", f"{fmt} sheet with {label} yields rows", {"format": fmt, "table": t})
                if fmt == "csv" and not isinstance(got, str):
                    reqs.append(f"FAC observe {delivered_token([('', t)])}")
                    impl.append(obs_token(got))
                    inputs.append({"format": fmt, "table": t})
        # a workbook with an empty sheet among others: iterating ALL sheets with the heading loader must survive
        path = tdp / "multi.xlsx"
        write_xlsx(path, {"S1": [["A"], ["1"]], "EMPTY": [], "S3": [["B"], ["2"]]})
        got = observe_file(path)
        ck.oracle_evaluations += 1
        if isinstance(got, str) or [g[0] for g in got] != ["S1", "EMPTY", "S3"] or got[2][2] != [["2"]]:
            ck.fail("empty-sheet", f"a workbook with an empty sheet between two others cannot be iterated: {str(got)[:80]}", {"format": "xlsx"})
        # ---- headings that are not text (spreadsheets deliver numbers): the column is still named by the heading's text
        for k in range(3):
            import openpyxl
            heads: list[Any] = ["region", 2019 + k, 2020.5, f"Q{k}"]
            rng.shuffle(heads)
            body = [[f"r{j}c{c}" for c in range(len(heads))] for j in range(3)]
            path = tdp / f"numhead{k}.xlsx"
            wbx = openpyxl.Workbook()
            wsx = wbx.active
            wsx.append(heads)
            for r in body:
                wsx.append(r)
            wbx.save(path)
            ck.case(("numeric-headings", str(heads)), feature="xlsx/numeric-headings")
            ck.oracle_evaluations += 1
            got = observe_file(path)
            want_h = [str(h) for h in heads]
            if isinstance(got, str) or got[0][1] != want_h or got[0][2] != body:
                ck.fail("by-name", f"xlsx with headings {heads!r}: columns are not reachable under the headings' texts {want_h}: {str(got)[:120]}",
                        {"headings": [str(h) for h in heads], "format": "xlsx"})
        # ---- external schema sheet: (name, description, type) rows -> properties in order, positions 0..n-1, same reads
        for i in range(max(5, n_tables // 10)):
            names = gen_table(rng, n_cols=rng.randint(1, 5), n_rows=0, cleaning_headers=(i % 2 == 0))[0]   # some names are not legal anchors
            spath = tdp / f"schema{i}.csv"
            write_csv(spath, [[n, f"desc {n}", "string"] for n in names])
            data = gen_table(rng, n_cols=len(names), n_rows=rng.randint(1, 4))
            data[0] = names
            dpath = tdp / f"data{i}.csv"
            write_csv(dpath, data[1:])
            ck.case(("external", str(names)), feature="external-schema")
            ck.oracle_evaluations += 1
            try:
                with CSV_Workbook(spath) as swb:
                    ssheet = swb.sheet("").set_schema(SchemaMaker.from_json(ExternalSchemaLoader.META_SCHEMA))
                    doc = ExternalSchemaLoader(ssheet).load()
                props = doc["properties"]
                if list(props) != names or [p["position"] for p in props.values()] != list(range(len(names))):
                    ck.fail("external-schema", "external schema: names/positions are not the sheet's rows in order", {"names": names})
                hand = {"type": "object", "properties": {n: {"type": "string", "position": k} for k, n in enumerate(names)}}
                # the same schema listed in another order / with a column left out: the recorded positions still decide
                resorted = {**doc, "properties": {k: doc["properties"][k] for k in sorted(doc["properties"], reverse=True)}}
                with CSV_Workbook(dpath) as dwb:
                    sh = dwb.sheet("").set_schema(SchemaMaker.from_json(resorted))
                    rr = [[cell_text(r.name(n).value()) for n in names] for r in sh.rows()]
                if rr != data[1:]:
                    ck.fail("external-schema", "an external schema re-listed in another order reads other cells under the same names", {"names": names})
                reads = []
                for d in (doc, hand):
                    with CSV_Workbook(dpath) as dwb:
                        sh = dwb.sheet("").set_schema(SchemaMaker.from_json(d))
                        reads.append([[cell_text(r.name(n).value()) for n in names] for r in sh.rows()])
                if reads[0] != reads[1] or reads[0] != data[1:]:
                    ck.fail("external-schema", "data read with the external schema differ from the hand-written schema / the file", {"names": names})
            except BaseException as ex:  # noqa: BLE001
                ck.fail("external-schema", f"external schema loading raises {type(ex).__name__}: {str(ex)[:80]}", {"names": names})
    model = ck.driver.run(reqs)
    ck.compare_streams("heading-row observation of real CSV files vs Facade.observe", inputs, impl, model)


def run(ck: Check) -> int:
    ck.rule = ("tables with 1-5 distinct header names (some needing cleaning), 0-8 rows of non-empty text cells (quotes, delimiters, leading "
               "zeros, non-ASCII), some rows cut short; written as CSV (and XLSX), read through open_workbook + HeadingRowSchemaLoader; every "
               "column permutation for tables of <= 4 columns (24 sampled beyond); empty and header-only sheets; external schema sheets; "
               "distinct by (format, table)")
    ck.trusted_extra = ["csv / openpyxl deliver the rows and cells that were written (observed, not proved)",
                        "the library's 'absent' marker is the value [None]"]
    ck.assumptions = ["header names are distinct", "cells are non-empty text"]
    ck.prove(["Stingray.Props.C09", "Stingray.Tie.C09"])
    explore(ck, 60 if ck.tier == "quick" else 1000, 6 if ck.tier == "quick" else 4)
    return ck.finish(search=lambda c: explore(c, 200, 5))


def replay(ck: Check, data: dict[str, Any]) -> int:
    return run(ck)
