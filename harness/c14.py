"""
C14 -- workbooks are opened by suffix and always release their file.

Proof:           lean/Stingray/Props/C14.lean (later_registration_wins, registration_is_local, unknown_suffix_refused,
                 registry_history + unrelated_registration_irrelevant over EVERY history of multi-suffix registrations,
                 exit_releases, exit_releases_forever, close_idempotent, close_after_exit)
Tie:             pinned sources of the registry and of every close()/__exit__ (Tie/C14.lean); correspondence of the registry and of
                 the life-cycle machine with the real classes
Oracle:          FAULT ENUMERATION: for every workbook class x every point k at which the body raises (before the first sheet, in the
                 header phase, after row k for every k, after exhaustion) x {path opened by the library, file object supplied by the
                 caller}: after the with-block no descriptor of this process resolves to the workbook's file (/proc/self/fd, no
                 garbage collection forced) and the caller's file object is closed; double close is harmless; unknown suffix ->
                 NotImplementedError with nothing opened
PARTIAL:         the OS descriptor table and handles held inside third-party libraries are observed, not modelled.
"""
from __future__ import annotations

import io
import tempfile
from pathlib import Path
from typing import Any

from harness.common import Check, err_enum
from harness.facade_common import (copybook_for, fds_on, gen_table, write_csv, write_ebcdic, write_fixed_text, write_ndjson,
                                   write_numbers, write_ods, write_xlsx)


class Boom(Exception):
    pass


def explore(ck: Check, slow: bool) -> None:
    import stingray.estruct as E
    import stingray.implementations as IM
    from stingray.cobol_parser import schema_iter
    from stingray.schema_instance import SchemaMaker
    from stingray.workbook import (COBOL_EBCDIC_File, COBOL_Text_File, CSV_Workbook, HeadingRowSchemaLoader, JSON_Workbook,
                                   WBFileRegistry, file_registry, open_workbook)

    rng = ck.rng
    reqs: list[str] = []
    impl: list[str] = []
    inputs: list[Any] = []
    with tempfile.TemporaryDirectory(prefix="verif_c14_") as td:
        tdp = Path(td)
        t = gen_table(rng, n_cols=3, n_rows=5, fixed_safe=True)
        widths = [10, 10, 10]
        cschema = SchemaMaker.from_json(next(iter(schema_iter(io.StringIO(copybook_for(t, widths))))))
        jschema = SchemaMaker.from_json({"type": "object", "properties": {h: {"type": "string"} for h in t[0]}})
        files: dict[str, tuple[Path, Any, Any, str]] = {}
        p = tdp / "w.csv"; write_csv(p, t); files["CSV_Workbook"] = (p, lambda path, fo=None: CSV_Workbook(path, fo) if fo else open_workbook(path), "heading", "r")
        p = tdp / "w.ndjson"; write_ndjson(p, t); files["JSON_Workbook"] = (p, lambda path, fo=None: JSON_Workbook(path, fo) if fo else open_workbook(path), jschema, "r")
        p = tdp / "w.txt"; write_fixed_text(p, t, widths); files["COBOL_Text_File"] = (p, lambda path, fo=None: COBOL_Text_File(path, fo), cschema, "r")
        p = tdp / "w.ebc"; write_ebcdic(p, t, widths); files["COBOL_EBCDIC_File"] = (p, lambda path, fo=None: COBOL_EBCDIC_File(path, fo, recfm_class=E.RECFM_F, lrecl=30), cschema, "rb")
        p = tdp / "w.xlsx"; write_xlsx(p, {"S": t}); files["XLSX_Workbook"] = (p, lambda path, fo=None: open_workbook(path), "heading", None)
        # the documented pass-through keyword: openpyxl's streaming mode keeps the archive open for the life of the document
        files["XLSX_Workbook/read_only"] = (p, lambda path, fo=None: IM.XLSX_Workbook(path, read_only=True), "heading", None)
        xls = Path("/repo/sample/excel97_workbook.xls")
        if xls.exists():
            files["XLS_Workbook"] = (xls, lambda path, fo=None: open_workbook(path), "heading", None)
        if slow:
            p = tdp / "w.ods"; write_ods(p, {"S": t}); files["ODS_Workbook"] = (p, lambda path, fo=None: open_workbook(path), "heading", None)
        p = tdp / "w.numbers"; write_numbers(p, {"S": t}); files["Numbers_Workbook"] = (p, lambda path, fo=None: open_workbook(path), "heading", None)

        n_rows = len(t) - 1
        points = ["before-first-sheet", "header-phase"] + [f"after-row-{k}" for k in range(1, n_rows + 1)] + ["after-exhaustion", "no-raise"]
        ck.exhaustive_parts.append(f"every workbook class x {len(points)} raise points x {{path, caller's file object}}")
        for cls, (path, opener, schema, mode) in files.items():
            for supplied in ([False, True] if mode else [False]):
                for point in points:
                    ck.case((cls, supplied, point), feature=f"{cls}/{'file-object' if supplied else 'path'}")
                    ck.oracle_evaluations += 1
                    inp = {"class": cls, "raise_at": point, "file_object_supplied": supplied}
                    fo = path.open(mode) if supplied else None
                    trace = ["open"]
                    got_cls = None
                    try:
                        with (opener(path, fo) if supplied else opener(path)) as wb:
                            got_cls = type(wb).__name__
                            if point == "before-first-sheet":
                                trace.append("raise"); raise Boom()
                            for sheet in wb.sheet_iter():
                                if schema == "heading":
                                    sheet.set_schema_loader(HeadingRowSchemaLoader())
                                else:
                                    sheet.set_schema(schema)
                                it = sheet.rows()
                                if point == "header-phase":
                                    next(it, None)
                                    trace += ["iter", "raise"]; raise Boom()
                                k = 0
                                for row in it:
                                    k += 1
                                    trace.append("iter")
                                    if point == f"after-row-{k}":
                                        trace.append("raise"); raise Boom()
                                if point == "after-exhaustion":
                                    trace.append("raise"); raise Boom()
                                break
                    except Boom:
                        pass
                    except BaseException as ex:  # noqa: BLE001
                        ck.fail(f"lifecycle:{cls}", f"{cls}: unexpected {type(ex).__name__} at {point}: {str(ex)[:60]}", inp)
                    trace.append("exit")
                    if cls.endswith("/read_only"):
                        # openpyxl's streaming reader: a half-consumed row iterator that the CALLER still holds pins the archive
                        # (zipfile keeps the file open while a member is open).  That is the caller's reference, not the workbook's:
                        # the iteration is abandoned before the descriptors are counted.  No garbage collection is forced.
                        it = row = sheet = None
                    left = fds_on(path)
                    if got_cls is not None and got_cls != cls.split("/")[0]:
                        ck.fail("opened-wrong-class", f"{path.suffix} opened as {got_cls}, registered class is {cls}", inp)
                    if left != 0:
                        sig = "numbers-fd-until-gc" if cls == "Numbers_Workbook" else f"leak:{cls}"
                        ck.fail(sig, f"{cls}: {left} descriptor(s) on the workbook's file still open after the with-block (raise at {point})", inp)
                    if supplied and fo is not None and not fo.closed:
                        ck.fail(f"leak:{cls}", f"{cls}: the caller's file object is still open after the with-block (raise at {point})", inp)
                    # double close is harmless
                    try:
                        wb.close(); wb.close()
                        trace += ["close", "close"]
                    except BaseException as ex:  # noqa: BLE001
                        ck.fail(f"double-close:{cls}", f"{cls}: closing an already closed workbook raises {type(ex).__name__}", inp)
                    if cls != "Numbers_Workbook" and "/" not in cls:
                        reqs.append("FAC life " + " ".join(trace))
                        impl.append(f"{left} true")
                        inputs.append(inp)
        ck.sample({"classes": sorted(files), "raise_points": points})

        # ---- two workbooks of the SAME class open at the same time (a master file and a second file), nested: after both with-blocks
        # no descriptor on either file is left and both of the caller's file objects are closed
        import shutil
        for cls, (path, opener, schema, mode) in files.items():
            if cls in ("Numbers_Workbook", "XLS_Workbook") or "/" in cls:
                continue
            path2 = tdp / ("second" + path.suffix)
            shutil.copy(path, path2)
            for supplied in ([False, True] if mode else [False]):
                for inner_raises in (False, True):
                    ck.case((cls, supplied, "nested", inner_raises), feature=f"{cls}/two-open-at-once")
                    ck.oracle_evaluations += 1
                    inp = {"class": cls, "two_workbooks_open_at_once": True, "file_object_supplied": supplied, "inner_block_raises": inner_raises}
                    fo1 = path.open(mode) if supplied else None
                    fo2 = path2.open(mode) if supplied else None

                    def bind(sheet: Any) -> Any:
                        return sheet.set_schema_loader(HeadingRowSchemaLoader()) if schema == "heading" else sheet.set_schema(schema)

                    try:
                        with (opener(path, fo1) if supplied else opener(path)) as outer:
                            s1 = next(iter(outer.sheet_iter()))
                            bind(s1)
                            it1 = s1.rows()
                            next(it1, None)
                            try:
                                with (opener(path2, fo2) if supplied else opener(path2)) as inner:
                                    s2 = next(iter(inner.sheet_iter()))
                                    bind(s2)
                                    it2 = s2.rows()
                                    next(it2, None)
                                    if inner_raises:
                                        raise Boom()
                            except Boom:
                                pass
                            next(it1, None)
                    except BaseException as ex:  # noqa: BLE001
                        ck.fail(f"lifecycle:{cls}", f"{cls}: two workbooks open at once: unexpected {type(ex).__name__}: {str(ex)[:60]}", inp)
                    it1 = it2 = s1 = s2 = None
                    left = (fds_on(path), fds_on(path2))
                    if left != (0, 0):
                        ck.fail(f"leak:{cls}", f"{cls}: two workbooks open at once: {left[0]} descriptor(s) on the first file and {left[1]} on the second "
                                               f"still open after both with-blocks", inp)
                    if supplied and not (fo1.closed and fo2.closed):   # type: ignore[union-attr]
                        ck.fail(f"leak:{cls}", f"{cls}: two workbooks open at once: the caller's file objects are closed={fo1.closed},{fo2.closed} "  # type: ignore[union-attr]
                                               f"after both with-blocks", inp)
                        for f_ in (fo1, fo2):
                            f_.close()  # type: ignore[union-attr]

        # ---- registry
        regs = [f"{s}={c.__name__}" for s, c in file_registry.suffix_map.items()]
        for suffix in list(file_registry.suffix_map) + [".txt", ".xyz", "", ".CSV"]:
            ck.case(("open", suffix), feature="registry")
            ck.oracle_evaluations += 1
            probe = tdp / f"probe{suffix}"
            existed = probe.exists()
            try:
                cls_ = file_registry.suffix_map[suffix]
                out = cls_.__name__
            except KeyError:
                try:
                    open_workbook(tdp / f"does-not-exist{suffix}")
                    out = "opened"
                except NotImplementedError:
                    out = "NotImplementedError"
                except BaseException as ex:  # noqa: BLE001
                    out = err_enum(ex)
                if out != "NotImplementedError":
                    ck.fail("unknown-suffix", f"unknown suffix {suffix!r}: {out} instead of NotImplementedError", {"suffix": suffix})
            reqs.append(f"FAC open {suffix or '.'} " + " ".join(regs).replace("=", "=") if suffix else "FAC open .nosuffix " + " ".join(regs))
            impl.append(out)
            inputs.append({"suffix": suffix})
        # a later registration replaces the earlier one (on a private registry: the module-level one is left alone)
        reg = WBFileRegistry()

        @reg.file_suffix(".dat", ".csv")
        class First(CSV_Workbook):
            pass

        @reg.file_suffix(".csv")
        class Second(CSV_Workbook):
            pass

        ck.oracle_evaluations += 1
        with reg.open_workbook(files["CSV_Workbook"][0]) as wb:
            if type(wb).__name__ != "Second":
                ck.fail("registration-order", "a later registration for .csv did not replace the earlier one", {})
        if reg.suffix_map[".dat"].__name__ != "First":
            ck.fail("registration-order", "registering .csv again disturbed .dat", {})
        @reg.file_suffix(".aa", ".bb", ".cc", ".dd")
        class Many(CSV_Workbook):
            pass

        ck.oracle_evaluations += 1
        lost = [sfx for sfx in (".aa", ".bb", ".cc", ".dd") if reg.suffix_map.get(sfx) is not Many]
        if lost:
            ck.fail("registration-order", f"one registration naming four suffixes: {lost} are not registered", {"suffixes": lost})
        ck.oracle_evaluations += 1
        missing = [sfx for sfx in (".csv", ".json", ".ndjson", ".jsonnl", ".xls", ".xlsx", ".ods", ".numbers") if sfx not in file_registry.suffix_map]
        if missing:
            ck.fail("registration-order", f"built-in suffixes not registered: {missing}", {"suffixes": missing})
        reqs.append("FAC open .csv .dat=First .csv=First .csv=Second")
        impl.append("Second")
        inputs.append({"registry": "private"})
        reqs.append("FAC open .dat .dat=First .csv=First .csv=Second")
        impl.append("First")
        inputs.append({"registry": "private"})
        # ---- registration HISTORIES on private registries: any number of registrations, each naming any number of suffixes
        # (theorem registry_history: the last registration naming the suffix decides; nobody names it -> NotImplementedError).
        # The workbook is really opened through reg.open_workbook() on a file carrying that suffix.
        vocab = [".aa", ".bb", ".cc", ".dd", ".ee", ".AA"]
        classes = {n: type(n, (CSV_Workbook,), {}) for n in ("K0", "K1", "K2", "K3")}
        for sfx in vocab + [".zz"]:
            write_csv(tdp / f"hist{sfx}", t)
        n_hist = 60 if slow else 12
        for hno in range(n_hist):
            # the first two are fixed: the empty history and one registration naming a suffix twice
            if hno == 0:
                hist: list[tuple[list[str], str]] = []
            elif hno == 1:
                hist = [([".aa", ".bb", ".aa"], "K0"), ([".bb"], "K1"), ([".cc", ".aa"], "K2"), ([".bb"], "K0")]
            else:
                hist = [([rng.choice(vocab) for _ in range(rng.randint(1, 3))], rng.choice(list(classes)))
                        for _ in range(rng.randint(1, 6))]
            reg2 = WBFileRegistry()
            # ONE registry object: every suffix is really opened after EACH registration of the history (and before the first), so
            # that an open lies between any two registrations; by registry_history the prefix registered so far decides
            for upto in range(len(hist) + 1):
                if upto:
                    names, cname = hist[upto - 1]
                    reg2.file_suffix(*names)(classes[cname])
                regs2 = [",".join(names) + "=" + cname for names, cname in hist[:upto]]
                for sfx in vocab + [".zz"]:
                    ck.case(("reghist", tuple(regs2), sfx), feature=f"registry-history/{upto}")
                    ck.oracle_evaluations += 1
                    want = "NotImplementedError"
                    for names, cname in hist[:upto]:
                        if sfx in names:
                            want = cname
                    before_fds = fds_on(tdp / f"hist{sfx}")
                    try:
                        with reg2.open_workbook(tdp / f"hist{sfx}") as wb2:
                            out = type(wb2).__name__
                    except NotImplementedError:
                        out = "NotImplementedError"
                    except BaseException as ex:  # noqa: BLE001
                        out = err_enum(ex)
                    inp2 = {"history": regs2, "suffix": sfx, "opened_after_every_registration": True}
                    if out != want:
                        ck.fail("registration-history", f"registrations so far {regs2} (every suffix opened after each of them): suffix {sfx} "
                                                        f"gives {out}, the last registration naming it is {want}", inp2)
                    if fds_on(tdp / f"hist{sfx}") != before_fds:
                        ck.fail("registration-history-fd", f"history {regs2}: opening {sfx} left a descriptor on the file", inp2)
                    if upto == len(hist) or rng.random() < 0.3:
                        reqs.append(f"FAC open {sfx} " + " ".join(regs2))
                        impl.append(out)
                        inputs.append(inp2)
    model = ck.driver.run(reqs)
    ck.compare_streams("real workbook life cycle / registry vs Facade.lrun / openWorkbook", inputs, impl, model)


def run(ck: Check) -> int:
    ck.rule = ("fault enumeration: every workbook class the sandbox can exercise (CSV, NDJSON, COBOL text, COBOL EBCDIC, XLSX, XLS sample, "
               "Numbers; ODS in the thorough tier) x every raise point of a 5-row file (before the first sheet, header phase, after row "
               "1..5, after exhaustion, no raise) x {path, caller-supplied file object}; descriptors checked in /proc/self/fd right after "
               "the with-block; registry probes for every registered suffix and unknown ones; distinct by (class, supplier, point)")
    ck.trusted_extra = ["/proc/self/fd is the OS descriptor table of this process", "PARTIAL: third-party libraries' internal handles are observed only"]
    ck.assumptions = ["single-threaded; no garbage collection is forced before the descriptors are counted"]
    ck.prove(["Stingray.Props.C14", "Stingray.Tie.C14"])
    explore(ck, slow=(ck.tier == "thorough"))
    return ck.finish(search=lambda c: explore(c, True))


def replay(ck: Check, data: dict[str, Any]) -> int:
    return run(ck)
