"""
C02 -- mainframe encodings decode to exactly the value that was stored.

Proof:           lean/Stingray/Props/C02.lean (packed_roundtrip, zoned_roundtrip, binary_roundtrip, *_injective,
                 text_decodes_every_byte)
Tie:             lean/Stingray/Tie/C02.lean (sign-nibble tests extracted semantically; cp037 table of the running
                 interpreter: length 256, Nodup; pinned body of estruct.unpack)
Correspondence:  estruct.unpack vs the Lean decoders: all valid 1-2 byte packed/zoned encodings, ALL 65536 halfwords,
                 all 256 text bytes, random values up to 18/31 digits, every sign nibble; also through EBCDIC().nav(...).value()
Oracle:          spec encoder (Python twin of Props/C02) -> real unpack -> exact comparison including the type
"""
from __future__ import annotations

from decimal import Decimal
from typing import Any

from harness.common import Check, hexs
from harness.decode_common import (NEG_NIBBLES, SIGN_NIBBLES, cps, enc_binary, enc_packed, enc_zoned, impl_unpack,
                                   picture, show_val, spec_value, tables_line)


def want_dec(digits: list[int], sn: int, frac: int) -> str:
    return show_val(spec_value(digits, sn in NEG_NIBBLES, frac)).replace("dec 1 0 ", "dec 1 0 ")


def numeric_equal(out: str, digits: list[int], neg: bool, frac: int) -> bool:
    """exact comparison: type Decimal, same sign (for non-zero), same coefficient, same exponent"""
    parts = out.split()
    if parts[0] != "dec":
        return False
    coeff = int("".join(map(str, digits)))
    return int(parts[2]) == coeff and int(parts[3]) == -frac and (coeff == 0 or (parts[1] == "1") == neg)


def explore(ck: Check, scale: int) -> None:
    rng = ck.rng
    reqs: list[str] = [tables_line()]
    impl: list[str] = ["ok"]
    inputs: list[Any] = ["tables"]

    def add(usage: str, pic: str, buf: bytes, feature: str, expect=None, sig: str = "") -> None:
        out = impl_unpack(usage, pic, buf)
        reqs.append(f"DEC unpack {usage} {cps(pic)} {hexs(buf)}")
        impl.append(out)
        inp = {"usage": usage, "picture": pic, "buffer": buf.hex()}
        inputs.append(inp)
        ck.case((usage, pic, buf), feature=feature)
        if expect is not None:
            ck.oracle_evaluations += 1
            if not expect(out):
                ck.fail(sig, f"unpack('USAGE {usage} PIC {pic}', {buf.hex()}) = {out}", inp)

    # ---- packed: every digit count 1..31, every sign nibble; exhaustive digits for 1-3 digit fields
    def packed_case(digits: list[int], sn: int, frac: int, s: bool, feature: str) -> None:
        m = len(digits) - frac
        pic = picture(s, m, frac, style=rng.randrange(3))
        usage = rng.choice(["COMP-3", "COMPUTATIONAL-3", "PACKED-DECIMAL"])
        add(usage, pic, enc_packed(digits, sn), feature,
            lambda out: numeric_equal(out, digits, sn in NEG_NIBBLES, frac), "packed-roundtrip")

    for nd in (1, 2, 3):
        for v in range(10 ** nd):
            digits = [int(c) for c in f"{v:0{nd}d}"]
            for sn in SIGN_NIBBLES:
                for frac in range(0, nd + 1):
                    packed_case(digits, sn, frac, True, f"packed/{nd}-digit-exhaustive")
    ck.exhaustive_parts.append("packed: every value of 1-3 digits x 6 sign nibbles x every scale")
    for _ in range(150 * scale):
        nd = rng.choice([4, 5, 7, 9, 10, 15, 17, 18, 19, 28, 29, 30, 31, rng.randint(1, 31)])
        kind = rng.random()
        digits = ([9] * nd if kind < 0.15 else [0] * nd if kind < 0.25 else [rng.randrange(10) for _ in range(nd)])
        packed_case(digits, rng.choice(SIGN_NIBBLES), rng.randint(0, nd), rng.random() < 0.8, f"packed/{'>28' if nd > 28 else 'random'}")

    # ---- zoned: sign in the zone of the last digit, arbitrary zones elsewhere
    def zoned_case(digits: list[int], zones: list[int], sn: int, frac: int, feature: str) -> None:
        m = len(digits) - frac
        pic = picture(False, m, frac, style=rng.randrange(3))   # unsigned picture: width = digit count
        add("DISPLAY", pic, enc_zoned(digits, zones, sn), feature,
            lambda out: numeric_equal(out, digits, sn in NEG_NIBBLES, frac), "zoned-roundtrip")

    for nd in (1, 2):
        for v in range(10 ** nd):
            digits = [int(c) for c in f"{v:0{nd}d}"]
            for sn in SIGN_NIBBLES:
                for frac in range(0, nd + 1):
                    zoned_case(digits, [0xF] * nd, sn, frac, f"zoned/{nd}-digit-exhaustive")
    ck.exhaustive_parts.append("zoned: every value of 1-2 digits x 6 sign nibbles x every scale")
    for _ in range(150 * scale):
        nd = rng.choice([3, 5, 9, 17, 18, rng.randint(1, 18)])
        digits = [rng.randrange(10) for _ in range(nd)] if rng.random() < 0.8 else [9] * nd
        zones = [0xF if rng.random() < 0.7 else rng.randrange(16) for _ in range(nd)]
        zoned_case(digits, zones, rng.choice(SIGN_NIBBLES), rng.randint(0, nd), "zoned/random")

    # ---- binary: all halfwords; boundary and random words / doublewords
    def binary_case(w: int, v: int, m: int, feature: str) -> None:
        usage = rng.choice(["COMP", "COMP-4", "BINARY", "COMPUTATIONAL", "COMPUTATIONAL-4"])
        add(usage, picture(False, m, 0, style=rng.randrange(3)), enc_binary(w, v), feature,
            lambda out: out == f"int {v}", "binary-roundtrip")

    step = 1 if scale > 1 else 1
    for v in range(-32768, 32768, step):
        binary_case(2, v, 1 + (v % 4), "binary/halfword-exhaustive")
    ck.exhaustive_parts.append("binary: all 65536 halfwords")
    for w, ms in ((4, range(5, 10)), (8, range(10, 19))):
        lo, hi = -(256 ** w) // 2, (256 ** w) // 2 - 1
        for v in [lo, lo + 1, -1, 0, 1, hi - 1, hi, 10 ** (ms[-1]) - 1 if 10 ** ms[-1] - 1 <= hi else hi]:
            for m in ms:
                binary_case(w, v, m, f"binary/{w}-byte-boundary")
        for _ in range(60 * scale):
            binary_case(w, rng.randint(lo, hi), rng.choice(list(ms)), f"binary/{w}-byte-random")

    # ---- text: every byte value in PIC X; distinct bytes -> distinct characters
    table = bytes(range(256)).decode("cp037")
    seen: dict[str, int] = {}
    for b in range(256):
        add("DISPLAY", "X", bytes([b]), "text/all-bytes", lambda out, b=b: out == f"str {ord(table[b])}", "text-byte")
        o = impl[-1]
        if o in seen:
            ck.fail("text-not-injective", f"bytes {seen[o]:#x} and {b:#x} decode to the same result {o}", {"byte": b})
        seen[o] = b
    ck.exhaustive_parts.append("text: all 256 byte values in PIC X")
    for _ in range(40 * scale):
        n = rng.randint(1, 12)
        buf = bytes(rng.randrange(256) for _ in range(n))
        pic = rng.choice([f"X({n})", "X" * n, f"x({n})"])
        add("DISPLAY", pic, buf, "text/random",
            lambda out, buf=buf: out == "str " + ",".join(str(ord(table[b])) for b in buf), "text-byte")

    model = ck.driver.run(reqs)
    ck.compare_streams("estruct.unpack vs Decode.unpack", inputs, impl, model)

    # ---- through the whole stack: copybook -> schema -> EBCDIC().nav(...).name(f).value()
    nav_roundtrip(ck, 200 * scale)
    ck.sample({"usage": "COMP-3", "picture": "S999V99", "buffer": "12345d", "value": impl_unpack("COMP-3", "S999V99", bytes.fromhex("12345d"))})
    ck.sample({"usage": "DISPLAY", "picture": "X", "buffer": "25", "value": impl_unpack("DISPLAY", "X", b"\x25")})


def nav_roundtrip(ck: Check, n: int) -> None:
    import io

    from stingray.cobol_parser import schema_iter
    from stingray.schema_instance import EBCDIC, SchemaMaker

    rng = ck.rng
    for _ in range(n):
        nd = rng.choice([1, 2, 3, 4, 5, 6, 7, 8, 9, 10, 12, 15, 18])
        frac = rng.randint(0, nd)
        digits = [rng.randrange(10) for _ in range(nd)]
        sn = rng.choice(SIGN_NIBBLES)
        kind = rng.choice(["packed", "zoned", "binary"])
        if kind == "packed":
            signed = rng.random() < 0.5
            if not signed:
                sn = 0xF      # an unsigned packed item still stores a sign nibble: F
            pic, usage, buf = picture(signed, nd - frac, frac), rng.choice(["COMP-3", "PACKED-DECIMAL", "COMPUTATIONAL-3"]), enc_packed(digits, sn)
            want: Any = spec_value(digits, sn in NEG_NIBBLES, frac)
        elif kind == "zoned":
            pic, usage, buf = picture(False, nd - frac, frac), "DISPLAY", enc_zoned(digits, [0xF] * nd, sn)
            want = spec_value(digits, sn in NEG_NIBBLES, frac)
        else:
            m = rng.choice([2, 4, 7, 9, 12, 18])
            w = 2 if m < 5 else 4 if m < 10 else 8
            v = rng.randint(-(256 ** w) // 2, (256 ** w) // 2 - 1)
            pic, usage, buf, want = picture(False, m, 0), "COMP", enc_binary(w, v), v
        # the data name is not part of the encoding: names that begin or end with a USAGE word, with and without the USAGE clause
        fname = rng.choice(["FLD", "FLD", "NET-COMP", "COMP-TOTAL", "YTD-BINARY", "DISPLAY-AMT", "AMT-DISPLAY", "X-COMP-3", "PACKED-DECIMAL-X"])
        uclause = "" if (usage == "DISPLAY" and rng.random() < 0.5) else f" USAGE {usage}"
        text = f"       01  REC.\n           05  LEAD  PIC X(3).\n           05  {fname}   PIC {pic}{uclause}.\n           05  TRAIL PIC X(2).\n"
        inp = {"copybook": text, "field_bytes": buf.hex()}
        ck.oracle_evaluations += 1
        ck.case(("nav", pic, usage, buf), feature=f"nav/{kind}")
        try:
            schema = SchemaMaker.from_json(next(iter(schema_iter(io.StringIO(text)))))
            rec = "abc".encode("cp037") + buf + "xy".encode("cp037")
            got = EBCDIC().nav(schema, rec).name(fname).value()
        except BaseException as ex:  # noqa: BLE001
            ck.fail("nav-roundtrip", f"reading {fname} PIC {pic} {usage} from {buf.hex()} raises {type(ex).__name__}: {ex}", inp)
            continue
        ok = (type(got) is type(want)) and (got == want) and (not isinstance(want, Decimal) or got.as_tuple().exponent == want.as_tuple().exponent)
        if not ok:
            ck.fail("nav-roundtrip", f"{fname} PIC {pic} {usage} stored {want!r} read back {got!r}", inp)
        # ONE layout made from the schema alone ("a Location describing any instance of this schema") applied to several records: each
        # record's bytes decode to the value stored in THAT record
        from stingray.schema_instance import BytesInstance, LocationMaker
        digits2 = [rng.randrange(10) for _ in range(nd)]
        if kind == "packed":
            buf2, want2 = enc_packed(digits2, sn), spec_value(digits2, sn in NEG_NIBBLES, frac)
        elif kind == "zoned":
            buf2, want2 = enc_zoned(digits2, [0xF] * nd, sn), spec_value(digits2, sn in NEG_NIBBLES, frac)
        else:
            v2 = rng.randint(-(256 ** w) // 2, (256 ** w) // 2 - 1)
            buf2, want2 = enc_binary(w, v2), v2
        ck.oracle_evaluations += 1
        try:
            unp = EBCDIC()
            loc = LocationMaker(unp, schema).from_schema()
            seen = []
            for b, wv in ((buf, want), (buf2, want2), (buf, want)):
                r = BytesInstance("abc".encode("cp037") + b + "xy".encode("cp037"))
                seen.append((loc.properties[fname].value(r), loc.value(r)[fname], wv, b))
        except BaseException as ex:  # noqa: BLE001
            ck.fail("nav-roundtrip", f"reading {fname} PIC {pic} {usage} through the layout made from the schema raises {type(ex).__name__}: {ex}", inp)
            continue
        for g1, g2, wv, b in seen:
            for g in (g1, g2):
                if not ((type(g) is type(wv)) and g == wv and (not isinstance(wv, Decimal) or g.as_tuple().exponent == wv.as_tuple().exponent)):
                    ck.fail("nav-roundtrip", f"{fname} PIC {pic} {usage}: one layout applied to several records: the record holding {b.hex()} (stored {wv!r}) "
                                             f"reads {g!r}", {**inp, "records": [x[3].hex() for x in seen]})
                    break


def run(ck: Check) -> int:
    ck.rule = ("values encoded with the spec encoders (packed: all 1-3 digit values x 6 sign nibbles x all scales, random to 31 digits; "
               "zoned: all 1-2 digit values, random zones; binary: all halfwords, boundary/random 4- and 8-byte; text: all 256 bytes) "
               "decoded by estruct.unpack and by the Lean model; distinct by (usage, picture, buffer)")
    ck.trusted_extra = ["decimal.Decimal((sign, digits, exp)) is the exact triple; struct.unpack('>h/>i/>q') = two's complement big-endian",
                        "the cp037 table and the \\w \\d \\s classes are read from the running interpreter on every run",
                        "COMP-1/COMP-2 decoding is not implemented by the code (RuntimeError) and is outside the model"]
    ck.assumptions = ["bytes are 0..255", "a zoned item is given one byte per digit (unsigned picture); the signed-picture width convention is C04/C18"]
    ck.prove(["Stingray.Props.C02", "Stingray.Tie.C02"])
    explore(ck, 1 if ck.tier == "quick" else 30)
    return ck.finish(search=lambda c: explore(c, 5))


def replay(ck: Check, data: dict[str, Any]) -> int:
    inp = data.get("input", {})
    if "usage" in inp:
        print("unpack ->", impl_unpack(inp["usage"], inp["picture"], bytes.fromhex(inp["buffer"])))
    return run(ck)
