"""
C08 -- generated schemas are valid, loadable and tell the truth about each field.

Proof:           lean/Stingray/Props/C08.lean (refs_resolve, oneOf_nonempty, anchors_from_names, declared_is_delivered,
                 ext_type_matches; declared_counterexample = D13) + C06.declOk for DEPENDING ON references
Tie:             Tie/C08.lean: both json_type ladders EXTRACTED from cobol_parser.py and proved equal to the model for every USAGE
                 spelling; numeric test and EBCDIC.value pinned.  Correspondence: json_type of the real makers vs the model over
                 {13 usages} x pictures.
Oracle:          jsonschema Draft202012Validator.check_schema, SchemaMaker.from_json, every $ref / maxItemsDependsOn resolved to the
                 node bearing that anchor, type/encoding/conversion/length of every elementary item against a table written from the
                 property, and type(value) of every elementary item of generated records against the declaration; the extended
                 generator compared structurally with the standard one
"""
from __future__ import annotations

import io
from decimal import Decimal
from typing import Any

from harness.c06 import build_record, gen_env, tables_of
from harness.c10 import fill_record
from harness.common import Check, err_enum
from harness.decode_common import FAM, USAGES, cps
from harness.gen_copybook import Node, Style, TreeGen, preorder, render, spec_layout

WANT = {  # family -> (type, contentEncoding, conversion, delivered python type)
    "display-num": ("string", "cp037", "decimal", Decimal),
    "display-text": ("string", "cp037", None, str),
    "packed": ("string", "packed-decimal", "decimal", Decimal),
    "binary": ("integer", "bigendian-int", None, int),
    "float4": ("number", "bigendian-float", None, float),
    "float8": ("number", "bigendian-double", None, float),
}


def family_of(n: Node) -> str:
    fam = FAM[n.usage or "DISPLAY"]
    if fam == "display":
        p = (n.pic or "").upper()
        numeric = bool(p) and all(c in "S9V()0123456789" for c in p) and "9" in p and not p.startswith("X")
        return "display-num" if numeric and p.lstrip("S")[0] in "9V" else "display-text"
    return fam


def walk_docs(doc: dict[str, Any], out: list[dict[str, Any]]) -> None:
    out.append(doc)
    for a in doc.get("oneOf", []):
        walk_docs(a, out)
    if isinstance(doc.get("items"), dict):
        walk_docs(doc["items"], out)
    for v in doc.get("properties", {}).values():
        walk_docs(v, out)


def walk_schema(s: Any, out: list[Any]) -> None:
    out.append(s)
    for a in getattr(s, "alternatives", []) or []:
        walk_schema(a, out)
    if type(s).__name__ in ("ArraySchema", "DependsOnArraySchema"):
        walk_schema(s.items, out)
    if type(s).__name__ == "ObjectSchema":
        for v in s.properties.values():
            walk_schema(v, out)


def strip_types(doc: Any) -> Any:
    """structure, names, lengths and references without the type vocabulary"""
    if isinstance(doc, dict):
        return {k: strip_types(v) for k, v in doc.items() if k not in ("type", "contentEncoding", "conversion") or
                (k == "type" and doc[k] in ("object", "array"))}
    if isinstance(doc, list):
        return [strip_types(x) for x in doc]
    return doc


def one_copybook(ck: Check, root: Node, with_record: bool) -> None:
    from jsonschema import Draft202012Validator
    from stingray.cobol_parser import JSONSchemaMakerExtendedVocabulary, dde_sentences, reference_format, schema_iter, structure
    from stingray.schema_instance import EBCDIC, SchemaMaker

    rng = ck.rng
    text = render([root], Style())
    inp = {"copybook": text}
    ck.case(text, feature="copybook" + ("/odo" if tables_of(root) else ""))
    ck.oracle_evaluations += 1
    try:
        doc = next(iter(schema_iter(io.StringIO(text))))
    except BaseException as ex:  # noqa: BLE001
        ck.fail("schema-build", f"schema cannot be generated: {type(ex).__name__}: {str(ex)[:80]}", inp)
        return
    # 1. valid by the 2020-12 meta-schema
    try:
        Draft202012Validator.check_schema(doc)
    except BaseException as ex:  # noqa: BLE001
        ck.fail("invalid-json-schema", f"generated schema is not a valid JSON Schema: {str(ex)[:120]}", inp)
    # 2. loads; every reference resolved to the node bearing that name
    try:
        schema = SchemaMaker.from_json(doc)
    except BaseException as ex:  # noqa: BLE001
        ck.fail("schema-load", f"generated schema does not load: {type(ex).__name__}: {str(ex)[:80]}", inp)
        return
    nodes: list[Any] = []
    walk_schema(schema, nodes)
    by_anchor = {}
    for s in nodes:
        a = s._attributes.get("$anchor")
        if a:
            by_anchor.setdefault(a, s)
    for s in nodes:
        cls = type(s).__name__
        if cls == "RefToSchema":
            target = s._attributes["$ref"][1:]
            if s.ref_to is None or s.ref_to is not by_anchor.get(target):
                ck.fail("ref-unresolved", f"$ref #{target} does not resolve to the node bearing that $anchor", inp)
        if cls == "DependsOnArraySchema":
            target = s._attributes["maxItemsDependsOn"]["$ref"][1:]
            to = s.max_ref_to
            while type(to).__name__ == "RefToSchema":     # the COBOL-visible name of a REDEFINES participant: follow it
                to = to.ref_to
            if to is None or to is not by_anchor.get(target):
                ck.fail("ref-unresolved", f"maxItemsDependsOn #{target} does not resolve to the node bearing that $anchor", inp)
    # 3. what the schema says about each elementary item
    docs: list[dict[str, Any]] = []
    walk_docs(doc, docs)
    by_name = {d.get("$anchor"): d for d in docs if "$anchor" in d}
    for n in preorder(root):
        if n.is_group:
            continue
        d = by_name.get(n.unique)
        if d is None:
            ck.fail("entry-missing", f"no schema node anchored {n.unique}", inp)
            continue
        fam = family_of(n)
        t, enc, conv, _ = WANT[fam]
        got = (d.get("type"), d.get("contentEncoding"), d.get("conversion"))
        ck.oracle_evaluations += 1
        if got != (t, enc, conv):
            rep = "(" in (n.pic or "")
            sig = "classification:repeat-count" if (fam == "display-num" and rep and got == ("string", "cp037", None)) else "declared-type"
            ck.fail(sig, f"{n.unique} PIC {n.pic} {n.usage or ''}: schema says {got}, the USAGE/PICTURE imply {(t, enc, conv)}", inp)
        if n.occurs is None and n.odo is None and (d.get("maxLength") != n.width or d.get("minLength") != n.width):
            ck.fail("declared-length", f"{n.unique}: minLength/maxLength {d.get('minLength')}/{d.get('maxLength')}, the storage rule says {n.width}", inp)
    # 4. the type of every value delivered is the declared one
    if with_record:
        env = gen_env(rng, root, "max") if tables_of(root) else {}
        spec = spec_layout(root, env)
        rec = bytes(fill_record(rng, root, spec)) if not env else build_record(root, env, 1)
        unp = EBCDIC()
        try:
            nav = unp.nav(schema, rec)
        except BaseException as ex:  # noqa: BLE001
            ck.fail("record-nav", f"valid record cannot be navigated: {type(ex).__name__}", inp)
            return
        for path in spec:
            names = [x for x in path if isinstance(x, str)]
            if not names:
                continue
            node = next((m for m in preorder(root) if m.unique == names[-1]), None)
            if node is None or node.is_group or node.redefines or any(next(m for m in preorder(root) if m.unique == x).redefines for x in names):
                continue
            if (node.occurs is not None or node.odo is not None) and not (len(path) >= 3 and isinstance(path[-2], int) and path[-3] == path[-1]):
                continue
            if env:
                continue   # pattern-filled ODO records are for layout, not for decoding
            try:
                n = nav
                for st in path:
                    n = n.index(st) if isinstance(st, int) else n.name(st)
                v = n.value()
            except BaseException:  # noqa: BLE001
                continue
            fam = family_of(node)
            d = by_name.get(node.unique, {})
            declared = Decimal if d.get("conversion") == "decimal" else int if d.get("type") == "integer" else float if d.get("type") == "number" else str
            ck.oracle_evaluations += 1
            if type(v) is not declared:
                rep = "(" in (node.pic or "")
                sig = "classification:repeat-count" if (fam == "display-num" and rep and declared is str and isinstance(v, Decimal)) else "delivered-type"
                ck.fail(sig, f"{node.unique} PIC {node.pic}: schema declares {declared.__name__}, value delivered is {type(v).__name__}", inp)
    # 5. the extended-vocabulary generator: same structure, names, lengths, references
    try:
        trees = structure(dde_sentences(reference_format(io.StringIO(text))))
        ext = JSONSchemaMakerExtendedVocabulary().jsonschema(trees[0])
        if strip_types(ext) != strip_types(doc):
            ck.fail("extended-structure", "the extended-vocabulary schema differs from the standard one in more than the type vocabulary", inp)
        edocs: list[dict[str, Any]] = []
        walk_docs(ext, edocs)
        for d in edocs:
            if "$anchor" in d and d.get("type") not in ("object", "array", None):
                std = by_name.get(d["$anchor"], {})
                want = "decimal" if std.get("conversion") == "decimal" else std.get("type")
                if d["type"] != want:
                    ck.fail("extended-type", f"{d['$anchor']}: extended type {d['type']}, standard declares {want}", inp)
    except BaseException as ex:  # noqa: BLE001
        ck.fail("extended-build", f"extended-vocabulary schema cannot be generated: {type(ex).__name__}: {str(ex)[:80]}", inp)


EDITED = [("99/99/99", "12/01/25"), ("99B99", "12 34"), ("9(3),9(3)", "123,456"), ("$999", "$123"), ("**9", "**7"), ("999-", "123-"),
          ("9(3)CR", "123CR"), ("99DB", "12DB"), ("XBX", "A B"), ("0099", "0012"), ("9(2).9(2)", "12.34"), ("-9(3)", "-123"), ("9V99-", "123-"),
          ("A(3)", "abc"), ("X(2)9(2)", "AB12")]


def edited_pictures(ck: Check) -> None:
    """DISPLAY items whose picture is edited (insertion characters, trailing or leading sign symbols, CR / DB, zero, alphabetic): they are
    text -- declared {"type": "string", "contentEncoding": "cp037"} without conversion, and delivered as the str that was stored"""
    from stingray.cobol_parser import schema_iter
    from stingray.schema_instance import EBCDIC, SchemaMaker

    rng = ck.rng
    for trial in range(3):
        items = rng.sample(EDITED, rng.randint(4, len(EDITED)))
        lines = ["       01  EDITED-REC."]
        for k, (pic, _) in enumerate(items):
            lines.append(f"           05  E-{k} PIC {pic}" + ("" if k % 2 else " USAGE DISPLAY") + ".")
        text = "\n".join(lines) + "\n"
        inp = {"copybook": text}
        ck.case(("edited", text), feature="edited-pictures")
        try:
            doc = next(iter(schema_iter(io.StringIO(text))))
            schema = SchemaMaker.from_json(doc)
            rec = "".join(t for _, t in items).encode("cp037")
            unp = EBCDIC()
            nav = unp.nav(schema, rec)
        except BaseException as ex:  # noqa: BLE001
            ck.fail("edited-picture", f"record of edited DISPLAY items cannot be loaded / navigated: {err_enum(ex)}", inp)
            continue
        for k, (pic, stored) in enumerate(items):
            d = doc["properties"][f"E-{k}"]
            ck.oracle_evaluations += 1
            got = (d.get("type"), d.get("contentEncoding"), d.get("conversion"))
            if got != ("string", "cp037", None):
                ck.fail("edited-picture", f"E-{k} PIC {pic}: an edited picture is text, the schema says {got}", {**inp, "item": f"E-{k}"})
            try:
                v = nav.name(f"E-{k}").value()
            except BaseException as ex:  # noqa: BLE001
                ck.fail("edited-picture", f"E-{k} PIC {pic} holding {stored!r}: reading the valid record raises {err_enum(ex)}", {**inp, "item": f"E-{k}"})
                continue
            if type(v) is not str or v != stored:
                ck.fail("edited-picture", f"E-{k} PIC {pic}: declared a string, stored {stored!r}, delivered {v!r} ({type(v).__name__})",
                        {**inp, "item": f"E-{k}"})


def lowercase_numeric(ck: Check) -> None:
    """pictures are not case sensitive: PIC s99v9 / 99v99 are zoned decimals -- declared with the decimal conversion, delivered Decimal"""
    from stingray.cobol_parser import schema_iter
    from stingray.schema_instance import EBCDIC, SchemaMaker

    items = [("s99v9", "123", Decimal("12.3")), ("99v99", "1234", Decimal("12.34")), ("v99", "12", Decimal("0.12")), ("999", "123", Decimal("123"))]
    text = "       01  LC-REC.\n" + "".join(f"           05  L-{k} PIC {p}.\n" for k, (p, _, _) in enumerate(items))
    inp = {"copybook": text}
    ck.case(("lowercase", text), feature="lowercase-numeric-pictures")
    try:
        doc = next(iter(schema_iter(io.StringIO(text))))
        schema = SchemaMaker.from_json(doc)
        widths = [len(b) + (1 if p.lower().startswith("s") else 0) for p, b, _ in items]
        rec = b"".join(bytes(0xF0 + int(c) for c in b.rjust(w, "0")) for (p, b, _), w in zip(items, widths))
        unp = EBCDIC()
        nav = unp.nav(schema, rec)
    except BaseException as ex:  # noqa: BLE001
        ck.fail("lowercase-picture", f"record of lower-case numeric pictures cannot be loaded / navigated: {err_enum(ex)}", inp)
        return
    for k, (pic, _, want) in enumerate(items):
        d = doc["properties"][f"L-{k}"]
        ck.oracle_evaluations += 1
        got = (d.get("type"), d.get("contentEncoding"), d.get("conversion"))
        if got != ("string", "cp037", "decimal"):
            ck.fail("lowercase-picture", f"L-{k} PIC {pic}: a numeric DISPLAY item, the schema says {got}", {**inp, "item": f"L-{k}"})
        try:
            v = nav.name(f"L-{k}").value()
        except BaseException as ex:  # noqa: BLE001
            ck.fail("lowercase-picture", f"L-{k} PIC {pic}: reading raises {err_enum(ex)}", {**inp, "item": f"L-{k}"})
            continue
        if type(v) is not Decimal or v != want:
            ck.fail("lowercase-picture", f"L-{k} PIC {pic}: delivered {v!r}, stored {want!r}", {**inp, "item": f"L-{k}"})


def json_type_table(ck: Check) -> None:
    """both makers' json_type vs the model, over every usage spelling x pictures"""
    import stingray.cobol_parser as CP

    pics = ["X", "X(10)", "9", "999", "S999", "S9V99", "9(3)", "S9(5)V99", "s9v9", "A(3)", "ZZ9", "$9.99", "9P", "SV9", "99V", "XX9"]
    reqs, impl, inputs = [], [], []
    std, ext = CP.JSONSchemaMaker(), CP.JSONSchemaMakerExtendedVocabulary()
    for u in USAGES:
        for p in pics:
            node = CP.DDE("05", "A", clauses={"name": "A", "picture": p, "usage": u})
            try:
                a = std.json_type(node)
                b = ext.json_type(node)
                out = f"{a.get('type')},{a.get('contentEncoding', '-')},{a.get('conversion', '-')},{b.get('type')}"
            except BaseException as ex:  # noqa: BLE001
                out = err_enum(ex)
            reqs.append(f"DEC jsontype {u} {cps(p)}")
            impl.append(out)
            inputs.append({"usage": u, "picture": p})
            ck.case(("json_type", u, p), feature="json_type-table")
    ck.exhaustive_parts.append(f"json_type of both makers over {len(USAGES)} USAGE spellings x {len(pics)} pictures")
    model = ck.driver.run(reqs)
    ck.compare_streams("JSONSchemaMaker.json_type (standard, extended) vs Schema.jsonType/jsonTypeExt", inputs, impl, model)


def shared_sentences(ck: Check, n: int) -> None:
    """Two 01 records of one copybook share an entry verbatim (the same level, name and clauses); only ONE of them redefines it.  The
    schema of each record describes that record only: it is the schema the record gets when it is parsed on its own -- whichever
    record comes first -- and it loads."""
    import io

    from stingray.cobol_parser import schema_iter
    from stingray.schema_instance import SchemaMaker

    rng = ck.rng
    for _ in range(n):
        w = rng.randint(2, 20)
        shared = f"           05 REC-BODY PIC X({w})."
        typ = f"           05 REC-TYPE PIC {rng.choice(['X', 'XX', '9'])}."
        plain = f"       01  HEADER-REC.\n{typ}\n{shared}\n           05 H-TAIL PIC 9({rng.randint(1, 4)}).\n"
        red = rng.choice([f"           05 REC-NUM REDEFINES REC-BODY PIC 9({w}).",
                          f"           05 REC-PARTS REDEFINES REC-BODY.\n               10 P-A PIC X.\n               10 P-B PIC X({w - 1})."])
        redefd = f"       01  DETAIL-REC.\n{typ}\n{shared}\n{red}\n"
        try:
            alone = {d["title"]: d for text in (plain, redefd) for d in schema_iter(io.StringIO(text))}
        except BaseException as ex:  # noqa: BLE001
            ck.fail("schema-build", f"a record parsed on its own raises {type(ex).__name__}", {"copybook": plain + redefd})
            continue
        for label, text in (("plain record first", plain + redefd), ("redefined record first", redefd + plain)):
            ck.case(("shared-sentence", text), feature="records-sharing-an-entry-verbatim")
            ck.oracle_evaluations += 1
            inp = {"copybook": text}
            try:
                both = {d["title"]: d for d in schema_iter(io.StringIO(text))}
                for d in both.values():
                    SchemaMaker.from_json(d)
            except BaseException as ex:  # noqa: BLE001
                ck.fail("schema-build", f"two records sharing an entry verbatim ({label}): {type(ex).__name__}: {str(ex)[:80]}", inp)
                continue
            for title, d in alone.items():
                if both.get(title) != d:
                    body = (both.get(title) or {}).get("properties", {}).get("REC-BODY")
                    ck.fail("schema-depends-on-sibling-record", f"{label}: the schema of {title} differs from the one it gets on its own "
                                                                f"(REC-BODY is {str(body)[:120]})", inp)
                    break


def explore(ck: Check, n: int) -> None:
    edited_pictures(ck)
    lowercase_numeric(ck)
    shared_sentences(ck, max(10, n // 10))
    rng = ck.rng
    json_type_table(ck)
    for i in range(n):
        odo = rng.random() < 0.25
        tg = TreeGen(rng, max_depth=rng.choice([2, 3, 4]), max_width=rng.choice([3, 4]), redefines_in_occurs=True, odo=odo)
        root = tg.record()
        one_copybook(ck, root, with_record=True)
        if i < 2:
            ck.sample({"copybook": render([root], Style())})


def run(ck: Check) -> int:
    ck.rule = ("generated copybooks (as C07, names starting with a letter) run through schema_iter: meta-schema validation, loading, "
               "reference resolution, declared type/encoding/conversion/length of every elementary item against a table written from the "
               "property text, the Python type of every value of one valid record, and the extended-vocabulary generator compared "
               "structurally; plus json_type of both makers over the whole usage x picture table; distinct by copybook")
    ck.trusted_extra = ["jsonschema's Draft202012Validator stands for the meta-schema", "the model's Valid-ity covers exactly the keywords the "
                        "generator emits ($anchor, type, oneOf, $ref); extension keywords are ignored by the meta-schema"]
    ck.assumptions = ["data names start with a letter", "COMP-1/COMP-2 are declared but never decoded by the code"]
    ck.prove(["Stingray.Props.C08", "Stingray.Tie.C08", "Stingray.Tie.C07"])
    explore(ck, 120 if ck.tier == "quick" else 4000)
    return ck.finish(search=lambda c: explore(c, 600))


def replay(ck: Check, data: dict[str, Any]) -> int:
    return run(ck)
