"""
C17 -- cleaned names are always legal JSON Schema anchors.

Proof:           lean/Stingray/Props/C17.lean (termination = the definition of `clean`; clean_legal, clean_id_on_legal,
                 clean_idempotent, clean_ne_nil, nonempty_heading_becomes_legal)
Correspondence:  workbook.name_cleaner vs the Lean `clean`, EXHAUSTIVE over a 12-symbol alphabet up to length 4 (quick)
                 / 5 (thorough), random Unicode beyond
Oracle:          anchor pattern (anchored at the very end), identity on legal names, idempotence, no exception,
                 non-empty in -> non-empty out, and jsonschema.check_schema of the heading-row schema
"""
from __future__ import annotations

import itertools
import re
from typing import Any

from harness.common import Check, err_enum

ALPHABET = ["a", "Z", "7", "_", "-", ".", " ", "\t", "\n", "\r", "é", "!"]
ANCHOR = re.compile(r"[A-Za-z_][-A-Za-z0-9._]*\Z")


def cps(s: str) -> str:
    return ",".join(str(ord(c)) for c in s) if s else "-"


class NoTermination(BaseException):
    """name_cleaner used more than the CPU-time bound on one string: termination is part of the property"""


_SLOW = [0]


def bounded_clean(s: str) -> str:
    """workbook.name_cleaner(s) under a CPU-time bound of its own (ITIMER_VIRTUAL / SIGVTALRM: independent of the run's SIGALRM
    watchdog).  The unchanged cleaner needs microseconds; 5 s of CPU on one short string is reported as non-termination with that
    string as the replay, instead of waiting for the whole run's watchdog."""
    import signal

    from stingray.workbook import name_cleaner

    def on_vt(signum, frame):  # noqa: ARG001
        raise NoTermination()

    old = signal.signal(signal.SIGVTALRM, on_vt)
    signal.setitimer(signal.ITIMER_VIRTUAL, 5.0 if _SLOW[0] < 3 else 0.3)
    try:
        return name_cleaner(s)
    except NoTermination:
        _SLOW[0] += 1
        raise
    finally:
        signal.setitimer(signal.ITIMER_VIRTUAL, 0)
        signal.signal(signal.SIGVTALRM, old)


def impl_clean(s: str) -> str:
    try:
        return cps(bounded_clean(s))
    except NoTermination:
        return "NoTermination"
    except BaseException as ex:  # noqa: BLE001
        return err_enum(ex)


def oracle(ck: Check, s: str) -> None:
    name_cleaner = bounded_clean

    ck.oracle_evaluations += 1
    try:
        r = name_cleaner(s)
    except NoTermination:
        ck.fail("name_cleaner-does-not-terminate", f"name_cleaner({s!r}) has not returned after 5 s of CPU time", {"name": s})
        return
    except BaseException as ex:  # noqa: BLE001
        ck.fail("name_cleaner", f"name_cleaner({s!r}) raises {type(ex).__name__}", {"name": s})
        return
    if not (r == "" or ANCHOR.match(r)):
        ck.fail("name_cleaner", f"name_cleaner({s!r}) = {r!r} is not a legal $anchor", {"name": s})
    elif r == "" and s != "":
        ck.fail("name_cleaner", f"name_cleaner({s!r}) is empty", {"name": s})
    elif ANCHOR.match(s) and r != s:
        ck.fail("name_cleaner", f"legal name {s!r} changed to {r!r}", {"name": s})
    else:
        try:
            r2 = name_cleaner(r)
        except BaseException as ex:  # noqa: BLE001
            ck.fail("name_cleaner", f"name_cleaner({r!r}) raises {type(ex).__name__}", {"name": r})
            return
        if r2 != r:
            ck.fail("name_cleaner", f"not idempotent on {s!r}: {r!r} -> {r2!r}", {"name": s})


def heading_schema_ok(ck: Check, headings: list[str]) -> None:
    """Any non-empty headings can become the columns of a heading-row schema that passes validation."""
    from jsonschema import Draft202012Validator
    from stingray.workbook import HeadingRowSchemaLoader

    ck.oracle_evaluations += 1
    try:
        schema = HeadingRowSchemaLoader().header(iter([headings]))
        Draft202012Validator.check_schema(schema)
        for h in headings:
            a = schema["properties"][str(h)]["$anchor"]
            if not ANCHOR.match(a):
                ck.fail("heading-row-schema", f"heading {h!r} gets anchor {a!r}", {"headings": headings})
                return
    except BaseException as ex:  # noqa: BLE001
        ck.fail("heading-row-schema", f"heading-row schema for {headings!r}: {type(ex).__name__}: {str(ex)[:100]}",
                {"headings": headings})


def external_schema_ok(ck: Check, names: list[str], rng) -> None:
    """the external schema loader anchors every field with the cleaned NAME (whatever the description cell holds, also nothing)"""
    import io as _io
    from pathlib import Path
    import csv as _csv
    from jsonschema import Draft202012Validator
    from stingray.schema_instance import SchemaMaker
    from stingray.workbook import CSV_Workbook, ExternalSchemaLoader, name_cleaner

    ck.oracle_evaluations += 1
    buf = _io.StringIO()
    descs = [rng.choice(["", "the " + n[:5], "Total (USD)", n]) for n in names]
    _csv.writer(buf).writerows([[n, d, "string"] for n, d in zip(names, descs)])
    buf.seek(0)
    inp = {"names": names, "descriptions": descs}
    try:
        wb = CSV_Workbook(Path("ext_schema.csv"), file_object=buf)
        sheet = wb.sheet("").set_schema(SchemaMaker.from_json(ExternalSchemaLoader.META_SCHEMA))
        doc = ExternalSchemaLoader(sheet).load()
        Draft202012Validator.check_schema(doc)
        for n in names:
            a = doc["properties"][n]["$anchor"]
            if not ANCHOR.match(a) or a != name_cleaner(n):
                ck.fail("external-schema-anchor", f"external schema: field {n!r} gets anchor {a!r}; its cleaned name is {name_cleaner(n)!r}", inp)
                return
    except BaseException as ex:  # noqa: BLE001
        ck.fail("external-schema-anchor", f"external schema for names {names!r}: {type(ex).__name__}: {str(ex)[:100]}", inp)


def random_unicode(rng, n: int) -> str:
    out = []
    for _ in range(n):
        r = rng.random()
        if r < 0.35:
            out.append(rng.choice(ALPHABET))
        elif r < 0.6:
            out.append(chr(rng.randrange(32, 127)))
        elif r < 0.75:
            out.append(rng.choice("\n\r\t\x0b\x0c\x1c\x85  \xa0 "))
        else:
            c = rng.randrange(0x80, 0x2FFFF)
            if 0xD800 <= c <= 0xDFFF:
                c = 0x4E2D
            out.append(chr(c))
    return "".join(out)


def explore(ck: Check, max_len: int, n_random: int) -> None:
    rng = ck.rng
    strings: list[str] = ["", "Not a 'good' name", "abc\n", "a\nb", "\n", "__", "___", "a__b", "1a1__b", "!@#$%^", "-x", ".", "x-.9"]
    for L in range(0, max_len + 1):
        for tup in itertools.product(ALPHABET, repeat=L):
            strings.append("".join(tup))
    ck.exhaustive_parts.append(f"all {sum(len(ALPHABET)**L for L in range(max_len+1))} strings over the 12-symbol alphabet {ALPHABET!r} up to length {max_len}")
    for _ in range(n_random):
        strings.append(random_unicode(rng, rng.randint(1, 24)))
    impl = [impl_clean(s) for s in strings]
    model = ck.driver.run([f"C17 clean {cps(s)}" for s in strings])
    for s in strings:
        feature = ("empty" if not s else "legal" if ANCHOR.match(s) else "newline" if ("\n" in s or "\r" in s) else
                   "non-ascii" if any(ord(c) > 127 for c in s) else "needs-cleaning")
        ck.case(s, nontrivial=bool(s) and not ANCHOR.match(s), feature=feature)
        oracle(ck, s)
    ck.compare_streams("name_cleaner vs Clean.clean", strings, impl, model)
    for i in range(0, min(len(strings), 400 if max_len <= 4 else 4000)):
        hs = [h for h in {rng.choice(strings) for _ in range(rng.randint(1, 5))} if h]
        if hs:
            heading_schema_ok(ck, hs)
            if i % 4 == 0:
                es = [h for h in hs if "\n" not in h and "\r" not in h and h.strip()]     # (one name per physical CSV row)
                if es:
                    external_schema_ok(ck, es, rng)
    for s in ["Not a 'good' name", "a\nb", random_unicode(rng, 8)]:
        ck.sample({"name": s, "cleaned_codepoints": impl_clean(s)})


def run(ck: Check) -> int:
    ck.rule = ("every string over a 12-symbol alphabet (letters, digit, '_', '-', '.', space, tab, LF, CR, a non-ASCII letter, "
               "punctuation) up to the length bound, plus random Unicode strings; non-trivial = non-empty and not already a legal anchor; "
               "each string is cleaned by workbook.name_cleaner and by the Lean model and the results compared code point by code point")
    ck.trusted_extra = ["Python's re engine on this one pattern is modelled by `rest` (longest legal prefix, then the remainder); "
                        "str.replace by replaceChar/collapse -- validated exhaustively on short strings"]
    ck.assumptions = ["strings are sequences of Unicode scalar values (lone surrogates excluded)"]
    ck.prove(["Stingray.Props.C17", "Stingray.Tie.C17"])
    if ck.tier == "quick":
        explore(ck, 4, 2000)
    else:
        explore(ck, 5, 100000)
    return ck.finish(search=lambda c: explore(c, 4, 20000))


def replay(ck: Check, data: dict[str, Any]) -> int:
    inp = data.get("input", {})
    if "name" in inp:
        oracle(ck, inp["name"])
    elif "headings" in inp:
        heading_schema_ok(ck, inp["headings"])
    for f in ck.failures:
        print("FAILS:", f["what"])
    if not ck.failures:
        print("holds on the replayed input")
    return 1 if ck.failures else 0
