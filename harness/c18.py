"""
C18 -- whatever bytes a numeric field holds, the result fits its PICTURE or is an error.

Proof:           lean/Stingray/Props/C18.lean (packed_fits_or_error, zoned_fits_or_error, zoned_signed_fits_partial,
                 zoned_signed_counterexample)
Tie:             shared with C02 (lean/Stingray/Tie/C02.lean)
Correspondence:  estruct.unpack vs the Lean decoders on ALL byte strings of width 1-2 (3 in the thorough tier) for packed and
                 zoned pictures of that width, nibble-boundary and random buffers up to 18/31 digits
Oracle:          the real result is an exception, or a Decimal with no more integer digits than declared and exactly the declared scale
"""
from __future__ import annotations

import itertools
from typing import Any

from harness.common import Check, hexs
from harness.decode_common import cps, impl_unpack, picture, tables_line


def fits(out: str, m: int, n: int) -> bool:
    parts = out.split()
    if parts[0] != "dec":
        return False
    return int(parts[2]) < 10 ** (m + n) and int(parts[3]) == -n


def is_error(out: str) -> bool:
    return out.split()[0] not in ("dec", "int", "str", "bool", "other")


def pictures_for_width(kind: str, w: int) -> list[tuple[bool, int, int]]:
    """(signed, m, n) whose laid-out width is w bytes."""
    out = []
    if kind == "packed":
        for d in (2 * w - 2, 2 * w - 1):        # even count (pad nibble) and odd count
            if d >= 1:
                for n in sorted({0, d // 2, d}):
                    out.append((True, d - n, n))
                out.append((False, d, 0))
    else:
        for n in sorted({0, w // 2, w}):
            out.append((False, w - n, n))        # unsigned: one byte per digit
        if w >= 2:
            out.append((True, w - 1, 0))          # signed: the project's layout adds a byte for the S (D31)
    return out


def explore(ck: Check, max_w: int, n_random: int) -> None:
    rng = ck.rng
    reqs = [tables_line()]
    impl = ["ok"]
    inputs: list[Any] = ["tables"]

    def add(kind: str, s: bool, m: int, n: int, buf: bytes, feature: str) -> None:
        usage = "COMP-3" if kind == "packed" else "DISPLAY"
        pic = picture(s, m, n, style=0)
        out = impl_unpack(usage, pic, buf)
        reqs.append(f"DEC unpack {usage} {cps(pic)} {hexs(buf)}")
        impl.append(out)
        inp = {"usage": usage, "picture": pic, "buffer": buf.hex()}
        inputs.append(inp)
        ck.case((usage, pic, buf), nontrivial=True, feature=feature)
        ck.oracle_evaluations += 1
        if not is_error(out) and not fits(out, m, n):
            if kind == "zoned" and s and (buf[0] & 0x0F) != 0:
                sig = "zoned:signed-sign-position-digit"
            else:
                sig = f"{kind}:does-not-fit"
            ck.fail(sig, f"unpack('USAGE {usage} PIC {pic}', {buf.hex()}) = {out}: does not fit the picture", inp)

    for w in range(1, max_w + 1):
        pics = {k: pictures_for_width(k, w) for k in ("packed", "zoned")}
        if w == 3:
            pics = {k: v[:2] for k, v in pics.items()}
        if w == 3:
            # width 3: every first and last byte, the middle byte over a set in which every nibble value occurs in both halves
            mid = [x * 0x11 for x in range(16)] + [0x09, 0x90, 0x0A, 0xA0, 0x9F, 0xF9, 0x5C, 0xC5]
            space: Any = itertools.product(range(256), mid, range(256))
        else:
            space = itertools.product(range(256), repeat=w)
        for tup in space:
            buf = bytes(tup)
            for kind in ("packed", "zoned"):
                for (s, m, n) in pics[kind]:
                    add(kind, s, m, n, buf, f"{kind}/width-{w}-exhaustive")
        ck.exhaustive_parts.append((f"all {256**w} byte strings of width {w}" if w < 3 else "all 256 x 24 x 256 byte strings of width 3 (every nibble value in "
                                    "every position)") + f" x {sum(len(v) for v in pics.values())} packed/zoned pictures of that width")
    for _ in range(n_random):
        kind = rng.choice(["packed", "zoned"])
        d = rng.randint(1, 31 if kind == "packed" else 18)
        n = rng.randint(0, d)
        s = rng.random() < 0.5 if kind == "packed" else False
        w = (d + 2) // 2 if kind == "packed" else d
        style = rng.random()
        if style < 0.4:
            buf = bytes(rng.randrange(256) for _ in range(w))
        elif style < 0.7:   # nibble-boundary patterns
            buf = bytes(rng.choice([0x00, 0x09, 0x0A, 0x0F, 0x90, 0x99, 0x9A, 0xA0, 0xF0, 0xF9, 0xFA, 0xFF, 0x9C, 0x9D, 0xAC]) for _ in range(w))
        else:               # a valid encoding with one corrupted byte
            buf = bytearray((rng.randrange(10) * 16 + rng.randrange(10)) if kind == "packed" else (0xF0 + rng.randrange(10)) for _ in range(w))
            if kind == "packed":
                buf[-1] = rng.randrange(10) * 16 + 0xC
                if d % 2 == 0:
                    buf[0] &= 0x0F
            buf[rng.randrange(w)] = rng.randrange(256)
            buf = bytes(buf)
        add(kind, s, d - n, n, buf, f"{kind}/random")
    # pictures with the scaling symbol P (V to the left or the right of it): every decoded value fits -- the digits written, scaled by
    # the P positions as well -- or the field is refused (the library refuses all of them: an error satisfies the property)
    for pic, usage, digits, scale in (("VPP99", "DISPLAY", 2, 4), ("VP(2)99", "DISPLAY", 2, 4), ("SVPP999", "COMP-3", 3, 5), ("VP9", "DISPLAY", 1, 2),
                                      ("99PPV", "DISPLAY", 2, -2), ("SVP99", "COMP-3", 2, 3)):
        w = digits if usage == "DISPLAY" else (digits + 2) // 2
        for _ in range(40):
            buf = (bytes(0xF0 + rng.randrange(10) for _ in range(w)) if usage == "DISPLAY"
                   else bytes([rng.randrange(10) * 16 + rng.randrange(10) for _ in range(w - 1)] + [rng.randrange(10) * 16 + 0xC]))
            if usage == "COMP-3" and digits % 2 == 0:
                buf = bytes([buf[0] & 0x0F]) + buf[1:]
            out = impl_unpack(usage, pic, buf)
            ck.case((usage, pic, buf), nontrivial=True, feature="scaling-P")
            ck.oracle_evaluations += 1
            if not is_error(out):
                parts = out.split()
                ok = parts[0] == "dec" and int(parts[2]) < 10 ** digits and int(parts[3]) == -scale
                if not ok:
                    ck.fail("scaling-P:does-not-fit", f"unpack('USAGE {usage} PIC {pic}', {buf.hex()}) = {out}: the picture holds {digits} digits "
                                                      f"scaled by 10**{-scale}", {"usage": usage, "picture": pic, "buffer": buf.hex()})
    # the same items read the way a client reads them: copybook -> schema -> navigator -> value().  Whatever the field holds, the value that
    # arrives fits the picture (or reading fails), and it is the value the decoder produced -- up to the 31 digits a packed item can hold
    import io
    from decimal import Decimal
    from harness.decode_common import show_val
    from stingray.cobol_parser import schema_iter
    from stingray.schema_instance import EBCDIC, SchemaMaker
    for k in range(max(40, n_random // 60)):
        kind = rng.choice(["packed", "packed", "zoned"])
        d = rng.choice([29, 30, 31, 28, 27, rng.randint(1, 31)]) if kind == "packed" else rng.choice([18, 17, rng.randint(1, 18)])
        n = rng.choice([0, d, rng.randint(0, d), min(d, 4)])
        sgn = rng.random() < 0.5 if kind == "packed" else False
        w = (d + 2) // 2 if kind == "packed" else d
        pic = picture(sgn, d - n, n, style=0)
        usage = "COMP-3" if kind == "packed" else "DISPLAY"
        style = rng.random()
        digits = [9] * d if style < 0.3 else [rng.randrange(10) for _ in range(d)] if style < 0.8 else [9] + [0] * (d - 1)
        if kind == "packed":
            nib = ([0] if d % 2 == 0 else []) + digits + [rng.choice([0xC, 0xD]) if sgn else 0xF]
            buf = bytes(nib[i] * 16 + nib[i + 1] for i in range(0, len(nib), 2))
        else:
            buf = bytes(0xF0 + x for x in digits)
        if rng.random() < 0.2:
            bb = bytearray(buf)
            bb[rng.randrange(w)] = rng.randrange(256)
            buf = bytes(bb)
        text = f"       01  REC.\n           05  LEAD PIC X(2).\n           05  FLD PIC {pic} USAGE {usage}.\n           05  TAIL PIC X.\n"
        after = b""
        if rng.random() < 0.4:
            # the item is one alternative of a REDEFINES whose other alternative is wider; the bytes after the item are valid digits
            # of the same encoding (they belong to the wider alternative only)
            extra = rng.randint(1, 6)
            after = bytes((rng.randrange(10) * 16 + rng.randrange(10)) if kind == "packed" else (0xF0 + rng.randrange(10)) for _ in range(extra))
            if rng.random() < 0.5:
                text = (f"       01  REC.\n           05  LEAD PIC X(2).\n           05  WIDE PIC X({w + extra}).\n"
                        f"           05  FLD REDEFINES WIDE PIC {pic} USAGE {usage}.\n           05  TAIL PIC X.\n")
            else:
                text = (f"       01  REC.\n           05  LEAD PIC X(2).\n           05  WIDE.\n               10  W1 PIC X({w}).\n               10  W2 PIC X({extra}).\n"
                        f"           05  ALT REDEFINES WIDE.\n               10  FLD PIC {pic} USAGE {usage}.\n           05  TAIL PIC X.\n")
        inp = {"copybook": text, "usage": usage, "picture": pic, "buffer": buf.hex(), "read": "navigator", "bytes_after_the_item": after.hex()}
        ck.case(("nav", usage, pic, buf, text), nontrivial=True, feature=f"{kind}/through-navigator" + ("/redefines-wider" if after else ""))
        ck.oracle_evaluations += 1
        direct = impl_unpack(usage, pic, buf)
        try:
            schema = SchemaMaker.from_json(next(iter(schema_iter(io.StringIO(text)))))
            unp = EBCDIC()
            nav0 = unp.nav(schema, b"\xc1\xc2" + buf + after + b"\xe9")
            v = (nav0.name("ALT").name("FLD") if "ALT REDEFINES" in text else nav0.name("FLD")).value()
            out = show_val(v)
        except BaseException as ex:  # noqa: BLE001
            from harness.decode_common import enum
            out = enum(ex)
        if not is_error(out) and not fits(out, d - n, n):
            ck.fail(f"{kind}:does-not-fit", f"PIC {pic} USAGE {usage} holding {buf.hex()}, read through a navigator, yields {out}: does not fit "
                                            f"the picture ({d - n} integer digits, scale {n})", inp)
        elif out != direct and not (is_error(out) and is_error(direct)):
            ck.fail(f"{kind}:navigator-differs", f"PIC {pic} USAGE {usage} holding {buf.hex()}: the navigator yields {out}, the decoder {direct}", inp)
    model = ck.driver.run(reqs)
    ck.compare_streams("estruct.unpack vs Decode.unpack (arbitrary bytes)", inputs, impl, model)
    ck.sample({"usage": "COMP-3", "picture": "999", "buffer": "1a3c", "result": impl_unpack("COMP-3", "999", bytes.fromhex("1a3c"))})
    ck.sample({"usage": "DISPLAY", "picture": "S9", "buffer": "f1d5", "result": impl_unpack("DISPLAY", "S9", bytes.fromhex("f1d5"))})


def run(ck: Check) -> int:
    ck.rule = ("every byte string of width 1..2 for every packed/zoned picture laid out in that width (thorough: also width 3 with every first and "
               "last byte and 24 middle bytes covering every nibble value in both halves), plus random, "
               "nibble-boundary and one-byte-corrupted buffers up to 31 packed / 18 zoned digits; distinct by (picture, buffer); every case is "
               "non-trivial (most buffers are invalid encodings by construction)")
    ck.trusted_extra = ["shared with C02: Decimal triple construction, nibble arithmetic on bytes 0..255"]
    ck.assumptions = ["the field is given exactly the width the layout assigns it (C04)"]
    ck.prove(["Stingray.Props.C18", "Stingray.Tie.C02"])
    if ck.tier == "quick":
        explore(ck, 2, 3000)
    else:
        explore(ck, 3, 100000)
    return ck.finish(search=lambda c: explore(c, 2, 20000))


def replay(ck: Check, data: dict[str, Any]) -> int:
    inp = data.get("input", {})
    if "usage" in inp:
        print("unpack ->", impl_unpack(inp["usage"], inp["picture"], bytes.fromhex(inp["buffer"])))
    return run(ck)
