"""
Clause layer of C12 (and of C07's "titled with its data name"): cobol_parser.clause_dict vs the word-level model
lean/Stingray/Model/Clause.lean (driver family CLA), on

 (i)  canonical entries: a head (data name / FILLER / nothing) and clauses of pairwise different kinds drawn from the abstract
      syntax of Props/C12Clause.lean, in random order and random spelling (optional words, synonyms, separators) -- with the
      spec-level oracle "the dictionary is the head plus the clauses' meanings" (computed here, independently of Lean), and the
      metamorphic oracle "another order and spelling of the same clauses gives the same dictionary";
 (ii) word soup: every sequence of up to 3 words over a vocabulary of key words, names, numbers and pictures (thorough tier), random
      sequences of 1-8 words (quick tier): model vs implementation only, to validate the transcription of the alternation, its
      optional words and its backtracking.  Answers `unmodelled` are skipped and counted.
"""
from __future__ import annotations

import itertools
from typing import Any, Optional

from harness.common import Check, err_enum

USAGES = ["BINARY", "COMPUTATIONAL-1", "COMPUTATIONAL-2", "COMPUTATIONAL-3", "COMPUTATIONAL-4", "COMPUTATIONAL", "COMP-1", "COMP-2", "COMP-3",
          "COMP-4", "COMP", "DISPLAY", "PACKED-DECIMAL"]
NAMES = ["AMOUNT", "CUST-ID", "X", "A1", "COMPANY", "DISPLAYED", "EXTERNAL-ID", "GLOBAL-CT", "FILLER-X", "VALUE-1", "TIMES-2", "KEY-3", "JUSTIFY",
         "PICTURES", "OCCURS-N", "ISO", "ONLY", "TOTAL", "BY-PASS", "SIGNAL", "usage-lc", "MixedCase", "BLANKS", "WHENEVER", "REDEFINES-X", "9A"]
PICS = ["X", "X(10)", "9(5)", "S9(5)V99", "999", "ZZ9.99", "A(3)", "$$$9", "+999", "XBX"]
LITS = ["ZERO", "SPACES", "'A'", "'AB'", "12", "+1.5", '"Q"', "HIGH-VALUES"]

KEYMAP = {"occurs_maxitems": "occurs", "odo_minitems": "odoMin", "odo_maxitems": "odoMax", "depending_on": "dependingOn", "sign_sep": "signSep"}
ORDER = ["name", "filler", "redefines", "blank", "justified", "occurs", "odoMin", "odoMax", "dependingOn", "picture", "sign", "signSep", "synch",
         "usage", "value"]


def canon(d: dict[str, str]) -> str:
    parts = [f"{k}={d[k].encode().hex()}" for k in ORDER if k in d]
    return ";".join(parts) or "-"


def impl_dict(text: str) -> str:
    from stingray.cobol_parser import clause_dict

    try:
        raw = clause_dict(text)
    except ValueError:
        # clause_dict also validates the picture string (normalize_picture, property C13); for a word that is not a picture the
        # merge of the matches is taken directly from the pattern
        from stingray.cobol_parser import clause_pattern
        raw = {n: v for c in clause_pattern.finditer(text) for n, v in c.groupdict().items() if v}
    except BaseException as ex:  # noqa: BLE001
        return err_enum(ex)
    out: dict[str, str] = {}
    for k, v in raw.items():
        if k.startswith("_") or not isinstance(v, str):
            continue
        k2 = KEYMAP.get(k, k)
        if k2 in ("signSep", "synch"):
            v = " ".join(v.replace(",", " ").replace(";", " ").split())
        out[k2] = v
    return canon(out)


def impl_estruct(text: str) -> str:
    """what estruct.Representation.parse takes from an entry's text: the last USAGE (DISPLAY by default) and the last PICTURE"""
    import stingray.estruct as E

    usage, pic = "DISPLAY", None
    for c in E.clause_pattern.finditer(text):
        g = c.groupdict()
        if g["usage"]:
            usage = g["usage"]
        elif g["picture"]:
            pic = g["picture"]
    try:
        rep = E.Representation.parse(text)
        if rep.usage != usage:
            return f"parse().usage={rep.usage} but the pattern's last USAGE is {usage}"
    except ValueError:
        pass            # the word after PIC is not a picture (validated by normalize_picture, property C13)
    except BaseException as ex:  # noqa: BLE001
        return err_enum(ex)
    return f"usage={usage.encode().hex()};picture={pic.encode().hex() if pic is not None else '~'}"


def gen_clauses(rng) -> list[tuple]:
    """abstract clauses of pairwise different kinds (EXTERNAL / GLOBAL may both appear)"""
    cs: list[tuple] = []
    if rng.random() < 0.25:
        cs.append(("redefines", rng.choice(NAMES)))
    if rng.random() < 0.2:
        cs.append(("blank",))
    if rng.random() < 0.15:
        cs.append(("external",))
    if rng.random() < 0.15:
        cs.append(("global",))
    if rng.random() < 0.25:
        cs.append(("justified", rng.random() < 0.5))
    r = rng.random()
    if r < 0.3:
        cs.append(("occurs", str(rng.choice([1, 3, 12, 100]))))
    elif r < 0.5:
        cs.append(("odo", rng.choice([None, "0", "1"]), str(rng.choice([5, 10, 99])), rng.choice(NAMES)))
    if rng.random() < 0.8:
        cs.append(("pic", rng.choice(PICS)))
    if rng.random() < 0.2:
        cs.append(("signSep", rng.random() < 0.5, rng.random() < 0.5))
    if rng.random() < 0.2:
        cs.append(("sync", rng.choice([None, "LEFT", "RIGHT"])))
    if rng.random() < 0.5:
        cs.append(("usage", rng.choice(USAGES)))
    if rng.random() < 0.3:
        cs.append(("value", rng.choice(LITS)))
    return cs


def meaning(head: Optional[str], cs: list[tuple]) -> dict[str, str]:
    d: dict[str, str] = {}
    if head == "FILLER":
        d["filler"] = "FILLER"
    elif head is not None:
        d["name"] = head
    for c in cs:
        k = c[0]
        if k == "redefines":
            d["redefines"] = c[1]
        elif k == "blank":
            d["blank"] = "ZERO"
        elif k == "justified" and c[1]:
            d["justified"] = "RIGHT"
        elif k == "occurs":
            d["occurs"] = c[1]
        elif k == "odo":
            if c[1] is not None:
                d["odoMin"] = c[1]
            d["odoMax"] = c[2]
            d["dependingOn"] = c[3]
        elif k == "pic":
            d["picture"] = c[1]
        elif k == "signSep":
            d["sign"] = "LEADING" if c[1] else "TRAILING"
            d["signSep"] = "SEPARATE CHARACTER" if c[2] else "SEPARATE"
        elif k == "sync" and c[1]:
            d["synch"] = c[1]
        elif k == "usage":
            d["usage"] = c[1]
        elif k == "value":
            d["value"] = c[1]
    return d


def spell(rng, c: tuple) -> list[str]:
    k = c[0]
    o = lambda w: [w] if rng.random() < 0.5 else []  # noqa: E731
    if k == "redefines":
        return ["REDEFINES", c[1]]
    if k == "blank":
        return ["BLANK"] + o("WHEN") + ["ZERO"]
    if k == "external":
        return ["EXTERNAL"]
    if k == "global":
        return ["GLOBAL"]
    if k == "justified":
        return [rng.choice(["JUSTIFIED", "JUST"])] + (["RIGHT"] if c[1] else [])
    if k == "occurs":
        return ["OCCURS", c[1]] + o("TIMES")
    if k == "odo":
        return ["OCCURS"] + ([c[1], "TO"] if c[1] is not None else []) + [c[2]] + o("TIMES") + ["DEPENDING"] + o("ON") + [c[3]]
    if k == "pic":
        return [rng.choice(["PIC", "PICTURE"])] + o("IS") + [c[1]]
    if k == "signSep":
        return o("SIGN") + o("IS") + ["LEADING" if c[1] else "TRAILING", "SEPARATE"] + (["CHARACTER"] if c[2] else [])
    if k == "sync":
        return [rng.choice(["SYNCHRONIZED", "SYNC"])] + ([c[1]] if c[1] else [])
    if k == "usage":
        return o("USAGE") + o("IS") + [c[1]]
    if k == "value":
        return ["VALUE"] + o("IS") + [c[1]]
    raise ValueError(k)


def join_words(rng, words: list[str]) -> str:
    """separators: blanks, commas, semicolons; never ',' ';' directly after a picture or literal word (D26), and exactly one
    separator character before INDEXED"""
    out = ""
    for i, w in enumerate(words):
        if i > 0:
            prev = words[i - 1]
            plain = w == "INDEXED" or prev in PICS or prev in LITS or "(" in prev or "'" in prev
            out += " " if plain else rng.choice([" ", " ", "  ", ", ", "; ", " ,", "\n    ", "\t"])
        out += w
    return out


def hexwords(words: list[str]) -> str:
    return ",".join(w.encode().hex() for w in words) or "-"


SOUP = ["REDEFINES", "BLANK", "WHEN", "ZERO", "ZEROS", "EXTERNAL", "JUST", "JUSTIFIED", "RIGHT", "LEFT", "OCCURS", "TO", "TIMES", "DEPENDING", "ON",
        "ASCENDING", "KEY", "IS", "INDEXED", "BY", "PIC", "PICTURE", "SIGN", "LEADING", "TRAILING", "SEPARATE", "CHARACTER", "SYNC", "USAGE",
        "VALUE", "FILLER", "COMP-3", "DISPLAY", "COMP", "A", "B-1", "5", "12", "X(5)", "S9V9"]


def explore(ck: Check, n_entries: int, n_soup: int, exhaustive_len: int) -> None:
    rng = ck.rng
    reqs: list[str] = []
    impl: list[str] = []
    inputs: list[Any] = []
    # ---- (i) canonical entries
    for _ in range(n_entries):
        head = rng.choice([rng.choice(NAMES), rng.choice(NAMES), "FILLER", None])
        cs = gen_clauses(rng)
        rng.shuffle(cs)
        want = canon(meaning(head, cs))
        texts = []
        for variant in range(2):
            order = list(cs)
            if variant:
                rng.shuffle(order)
            words = ([head] if head else []) + [w for c in order for w in spell(rng, c)]
            text = join_words(rng, words)
            texts.append(text)
            got = impl_dict(text)
            kinds = "+".join(sorted(c[0] for c in cs)) or "none"
            ck.case(("entry", text), feature="clause/" + ("head-only" if not cs else f"{len(cs)}-clauses"))
            ck.histogram["clause-kind/" + kinds.split("+")[0]] += 1
            ck.oracle_evaluations += 1
            if got != want:
                ck.fail("clause:" + kinds, f"entry {text!r}: clause_dict gives {got}, the head and the clauses mean {want}",
                        {"entry": text, "clauses": [list(map(str, c)) for c in order]})
            reqs.append("CLA parse " + hexwords(words))
            impl.append(got)
            inputs.append({"entry": text, "what": "clause_dict of a canonical entry"})
            # the second reader of the same text (estruct.Representation.parse): same USAGE (DISPLAY when absent) and PICTURE
            m = meaning(head, cs)
            want_e = f"usage={m.get('usage', 'DISPLAY').encode().hex()};picture={m['picture'].encode().hex() if 'picture' in m else '~'}"
            plain = " ".join(words)       # estruct's pattern wants white space inside a clause; separators between clauses only
            got_e = impl_estruct(plain)
            ck.oracle_evaluations += 1
            if got_e != want_e:
                ck.fail("clause-estruct:" + kinds, f"entry {plain!r}: estruct reads {got_e}, the entry's USAGE / PICTURE are {want_e}",
                        {"entry": plain, "clauses": [list(map(str, c)) for c in order]})
            reqs.append("CLA estruct " + hexwords(words))
            impl.append(got_e)
            inputs.append({"entry": plain, "what": "estruct's USAGE / PICTURE of a canonical entry"})
    # ---- (ii) word soup
    seqs: list[tuple[str, ...]] = []
    if exhaustive_len:
        for k in range(1, exhaustive_len + 1):
            seqs += list(itertools.product(SOUP, repeat=k))
        ck.exhaustive_parts.append(f"every sequence of 1..{exhaustive_len} words over a {len(SOUP)}-word vocabulary ({len(seqs)} sequences)")
    for _ in range(n_soup):
        seqs.append(tuple(rng.choice(SOUP + NAMES[:6]) for _ in range(rng.randint(1, 8))))
    for ws in seqs:
        text = " ".join(ws)
        ck.case(("soup", text), nontrivial=len(ws) > 1, feature=f"soup/len-{min(len(ws), 4)}")
        reqs.append("CLA parse " + hexwords(list(ws)))
        impl.append(impl_dict(text))
        inputs.append({"entry": text, "what": "clause_dict of a word sequence"})
        reqs.append("CLA estruct " + hexwords(list(ws)))
        impl.append(impl_estruct(text))
        inputs.append({"entry": text, "what": "estruct's USAGE / PICTURE of a word sequence"})
    model = ck.driver.run(reqs)
    keep = [i for i, m in enumerate(model) if m != "unmodelled"]
    ck.histogram["clause/unmodelled"] += len(model) - len(keep)
    ck.compare_streams("clause_dict vs Clause.parse (words)", [inputs[i] for i in keep], [impl[i] for i in keep], [model[i] for i in keep])
