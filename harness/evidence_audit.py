"""python -m harness.evidence_audit [dir]: is every evidence file a valid record of a QUIET run on the unchanged tree?

Run before committing evidence/.  For each property claimed in MANIFEST.json the file must exist, validate against
/root/.vp/EVIDENCE.schema.json (when jsonschema is importable; the structural rules of the proof level are re-checked by hand
either way), have violations == 0, discharged == obligations >= 1, no theorem marked NOT DISCHARGED, no correspondence disagreement,
real samples, and at least 2 distinct non-trivial cases.  Exit 1 and one line per problem otherwise.

Why this exists: the seeded-change tools run checks against a deliberately broken /repo.  They now write their evidence to a
scratch directory (VERIF_EVIDENCE_DIR), but a record of such a run must never be committed as evidence of the unchanged tree again.
"""
import json
import sys
from pathlib import Path

VERIF = Path(__file__).resolve().parent.parent


def problems(ev: dict, pid: str) -> list[str]:
    out = []
    cov = ev.get("coverage", {})
    if ev.get("property_id") != pid:
        out.append(f"property_id {ev.get('property_id')!r}")
    if ev.get("level") != "proof":
        out.append(f"level {ev.get('level')!r}")
    if ev.get("tier") not in ("quick", "thorough"):
        out.append(f"tier {ev.get('tier')!r}")
    if not isinstance(ev.get("seed"), int):
        out.append("seed is not an integer")
    if ev.get("violations") != 0:
        out.append(f"violations={ev.get('violations')} (a run on a changed tree?)")
    ob, di = cov.get("obligations"), cov.get("discharged")
    if not (isinstance(ob, int) and ob >= 1 and ob == di):
        out.append(f"discharged ({di}) != obligations ({ob})")
    bad = [t for t in cov.get("theorems", []) if "NOT DISCHARGED" in t]
    if bad:
        out.append(f"not discharged: {bad[:3]}")
    if len(cov.get("theorems", [])) != ob:
        out.append("theorem list does not match the obligation count")
    if cov.get("disagreements"):
        out.append(f"correspondence disagreements={cov['disagreements']}")
    if not cov.get("checker_cmd", "").strip() or not cov.get("trusted_base"):
        out.append("checker_cmd / trusted_base missing")
    if not (isinstance(cov.get("evaluations"), int) and cov["evaluations"] >= 1):
        out.append("no evaluations")
    if not (isinstance(cov.get("distinct_nontrivial"), int) and cov["distinct_nontrivial"] >= 2):
        out.append("fewer than 2 distinct non-trivial cases")
    if not cov.get("samples") or cov["samples"] == ["(none)"]:
        out.append("no samples")
    if not cov.get("rule"):
        out.append("no rule")
    if cov.get("extraction", {}).get("unavailable"):
        out.append(f"extraction unavailable: {cov['extraction']['unavailable']}")
    return out


def main() -> int:
    d = Path(sys.argv[1]) if len(sys.argv) > 1 else VERIF / "evidence"
    manifest = json.loads((VERIF / "MANIFEST.json").read_text())
    schema = None
    try:
        import jsonschema  # type: ignore
        schema = json.loads(Path("/root/.vp/EVIDENCE.schema.json").read_text())
    except Exception:  # noqa: BLE001
        pass
    rc = 0
    for c in manifest["checks"]:
        pid = c["property_id"]
        f = d / f"{pid}.json"
        if not f.exists():
            print(f"{pid}: no evidence file")
            rc = 1
            continue
        try:
            ev = json.loads(f.read_text())
        except Exception as ex:  # noqa: BLE001
            print(f"{pid}: unreadable: {ex}")
            rc = 1
            continue
        ps = problems(ev, pid)
        if schema is not None:
            try:
                jsonschema.validate(ev, schema)
            except Exception as ex:  # noqa: BLE001
                ps.append("schema: " + str(ex).splitlines()[0])
        for p in ps:
            print(f"{pid}: {p}")
            rc = 1
        if not ps:
            cov = ev["coverage"]
            print(f"{pid}: ok tier={ev['tier']} seed={ev['seed']} obligations={cov['discharged']}/{cov['obligations']} "
                  f"evaluations={cov['evaluations']} distinct={cov['distinct_nontrivial']}")
    return rc


if __name__ == "__main__":
    sys.exit(main())
