"""Run the repository's pinned suite (guard off) and compare the passing set with /root/.vp/BASELINE.json."""
import json, os, subprocess, sys, tempfile, xml.etree.ElementTree as ET

repo = sys.argv[1] if len(sys.argv) > 1 else "/repo"
base = json.load(open("/root/.vp/BASELINE.json"))
with tempfile.TemporaryDirectory() as td:
    out = os.path.join(td, "j.xml")
    env = {k: v for k, v in os.environ.items() if k != "STINGRAY_READER_VERIF"}
    env["PYTHONPATH"] = os.path.join(repo, "src")
    subprocess.run(["/venv/bin/python", "-m", "pytest", "-ra", "-q", "-p", "no:cacheprovider", "--timeout=900",
                    "--continue-on-collection-errors", f"--junitxml={out}"], cwd=repo, env=env, capture_output=True)
    passed = set()
    for tc in ET.parse(out).getroot().iter("testcase"):
        if not any(c.tag in ("failure", "error", "skipped") for c in tc):
            passed.add(f"{tc.get('classname')}::{tc.get('name')}")
want = set(base["stable_pass"])
missing = sorted(want - passed)
print(f"baseline stable_pass={len(want)} passed_now={len(passed)} missing={len(missing)} extra={len(passed - want)}")
for m in missing:
    print("  MISSING", m)
sys.exit(1 if missing else 0)
