"""
python -m harness.seed <seed-id> <worktree> <property> [more properties to run…]

Confirms an independently written change (seeded/<id>): the demonstration passes on the unchanged library and fails with
the change, the 179-test baseline still passes with the change; then applies it to /repo, runs the quick checks of the given
properties, records which report a VIOLATION, and undoes it (git -C /repo checkout -- .).  Writes seeded/<id>/meta.json.
"""
import json
import os
import shutil
import subprocess
import sys
from pathlib import Path

VERIF = Path(__file__).resolve().parent.parent
# checks run against a seeded change write their evidence here, never into /verif/evidence (which records the unchanged tree only)
SCRATCH_EVIDENCE = "/var/tmp/verif_seeded_evidence"


def sh(cmd, cwd=None, env=None, timeout=3600):
    p = subprocess.run(cmd, cwd=cwd, env=env, capture_output=True, text=True, timeout=timeout, shell=isinstance(cmd, str))
    return p.returncode, (p.stdout + p.stderr)


def fresh_bytecode(tree):
    """a one-token change keeps the file size, and applying / reversing a patch within one second keeps the mtime: Python would
    then reuse the OTHER version's cached bytecode.  Drop the caches before every run that must see the current source."""
    for d in Path(tree).rglob("__pycache__"):
        shutil.rmtree(d, ignore_errors=True)


FAST = False
OWN = False      # --own: re-run only the own property's check; the other checks' results are kept from the previous confirmation


def recheck(ids):
    """python -m harness.seed --recheck [ids…]: rebuild a scratch worktree of /repo HEAD per kept change, apply its patch there,
    and run the whole confirmation again (demo both ways, baseline, the checks against /repo with the change applied)."""
    import tempfile
    ids = ids or sorted(d.name for d in (VERIF / "seeded").iterdir() if (d / "meta.json").exists())
    for sid in ids:
        dest = VERIF / "seeded" / sid
        old = json.loads((dest / "meta.json").read_text())
        wt = Path(tempfile.mkdtemp(prefix="verif_seed_")) / "wt"
        try:
            rc, out = sh(["git", "-C", "/repo", "apply", "--check", str(dest / "patch.diff")])
            if rc != 0:
                print(f"{sid}: patch no longer applies to /repo HEAD (re-create it): {out[-200:]}")
                continue
            rc, out = sh(["git", "-C", "/repo", "worktree", "add", "--detach", str(wt), "HEAD"])
            assert rc == 0, out
            pid = old["breaks_property"]
            shutil.copy(dest / "patch.diff", wt / f"patch_{pid}.diff")
            shutil.copy(dest / old["demonstration"], wt / old["demonstration"])
            rc, out = sh(["git", "apply", f"patch_{pid}.diff"], cwd=wt)
            assert rc == 0, out
            others = [] if OWN else [p for p in old.get("checks", {}) if p != pid]
            keep = {k: old[k] for k in ("needs_to_manifest", "rebased", "baseline_with_change", "first_run_own") if k in old}
            if OWN:
                keep["_old_checks"] = {p: r for p, r in old.get("checks", {}).items() if p != pid}
            one(sid, wt, [pid] + others, keep=keep)
        finally:
            sh(["git", "-C", "/repo", "worktree", "remove", "--force", str(wt)])
            shutil.rmtree(wt.parent, ignore_errors=True)


def table():
    """python -m harness.seed --table: the markdown table of DESIGN.md section 8, from the meta.json files"""
    def cell(r):
        if not r:
            return ""
        if r["exit"] == 1 and r["violation_line"]:
            return "tie" if "no-failing-input-found" in r["violation_line"] else "input"
        return "–" if r["exit"] == 0 else f"exit {r['exit']}"
    print("| change (seeded/…) | needs | own property | other checks run |\n|---|---|---|---|")
    for d in sorted((VERIF / "seeded").iterdir()):
        if not (d / "meta.json").exists():
            continue
        m = json.loads((d / "meta.json").read_text())
        pid = m["breaks_property"]
        own = cell(m["checks"].get(pid))
        others = ", ".join(f"{p} {cell(r)}" for p, r in m["checks"].items() if p != pid)
        print(f"| {m['seed']} | {m.get('needs_to_manifest', '')} | {pid} {own} | {others} |")


def main():
    if sys.argv[1] == "--table":
        return table()
    if sys.argv[1] == "--recheck":
        global FAST
        rest = sys.argv[2:]
        if "--fast" in rest:
            FAST = True
            rest.remove("--fast")
        if "--own" in rest:
            global OWN
            OWN = True
            rest.remove("--own")
        return recheck(rest)
    args = sys.argv[1:]
    suffix = None
    if "--suffix" in args:            # a worktree holding several changes: patch_Cxx_<suffix>.diff / demo_Cxx_<suffix>.py
        k = args.index("--suffix")
        suffix = args[k + 1]
        del args[k:k + 2]
    one(args[0], Path(args[1]), args[2:], suffix=suffix)


def one(sid, wt, props, keep=None, suffix=None):
    pid = props[0]
    dest = VERIF / "seeded" / sid
    dest.mkdir(parents=True, exist_ok=True)
    patch = next(wt.glob(f"patch_*_{suffix}.diff" if suffix else "patch_*.diff"))
    demo = next(wt.glob(f"demo_*_{suffix}.py" if suffix else "demo_*.py"))
    if suffix:
        # the worktree may have another change applied: start from HEAD and apply this one
        sh(["git", "checkout", "--", "src"], cwd=wt)
        rc0, out0 = sh(["git", "apply", str(patch)], cwd=wt)
        assert rc0 == 0, out0
    if patch.resolve() != (dest / "patch.diff").resolve():
        shutil.copy(patch, dest / "patch.diff")
    if demo.resolve() != (dest / demo.name).resolve():
        shutil.copy(demo, dest / demo.name)
    env = {"PYTHONPATH": str(wt / "src"), "PATH": "/usr/bin:/bin", "PYTHONDONTWRITEBYTECODE": "1"}
    meta = {"seed": sid, "breaks_property": pid, "patch": "patch.diff", "demonstration": demo.name, **(keep or {}), "ran": []}
    # 1. demo on the changed worktree and on the unchanged one
    fresh_bytecode(wt)
    rc_with, out_with = sh(["/venv/bin/python", str(demo)], cwd=wt, env=env)
    sh(["git", "apply", "-R", str(patch)], cwd=wt)
    fresh_bytecode(wt)
    rc_without, out_without = sh(["/venv/bin/python", str(demo)], cwd=wt, env=env)
    sh(["git", "apply", str(patch)], cwd=wt)
    fresh_bytecode(wt)
    meta["demo_with_change"] = {"exit": rc_with, "tail": out_with[-300:]}
    meta["demo_without_change"] = {"exit": rc_without, "tail": out_without[-200:]}
    meta["ran"].append("demo with and without the change in the scratch worktree")
    # 2. baseline with the change
    if keep and keep.get("baseline_with_change", "").startswith("baseline stable_pass=179 passed_now=179") and FAST:
        rc_b = 0        # --fast re-confirmation: the patch file is unchanged; the 179-test result recorded at acceptance is kept
        meta["ran"].append("baseline result kept from the acceptance run (re-confirmation with --fast)")
    else:
        rc_b, out_b = sh(["/venv/bin/python", str(VERIF / "harness" / "baseline_check.py"), str(wt)])
        meta["baseline_with_change"] = out_b.strip().splitlines()[0] if out_b.strip() else ""
        meta["ran"].append("harness/baseline_check.py on the changed worktree")
    confirmed = rc_with != 0 and rc_without == 0 and rc_b == 0
    meta["confirmed"] = confirmed
    # 3. the checks against /repo with the change applied
    results = {}
    if confirmed:
        rc, out = sh(["git", "-C", "/repo", "apply", str(dest / "patch.diff")])
        if rc != 0:
            meta["apply_error"] = out[-300:]
        else:
            fresh_bytecode("/repo/src")
            try:
                for p in props:
                    rc, out = sh([str(VERIF / "check"), p, "--tier", "quick"], cwd=VERIF, env={**os.environ, "VERIF_EVIDENCE_DIR": SCRATCH_EVIDENCE})
                    line = next((l for l in out.splitlines() if l.startswith("VIOLATION")), "")
                    detail = ""
                    if line:
                        rp = line.split("replay=")[1].split()[0]
                        try:
                            d = json.loads((VERIF / rp).read_text())
                            detail = (d.get("what") or "") + " | " + json.dumps(d.get("failures_by_signature") or d.get("no_longer_checks") or "")[:300]
                        except Exception as ex:  # noqa: BLE001
                            detail = repr(ex)
                    results[p] = {"exit": rc, "violation_line": line, "detail": detail[:600]}
                    meta["ran"].append(f"./check {p} --tier quick with the change applied to /repo")
            finally:
                sh(["git", "-C", "/repo", "checkout", "--", "."])
                fresh_bytecode("/repo/src")
    oldc = meta.pop("_old_checks", None)
    if oldc:
        results = {**results, **{p: {**r, "from_previous_confirmation": True} for p, r in oldc.items()}}
    meta["checks"] = results
    meta["caught_by"] = [p for p, r in results.items() if r["exit"] == 1 and r["violation_line"]]
    (dest / "meta.json").write_text(json.dumps(meta, indent=1) + "\n")
    print(json.dumps({k: meta[k] for k in ("seed", "confirmed", "caught_by")}, indent=1))
    for p, r in results.items():
        print(p, r["exit"], r["violation_line"], "\n   ", r["detail"][:300])


if __name__ == "__main__":
    main()
