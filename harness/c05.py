"""
C05 -- record framing: what was written in a RECFM is what is read back.

Proof:           lean/Stingray/Props/C05.lean (N_readback, F_readback, V_readback, VB_readback, *_rdw, VB_bdw …)
Tie:             lean/Stingray/Tie/C05.lean   (the extracted refill statement of RECFM_N is the model's stepN)
Correspondence:  real RECFM_* classes on BytesIO vs the Lean model, same files, same announced lengths
Oracle:          write with the spec writers below -> read with the real classes -> list equality
"""
from __future__ import annotations

import io
import struct
from typing import Any

from harness.common import Check, err_enum, hexs, rolling

CAP = 32768  # z/OS maximum block is 32760; the reader's buffer must cope with every record up to that


# ---------------------------------------------------------------- spec writers (Python twins of Props/C05)
def word(n: int) -> bytes:
    return struct.pack(">H2x", n)


def write_v(recs: list[bytes]) -> bytes:
    return b"".join(word(len(r) + 4) + r for r in recs)


def write_vb(blocks: list[list[bytes]]) -> bytes:
    out = []
    for b in blocks:
        data = write_v(b)
        out.append(word(len(data) + 4) + data)
    return b"".join(out)


def show_recs(rs: list[bytes]) -> str:
    return f"n={len(rs)} " + ",".join(f"{len(r)}:{rolling(r)}" for r in rs)


# ---------------------------------------------------------------- implementation side
_SKIP: list[bytes] = []     # when non-empty: [bytes]; the source holds these bytes first and is positioned just after them
_DISK: list[Any] = []      # when non-empty: [directory]; sources are then real files opened 'rb' (a BufferedReader), not BytesIO


def open_source(file: bytes):
    if _SKIP:
        pre, rest = _SKIP[0], file
        _SKIP.clear()
        try:
            src = open_source(pre + rest)
        finally:
            _SKIP.append(pre)
        src.seek(len(pre))
        return src
    if not _DISK:
        return io.BytesIO(file)
    import os
    path = os.path.join(_DISK[0], "records.bin")
    with open(path, "wb") as f:
        f.write(file)
    return open(path, "rb")


def impl_n(file: bytes, lens: list[int]) -> tuple[list[bytes], str, int]:
    import stingray.estruct as E

    src = open_source(file)
    rdr = E.RECFM_N(src)
    out: list[bytes] = []
    end = "exhausted"
    it = rdr.record_iter()
    i = 0
    try:
        for buf in it:
            if i >= len(lens):
                end = "stopped"
                break
            out.append(bytes(buf[: lens[i]]))
            rdr.used(lens[i])
            i += 1
    except RuntimeError:
        end = "RuntimeError"
    return out, end, src.tell()


def collect(it, limit: int) -> tuple[list[bytes], str | None]:
    out = []
    try:
        for n, r in enumerate(it):
            if n > limit:
                return out, "Diverges"
            out.append(bytes(r))
    except BaseException as ex:  # noqa: BLE001 -- canonicalised
        return out, err_enum(ex)
    return out, None


def impl_iter(kind: str, file: bytes, lrecl: int | None = None) -> str:
    import stingray.estruct as E

    src = open_source(file)
    limit = len(file) + 8
    if kind == "F":
        rs, err = collect(E.RECFM_F(src, lrecl).record_iter(), limit)
    elif kind == "Frdw":
        rs, err = collect(E.RECFM_F(src, lrecl).rdw_iter(), limit)
        if err:
            err = "Error"
    elif kind == "V":
        rs, err = collect(E.RECFM_V(src).record_iter(), limit)
    elif kind == "Vrdw":
        rs, err = collect(E.RECFM_V(src).rdw_iter(), limit)
    elif kind == "VB":
        rs, err = collect(E.RECFM_VB(src).record_iter(), limit)
    elif kind == "VBrdw":
        rs, err = collect(E.RECFM_VB(src).rdw_iter(), limit)
    elif kind == "VBbdw":
        rs, err = collect(E.RECFM_VB(src).bdw_iter(), limit)
    else:
        raise ValueError(kind)
    return err if err else show_recs(rs)


# ---------------------------------------------------------------- generators
def rec_bytes(rng, n: int, tag: int) -> bytes:
    # position-revealing content: cheap to make, every record different
    base = bytes((tag * 37 + i * 7 + (i >> 8)) & 0xFF for i in range(min(n, 512)))
    if n <= 512:
        return base
    return (base * (n // 512 + 1))[:n]


LEN_POOL_BIG = [16383, 16384, 16385, 20000, 32756, 32760, 32767, 32768, 12000, 30000, 8, 1]


def gen_n_case(rng, big: bool) -> list[int]:
    if big:
        k = rng.randint(2, 9)
        return [rng.choice(LEN_POOL_BIG) if rng.random() < 0.7 else rng.randint(1, 32760) for _ in range(k)]
    k = rng.randint(0, 60)
    return [rng.choice([1, 2, 3, 10, 80, 100, 255, 256, 257]) if rng.random() < 0.6 else rng.randint(1, 600)
            for _ in range(k)]


def gen_blocks(rng, recs: list[bytes]) -> list[list[bytes]]:
    blocks: list[list[bytes]] = []
    cur: list[bytes] = []
    size = 4
    for r in recs:
        if cur and (size + len(r) + 4 > 32760 or rng.random() < 0.35):
            blocks.append(cur)
            cur, size = [], 4
        cur.append(r)
        size += len(r) + 4
    if cur:
        blocks.append(cur)
    if rng.random() < 0.1:
        blocks.insert(rng.randint(0, len(blocks)), [])  # an empty block is legal for the reader
    return blocks


# ---------------------------------------------------------------- the run
def explore(ck: Check, scale: int) -> None:
    rng = ck.rng
    reqs: list[str] = []
    impl: list[str] = []
    inputs: list[Any] = []

    def add(req: str, impl_out: str, inp: Any, expected: str | None, sig: str, feature: str) -> None:
        reqs.append(req)
        impl.append(impl_out)
        inputs.append(inp)
        ck.case((feature, str(inp)[:200]), nontrivial=True, feature=feature)
        ck.oracle_evaluations += 1 if expected is not None else 0
        if expected is not None and impl_out != expected:
            ck.fail(sig, f"{feature}: records read back differ from records written", inp)

    # corpus of minimised past failures first
    corpus = [
        ("N", [20000, 20000, 20000, 20000]),        # D9: truncated from the third record on
        ("N", [32760, 16, 16]),                      # D9: 32760-byte first record leaves 16 bytes
        ("N", [32768, 1]),
        ("N", [5, 32760, 5, 32760]),
    ]
    n_cases = [lens for _, lens in corpus]
    for i in range(6 * scale):
        n_cases.append(gen_n_case(rng, big=True))
    for i in range(30 * scale):
        n_cases.append(gen_n_case(rng, big=False))
    for lens in n_cases:
        recs = [rec_bytes(rng, n, i) for i, n in enumerate(lens)]
        file = b"".join(recs)
        rs, end, tell = impl_n(file, lens)
        out = f"{show_recs(rs)} end={end} tell={tell}"
        exp = f"{show_recs(recs)} end=exhausted tell={len(file)}"
        big = "big" if len(file) > CAP else "small"
        add(f"C05 N {CAP} {','.join(map(str, lens)) or '-'} {hexs(file)}", out, {"recfm": "N", "lens": lens},
            exp, "RECFM_N.record_iter", f"N/{big}")
        ck.sample({"recfm": "N", "lens": lens[:12], "file_bytes": len(file)}, limit=3)
    # N: consumer announces 0 -> RuntimeError on both sides; consumer stops early
    for lens, announce in [([5, 5], [5, 0]), ([3, 4, 5], [3]), ([], [])]:
        file = b"".join(rec_bytes(rng, n, i) for i, n in enumerate(lens))
        rs, end, tell = impl_n(file, announce)
        add(f"C05 N {CAP} {','.join(map(str, announce)) or '-'} {hexs(file)}",
            f"{show_recs(rs)} end={end} tell={tell}", {"recfm": "N", "lens": lens, "announce": announce}, None, "",
            "N/protocol")

    # F / FB
    for i in range(25 * scale):
        lrecl = rng.choice([1, 2, 7, 80, 133, 1000, 4096, 32760]) if rng.random() < 0.8 else rng.randint(1, 3000)
        k = rng.randint(0, 12 if lrecl < 5000 else 4)
        recs = [rec_bytes(rng, lrecl, j) for j in range(k)]
        file = b"".join(recs)
        inp = {"recfm": "F", "lrecl": lrecl, "records": k}
        add(f"C05 F {lrecl} {hexs(file)}", impl_iter("F", file, lrecl), inp, show_recs(recs), "RECFM_F.record_iter", "F")
        add(f"C05 Frdw {lrecl} {hexs(file)}", impl_iter("Frdw", file, lrecl), inp,
            show_recs([word(len(r) + 4) + r for r in recs]), "RECFM_F.rdw_iter", "F/rdw")
        if i < 3:
            ck.sample(inp)
        if rng.random() < 0.3 and lrecl > 1 and k:
            ragged = file[: len(file) - rng.randint(1, lrecl - 1)]
            add(f"C05 F {lrecl} {hexs(ragged)}", impl_iter("F", ragged, lrecl), {**inp, "ragged": True}, None, "", "F/ragged")
    for lrecl in (0,):
        add(f"C05 F {lrecl} {hexs(b'abc')}", impl_iter("F", b"abc", lrecl), {"recfm": "F", "lrecl": 0}, "TypeError",
            "RECFM_F.lrecl-guard", "F/no-lrecl")

    # V and VB
    for i in range(25 * scale):
        k = rng.randint(0, 14)
        big = rng.random() < 0.25
        lens = [rng.choice([1, 2, 100, 32752, 32756]) if big and rng.random() < 0.5 else rng.randint(1, 300) for _ in range(k)]
        if rng.random() < 0.2 and lens:
            lens[rng.randrange(len(lens))] = 0  # an empty payload is representable in V
        recs = [rec_bytes(rng, n, j) for j, n in enumerate(lens)]
        file = write_v(recs)
        inp = {"recfm": "V", "lens": lens}
        add(f"C05 V {hexs(file)}", impl_iter("V", file), inp, show_recs(recs), "RECFM_V.record_iter", "V")
        add(f"C05 Vrdw {hexs(file)}", impl_iter("Vrdw", file), inp, show_recs([word(len(r) + 4) + r for r in recs]),
            "RECFM_V.rdw_iter", "V/rdw")
        recs1 = [r for r in recs if r]
        blocks = gen_blocks(rng, recs1)
        filevb = write_vb(blocks)
        inpb = {"recfm": "VB", "blocks": [[len(r) for r in b] for b in blocks]}
        add(f"C05 VB {hexs(filevb)}", impl_iter("VB", filevb), inpb, show_recs(recs1), "RECFM_VB.record_iter", "VB")
        add(f"C05 VBrdw {hexs(filevb)}", impl_iter("VBrdw", filevb), inpb,
            show_recs([word(len(r) + 4) + r for r in recs1]), "RECFM_VB.rdw_iter", "VB/rdw")
        add(f"C05 VBbdw {hexs(filevb)}", impl_iter("VBbdw", filevb), inpb,
            show_recs([word(len(write_v(b)) + 4) + write_v(b) for b in blocks]), "RECFM_VB.bdw_iter", "VB/bdw")
        # a second legal blocking of the same records must read the same
        blocks2 = gen_blocks(rng, recs1)
        file2 = write_vb(blocks2)
        add(f"C05 VB {hexs(file2)}", impl_iter("VB", file2), {"recfm": "VB", "blocks": [[len(r) for r in b] for b in blocks2]},
            show_recs(recs1), "RECFM_VB.record_iter", "VB/reblocked")
        if i < 3:
            ck.sample(inpb)

    # the same readers over real files opened 'rb' (buffered; the records are larger than, equal to and smaller than the buffer)
    import tempfile
    with tempfile.TemporaryDirectory(prefix="verif_c05_") as td:
        _DISK.append(td)
        try:
            for lrecl, k in [(20000, 5), (137, 1000), (8192, 6), (8193, 6), (1, 9000), (32760, 3)]:
                recs = [rec_bytes(rng, lrecl, j) for j in range(k)]
                file = b"".join(recs)
                for kind, want in (("F", recs), ("Frdw", [word(len(r) + 4) + r for r in recs])):
                    ck.case(("disk", kind, lrecl, k), feature=f"disk/{kind}")
                    ck.oracle_evaluations += 1
                    got = impl_iter(kind, file, lrecl)
                    if got != show_recs(want):
                        ck.fail(f"RECFM_F.{'record_iter' if kind == 'F' else 'rdw_iter'}", f"disk/{kind}: records read back from a real file differ "
                                f"from records written ({k} records of {lrecl} bytes)", {"recfm": "F", "lrecl": lrecl, "records": k, "source": "file on disk"})
            for lens in ([20000, 3, 32756, 1, 9000, 9000, 9000], [100] * 400, [8188, 8188, 8192, 5]):
                recs = [rec_bytes(rng, n, j) for j, n in enumerate(lens)]
                blocks = gen_blocks(rng, recs)
                for kind, file, want in (("V", write_v(recs), recs), ("Vrdw", write_v(recs), [word(len(r) + 4) + r for r in recs]),
                                         ("VB", write_vb(blocks), recs), ("VBrdw", write_vb(blocks), [word(len(r) + 4) + r for r in recs]),
                                         ("VBbdw", write_vb(blocks), [word(len(write_v(b)) + 4) + write_v(b) for b in blocks])):
                    ck.case(("disk", kind, tuple(lens)), feature=f"disk/{kind}")
                    ck.oracle_evaluations += 1
                    got = impl_iter(kind, file)
                    if got != show_recs(want):
                        name = {"V": "RECFM_V.record_iter", "Vrdw": "RECFM_V.rdw_iter", "VB": "RECFM_VB.record_iter", "VBrdw": "RECFM_VB.rdw_iter",
                                "VBbdw": "RECFM_VB.bdw_iter"}[kind]
                        ck.fail(name, f"disk/{kind}: records read back from a real file differ from records written",
                                {"recfm": kind, "lens": lens, "source": "file on disk"})
            for lens in ([20000, 20000, 20000, 20000], [5, 32760, 5, 32760], [100] * 500, [9000, 1, 9000]):
                recs = [rec_bytes(rng, n, j) for j, n in enumerate(lens)]
                file = b"".join(recs)
                ck.case(("disk", "N", tuple(lens)), feature="disk/N")
                ck.oracle_evaluations += 1
                rs, end, tell = impl_n(file, lens)
                if f"{show_recs(rs)} end={end} tell={tell}" != f"{show_recs(recs)} end=exhausted tell={len(file)}":
                    ck.fail("RECFM_N.record_iter", "disk/N: records read back from a real file differ from records written",
                            {"recfm": "N", "lens": lens, "source": "file on disk"})
        finally:
            _DISK.clear()

    # a source the caller has positioned: a label / junk before the dataset was skipped (or read by another reader) before the reader
    # is made -- the records are those from the position on, none of the skipped bytes
    for prefix in (b"\x00\x08\x00\x00LBL1", bytes(80), b"HDR" * 7):
        _SKIP.append(prefix)
        try:
            lens = [rng.randint(1, 90) for _ in range(rng.randint(2, 6))]
            recs = [rec_bytes(rng, n, j) for j, n in enumerate(lens)]
            blocks = gen_blocks(rng, recs)
            frecs = [rec_bytes(rng, 40, j) for j in range(4)]
            for kind, file, want, lrecl in (("F", b"".join(frecs), frecs, 40), ("V", write_v(recs), recs, None), ("Vrdw", write_v(recs), [word(len(r) + 4) + r for r in recs], None),
                                            ("VB", write_vb(blocks), recs, None)):
                ck.case(("positioned", kind, len(prefix), tuple(lens)), feature=f"positioned/{kind}")
                ck.oracle_evaluations += 1
                got = impl_iter(kind, file, lrecl)
                # model: Recfm.Source -- the whole file and the position at which the reader is made
                reqs.append(f"C05 {kind}@ {len(prefix)} " + (f"{lrecl} " if kind == "F" else "") + hexs(prefix + file))
                impl.append(got)
                inputs.append({"recfm": kind, "lens": lens, "skipped_prefix": prefix.hex()})
                if got != show_recs(want):
                    name = {"F": "RECFM_F.record_iter", "V": "RECFM_V.record_iter", "Vrdw": "RECFM_V.rdw_iter", "VB": "RECFM_VB.record_iter"}[kind]
                    ck.fail(name, f"positioned/{kind}: the source was positioned after {len(prefix)} bytes that are no part of the dataset; the "
                                  f"records read ({got[:60]}) are not those written from that position on", {"recfm": kind, "lens": lens, "skipped_prefix": prefix.hex()})
            ck.case(("positioned", "N", len(prefix), tuple(lens)), feature="positioned/N")
            ck.oracle_evaluations += 1
            file = b"".join(recs)
            rs, end, tell = impl_n(file, lens)
            if rs != recs or end != "exhausted":
                ck.fail("RECFM_N.record_iter", f"positioned/N: the source was positioned after {len(prefix)} bytes that are no part of the dataset; "
                                               f"the records read are not those written from that position on", {"recfm": "N", "lens": lens, "skipped_prefix": prefix.hex()})
        finally:
            _SKIP.clear()

    # malformed stream: model and code must agree on the error kind (not part of the property, validates the model)
    for i in range(20 * scale):
        n = rng.randint(1, 40)
        junk = bytes(rng.choice([0, 0, 0, 1, 4, 5, 8, 12, rng.randrange(256)]) for _ in range(n))
        for kind in ("V", "VB", "VBbdw"):
            add(f"C05 {kind} {hexs(junk)}", impl_iter(kind, junk), {"malformed": kind, "file": junk.hex()}, None, "",
                f"malformed/{kind}")

    model = ck.driver.run(reqs)
    ck.compare_streams("C05 model vs estruct.RECFM_*", inputs, impl, model)


def run(ck: Check) -> int:
    ck.rule = ("record lists generated from one PRNG (lengths from a pool around the 32768-byte refill boundary, "
               "tiny, and random), written with the spec writers as N/F/V/VB files (random legal blockings for VB), "
               "read with the real RECFM_* classes on BytesIO and with the Lean model; a case is distinct by "
               "(format, length vector / blocking); malformed byte strings form a separate stream that only validates the model")
    ck.trusted_extra = ["file object modelled as: read(n) returns the next min(n, remaining) bytes; read(negative) returns the rest",
                        "struct.pack/unpack('>H2x') modelled by word/unword"]
    ck.assumptions = ["BytesIO stands for the binary file object", "records are non-empty (N, VB); lengths + 4 fit 16 bits"]
    ck.prove(["Stingray.Props.C05", "Stingray.Tie.C05"])
    explore(ck, 1 if ck.tier == "quick" else 12)
    return ck.finish(search=lambda c: explore(c, 6))


def replay(ck: Check, data: dict[str, Any]) -> int:
    inp = data.get("input", {})
    if inp.get("recfm") == "N":
        lens = inp["lens"]
        recs = [rec_bytes(ck.rng, n, i) for i, n in enumerate(lens)]
        rs, end, tell = impl_n(b"".join(recs), lens)
        ok = rs == recs and end == "exhausted"
        print(f"replay N lens={lens}: read back lengths {[len(r) for r in rs]} end={end} -> {'holds' if ok else 'FAILS'}")
        return 0 if ok else 1
    print("replay: re-running the quick exploration")
    return run(ck)
