"""
C12 -- respelling a copybook (layout, case, synonyms, clause order) changes nothing.

Proof:           lean/Stingray/Props/C12.lean (refFormat_congr, seq_area_irrelevant, ident_area_irrelevant, dropped_lines_irrelevant,
                 replacing_once, D18_counterexample, leading_space_irrelevant, renumber_invariant)
Tie:             pinned sources of reference_format / dde_sentences / CLAUSES / clause_dict (Tie/C12.lean); correspondence of the real
                 reference_format + dde_sentences with RefFormat.parseText on every respelled text (line layer, REPLACING included)
Oracle:          METAMORPHIC: each generated copybook is rendered in the house style and under compositions of meaning-preserving
                 rewrites, each tagged with its kind and applied at random applicable sites; the (name, start, end) layout and the
                 decoded values of one record must be identical
"""
from __future__ import annotations

import copy
import io
import re
from typing import Any, Callable

from harness.c10 import fill_record, show_tree
from harness import clause_layer
from harness.common import Check, err_enum
from harness.gen_copybook import Node, Style, TreeGen, clause_text, preorder, render, spec_layout, wrap

# ------------------------------------------------------------------------------------------ flexible renderer
SYN = {
    "COMP": ["COMP", "COMPUTATIONAL", "BINARY", "COMP-4", "COMPUTATIONAL-4"],
    "COMP-3": ["COMP-3", "PACKED-DECIMAL", "COMPUTATIONAL-3"],
}
FAMILY = {v: k for k, vs in SYN.items() for v in vs}


class Spelling:
    """how one copybook is written down; every field is one rewrite kind"""

    def __init__(self) -> None:
        self.seq = False
        self.ident = False
        self.noise_lines: list[str] = []      # comment / blank / directive lines, inserted between entries
        self.pic_word = "PIC"
        self.pic_is = False
        self.usage_word = True
        self.usage_is = False
        self.synonym: Callable[[str], str] = lambda u: u
        self.order = "house"                  # house | usage-first | occurs-first
        self.breaks = False                   # line breaks inside entries
        self.join_entries = False             # several entries on one line
        self.spacing = 1                      # extra blanks between words
        self.tabs = False
        self.sep = ""                         # "," or ";" after clauses (followed by a blank)
        self.sep_after_pic = False            # separator glued to the picture string (D26)
        self.times = True
        self.on_word = True
        self.indexed_by = ""                  # "" | "indexed" (no KEY, D27) | "key+indexed" | "indexed-before-pic" (D33)
        self.renumber: Callable[[int], int] = lambda n: n
        self.lower = ""                       # "" | "keywords" | "picture" (D20)
        self.extra = ""                       # "" | value | just | just-last | blank | blank-zeros (D42) | sync | 88
        self.continuation = False             # D28
        self.expand_repeat = False
        self.trailing_newline = True
        self.full_line = False                # last line padded to 72 columns exactly

    def tags(self) -> list[str]:
        return getattr(self, "_tags", [])


def expand_pic(p: str) -> str:
    return re.sub(r"([AX9Z0])\((\d+)\)", lambda m: m.group(1) * int(m.group(2)) if int(m.group(2)) <= 12 else m.group(0), p)


def entry_text(n: Node, sp: Spelling) -> str:
    kw = (lambda w: w.lower()) if sp.lower == "keywords" else (lambda w: w)
    parts: list[str] = [f"{sp.renumber(n.level):02d}"]
    if n.name is not None:
        parts.append(kw(n.name) if n.name == "FILLER" else n.name)
    if n.redefines:
        parts.append(f"{kw('REDEFINES')} {n.redefines}")
    clauses: list[tuple[str, str]] = []
    if n.pic is not None:
        pic = expand_pic(n.pic) if sp.expand_repeat else n.pic
        if sp.lower == "picture":
            pic = pic.lower()
        clauses.append(("pic", f"{kw(sp.pic_word)}{' ' + kw('IS') if sp.pic_is else ''} {pic}"))
    usage = n.usage
    if usage:
        u = kw(sp.synonym(usage))
        clauses.append(("usage", (f"{kw('USAGE')} {kw('IS') + ' ' if sp.usage_is else ''}{u}") if sp.usage_word else u))
    if n.occurs is not None:
        occ = f"{kw('OCCURS')} {n.occurs}" + (f" {kw('TIMES')}" if sp.times else "")
        if sp.indexed_by == "indexed":
            occ += f" {kw('INDEXED')} {kw('BY')} IX-{n.level}"
        elif sp.indexed_by == "key+indexed":
            occ += f" {kw('ASCENDING')} {kw('KEY')} {kw('IS')} K-{n.level} {kw('INDEXED')} {kw('BY')} IX-{n.level}"
        clauses.append(("occurs", occ))
    if n.odo is not None:
        clauses.append(("occurs", f"{kw('OCCURS')} {n.odo[0]} {kw('TO')} {n.odo[1]}" + (f" {kw('TIMES')}" if sp.times else "")
                        + f" {kw('DEPENDING')}" + (f" {kw('ON')}" if sp.on_word else "") + f" {n.odo[2]}"))
    if not n.is_group and n.redefines is None:
        if sp.extra in ("value", "value-dot"):
            # (no blanks inside the literals: a rewrite may break a line between any two words, and a literal cannot be broken;
            # 'A. B' -- a period followed by a blank inside the literal -- only in the kind of its own: finding D46)
            lits = ("'A.B'", "'COMP'", "'COMP-3'", '"BINARY"', "'IT''S'", '"A""B"', "'X''YZ'")
            lit = "ZERO" if (n.pic or "").upper().lstrip("S").startswith("9") else \
                ("'A.\x00B'" if sp.extra == "value-dot" else lits[(n.level + len(n.name or "")) % 7])   # \x00: a blank no rewrite may break at
            clauses.append(("extra", f"{kw('VALUE')}" + (f" {kw('IS')}" if (n.level + len(n.name or "")) % 2 else "") + f" {lit}"))
        elif sp.extra in ("just", "just-last") and (n.pic or "").upper().startswith("X"):
            clauses.append(("extra", f"{kw('JUSTIFIED')} {kw('RIGHT')}" if sp.extra == "just" else kw("JUST")))
        elif sp.extra in ("blank", "blank-zeros") and (n.pic or "").upper().lstrip("S").startswith("9") and not usage:
            zero = "ZERO" if sp.extra == "blank" else ("ZEROS", "ZEROES")[n.level % 2]
            clauses.append(("extra", f"{kw('BLANK')}" + (f" {kw('WHEN')}" if n.level % 3 else "") + f" {kw(zero)}"))
        elif sp.extra == "sync" and usage and FAMILY.get(usage) == "COMP":
            clauses.append(("extra", kw("SYNC")))
    if sp.order == "usage-first":
        clauses.sort(key=lambda c: {"usage": 0, "pic": 1, "occurs": 2, "extra": 3}[c[0]])
    elif sp.order == "extra-first":     # VALUE / JUSTIFIED / BLANK / SYNC written before the USAGE
        clauses.sort(key=lambda c: {"pic": 0, "extra": 1, "usage": 2, "occurs": 3}[c[0]])
    elif sp.order == "occurs-first":
        clauses.sort(key=lambda c: {"occurs": 0, "pic": 1, "usage": 2, "extra": 3}[c[0]])
    elif sp.extra == "just-last":
        clauses.sort(key=lambda c: 1 if c[0] == "extra" else 0)
    if sp.indexed_by == "indexed-before-pic":
        clauses.sort(key=lambda c: 0 if c[0] == "occurs" else 1)
        clauses = [(k, (t + f" {kw('INDEXED')} {kw('BY')} IX-{n.level}") if k == "occurs" else t) for k, t in clauses]
    words: list[str] = []
    for i, (k, t) in enumerate(clauses):
        if sp.sep and i < len(clauses) - 1:
            if sp.sep_after_pic or k != "pic":
                t = t + sp.sep
        words.append(t)
    # words are joined by single blanks here; spacing and tabs are applied per physical line after wrapping
    return " ".join(parts + words) + "."


def render_spelled(root: Node, sp: Spelling) -> tuple[str, list[str]]:
    """returns (text, list of physical lines)"""
    entries: list[str] = []
    for n in preorder(root):
        entries.append(entry_text(n, sp))
        if sp.extra == "88" and not n.is_group:
            entries.append(f"{sp.renumber(88) if False else 88:02d} COND-{len(entries)} VALUE 'Y'.")
    phys: list[str] = []
    seq = 100
    pending = ""
    out_entries = []
    for e in entries:
        if sp.join_entries and pending and len(pending) + len(e) < 55:
            pending = pending + " " + e
            out_entries[-1] = pending
        else:
            pending = e
            out_entries.append(e)
    for k, e in enumerate(out_entries):
        chunks = wrap("    " + e, 30 if sp.breaks else 64)
        if sp.continuation and len(chunks) == 1 and " PIC " in e.upper() and len(e) > 20:
            # split a word across two lines with a continuation indicator
            m = re.search(r"(COMP|PACK|DISP|BINA|REDE)", e.upper())
            if m:
                cut = 4 + m.start() + 3
                body = "    " + e
                chunks = [body[:cut], "-" + "   " + body[cut:]]
        if sp.spacing > 1 or sp.tabs:
            blank = ("\t" if sp.tabs else " ") * sp.spacing
            def respace(ch: str) -> str:
                lead = len(ch) - len(ch.lstrip(" -"))
                head, tail = ch[:lead], ch[lead:]
                out = blank.join(tail.split(" "))
                return head + out if len(head + out) <= 64 else ch
            chunks = [respace(ch) for ch in chunks]
        for j, ch in enumerate(chunks):
            seq += 10
            lead = f"{seq:06d}" if sp.seq else "      "
            if ch.startswith("-"):
                line = lead + "-" + ch[1:]
            else:
                line = lead + " " + ch
            if sp.ident:
                line = line.ljust(72) + "IDENT001"
            phys.append(line)
            if sp.noise_lines and j < len(chunks) - 1 and not chunks[j + 1].startswith("-"):
                # comment / blank / directive lines may also stand between the lines of ONE entry
                phys.append(sp.noise_lines[(k + j + 1) % len(sp.noise_lines)])
        if sp.noise_lines and k < len(out_entries) - 1:
            phys.append(sp.noise_lines[k % len(sp.noise_lines)])
    if sp.full_line:
        phys[-1] = phys[-1][:72].rstrip()
        body = phys[-1]
        phys[-1] = body[:7] + body[7:].rjust(65)      # right-align so that the period sits in column 72
    phys = [ln.replace("\x00", " ") for ln in phys]
    text = "\n".join(phys) + ("\n" if sp.trailing_newline else "")
    return text, phys


# ------------------------------------------------------------------------------------------ rewrite kinds
def apply_kind(kind: str, sp: Spelling, rng, levels: list[int]) -> None:
    if kind == "seq-numbers":
        sp.seq = True
    elif kind == "ident-area":
        sp.ident = True
    elif kind == "comment-lines":
        sp.noise_lines = ["      * a comment . 05 X PIC X.", "      *", "      D debugging line 05 Y PIC X."]
    elif kind == "blank-lines":
        sp.noise_lines = ["", "      ", "          "]
    elif kind == "eject-skip":
        sp.noise_lines = ["       EJECT", "       SKIP1", "       SKIP2", "       SKIP3", " SKIP2", "SKIP3", "           SKIP3   ", "        EJECT"]
        sp.breaks = True          # entries over several lines, so that the directives also stand inside an entry
    elif kind == "picture-word":
        sp.pic_word = "PICTURE"
    elif kind == "picture-is":
        sp.pic_is = True
        sp.pic_word = rng.choice(["PIC", "PICTURE"])
    elif kind == "usage-word-omitted":
        sp.usage_word = False
    elif kind == "usage-is":
        sp.usage_is = True
    elif kind == "usage-synonym":
        pick = {k: rng.choice(v) for k, v in SYN.items()}
        sp.synonym = lambda u: pick.get(FAMILY.get(u, ""), u)
    elif kind == "clause-order":
        sp.order = rng.choice(["usage-first", "occurs-first", "extra-first"])
    elif kind == "line-breaks":
        sp.breaks = True
    elif kind == "several-entries-per-line":
        sp.join_entries = True
    elif kind == "extra-spacing":
        sp.spacing = rng.choice([2, 3])
    elif kind == "tabs":
        sp.tabs = True
    elif kind == "comma-separators":
        sp.sep = ","
    elif kind == "semicolon-separators":
        sp.sep = ";"
    elif kind == "separator-after-picture":
        sp.sep = rng.choice([",", ";"])
        sp.sep_after_pic = True
    elif kind == "times-omitted":
        sp.times = False
    elif kind == "on-omitted":
        sp.on_word = False
    elif kind == "indexed-by-without-key":
        sp.indexed_by = "indexed"
    elif kind == "key-is-indexed-by":
        sp.indexed_by = "key+indexed"
    elif kind == "indexed-by-before-picture":
        sp.indexed_by = "indexed-before-pic"
    elif kind == "level-renumbering":
        distinct = sorted({lv for lv in levels if lv not in (1, 66, 77, 88)})
        new = sorted(rng.sample(range(2, 50), len(distinct)))
        m = dict(zip(distinct, new))
        sp.renumber = lambda n: m.get(n, n)
    elif kind == "lowercase-keywords":
        sp.lower = "keywords"
    elif kind == "lowercase-picture":
        sp.lower = "picture"
    elif kind == "value-clause":
        sp.extra = "value"
    elif kind == "value-literal-period-blank":
        sp.extra = "value-dot"
        sp.order = "extra-first"
    elif kind == "justified-right":
        sp.extra = "just"
    elif kind == "justified-as-last-clause":
        sp.extra = "just-last"
    elif kind == "blank-when-zero":
        sp.extra = "blank"
    elif kind == "blank-when-zeros":
        sp.extra = "blank-zeros"
    elif kind == "sync":
        sp.extra = "sync"
    elif kind == "88-levels":
        sp.extra = "88"
    elif kind == "continuation-line":
        sp.continuation = True
    elif kind == "expanded-repeat-counts":
        sp.expand_repeat = True
    elif kind == "no-final-newline":
        sp.trailing_newline = False
    elif kind == "period-in-column-72":
        sp.full_line = True
    else:
        raise ValueError(kind)


KINDS = ["seq-numbers", "ident-area", "comment-lines", "blank-lines", "eject-skip", "picture-word", "picture-is", "usage-word-omitted",
         "usage-is", "usage-synonym", "clause-order", "line-breaks", "several-entries-per-line", "extra-spacing", "tabs",
         "comma-separators", "semicolon-separators", "times-omitted", "on-omitted", "key-is-indexed-by", "level-renumbering",
         "value-clause", "value-literal-period-blank", "justified-right", "justified-as-last-clause", "blank-when-zero", "sync", "88-levels", "expanded-repeat-counts"]
KNOWN_KINDS = {
    "separator-after-picture": "respell:separator-after-picture",          # D26
    "indexed-by-without-key": "respell:indexed-by-without-key",            # D27
    "continuation-line": "respell:continuation-line",                      # D28
    "blank-when-zeros": "respell:blank-when-zeros",                        # D42 (test-pinned)
    "indexed-by-before-picture": "respell:indexed-by-before-picture",      # D33
    "lowercase-keywords": "respell:lowercase-keywords",                    # D20
    "lowercase-picture": "respell:lowercase-picture",                      # D20
    "no-final-newline": "respell:text-ends-with-final-period",             # D11
    "period-in-column-72": "respell:text-ends-with-final-period",          # D11
}


# ------------------------------------------------------------------------------------------ observation
def observe(text: str, record: bytes) -> tuple[Any, Any]:
    """(layout, values): [(unique name path, start, end)] of every named item reachable without indices, and the decoded record"""
    from stingray.cobol_parser import schema_iter
    from stingray.schema_instance import EBCDIC, SchemaMaker

    doc = next(iter(schema_iter(io.StringIO(text))))
    schema = SchemaMaker.from_json(doc)
    unp = EBCDIC()
    nav = unp.nav(schema, record)
    layout: list[tuple[str, int, int]] = []

    def walk(n: Any, path: str) -> None:
        layout.append((path, n.location.start, n.location.end))
        sch = n.schema
        if type(sch).__name__ == "ObjectSchema":
            for k, sub in sch.properties.items():
                if k.startswith("REDEFINES-"):
                    continue
                walk(n.name(k), path + "/" + k)
        elif type(sch).__name__ in ("ArraySchema",) and n.location.item_count > 0:  # type: ignore[attr-defined]
            walk(n.index(0), path + "/#0")

    walk(nav, "")
    try:
        val = show_tree(nav.value())
    except BaseException as ex:  # noqa: BLE001
        val = "err:" + err_enum(ex)
    return layout, val


def try_observe(text: str, record: bytes) -> Any:
    try:
        return observe(text, record)
    except BaseException as ex:  # noqa: BLE001
        return ("error", f"{type(ex).__name__}: {str(ex)[:80]}")


def hex_lines(text: str) -> str:
    lines = text.splitlines(keepends=True)
    return ",".join(l.encode("latin-1", "replace").hex() for l in lines) or "-"


def impl_sentences(text: str, reps: list[tuple[str, str]] | None = None) -> str:
    from stingray.cobol_parser import dde_sentences, reference_format

    try:
        ss = list(dde_sentences(reference_format(io.StringIO(text), reps)))
    except BaseException as ex:  # noqa: BLE001
        return err_enum(ex)
    return ",".join(a.encode().hex() + ":" + (b.encode().hex() or "-") for a, b in ss) or "-"


def explore(ck: Check, n_trees: int, n_compositions: int) -> None:
    rng = ck.rng
    reqs: list[str] = []
    impl: list[str] = []
    inputs: list[Any] = []
    for t in range(n_trees):
        tg = TreeGen(rng, max_depth=rng.choice([2, 3]), max_width=rng.choice([3, 4]), redefines_in_occurs=True, fillers=True,
                     odo=False)
        root = tg.record()
        spec = spec_layout(root, {})
        record = bytes(fill_record(rng, root, spec))
        levels = [n.level for n in preorder(root)]
        base_text, _ = render_spelled(root, Spelling())
        base = try_observe(base_text, record)
        if base[0] == "error":
            ck.fail("house-style", f"the copybook in the house style cannot be processed: {base[1]}", {"copybook": base_text})
            continue
        ck.case(base_text, feature="base")
        # model tie for the line layer on the base text
        reqs.append(f"REF parse - {hex_lines(base_text)}")
        impl.append(impl_sentences(base_text))
        inputs.append({"copybook": base_text, "what": "sentences"})

        def check(kinds: list[str]) -> None:
            sp = Spelling()
            for k in kinds:
                apply_kind(k, sp, rng, levels)
            if sp.indexed_by and (sp.order == "occurs-first" or sp.extra in ("value", "value-dot")):
                # this composition IS that known shape: a clause (PICTURE, or VALUE with its literal) written after INDEXED BY
                kinds = kinds + ["indexed-by-before-picture"]
            text, _ = render_spelled(root, sp)
            ck.case((base_text, tuple(kinds), text), feature="+".join(kinds) if len(kinds) == 1 else f"composition-of-{len(kinds)}")
            ck.oracle_evaluations += 1
            got = try_observe(text, record)
            line_layer = all(k in ("seq-numbers", "ident-area", "comment-lines", "blank-lines", "eject-skip", "line-breaks", "extra-spacing",
                                   "several-entries-per-line", "no-final-newline", "continuation-line") for k in kinds)
            if line_layer or rng.random() < 0.3:
                reqs.append(f"REF parse - {hex_lines(text)}")
                impl.append(impl_sentences(text))
                inputs.append({"copybook": text, "kinds": kinds, "what": "sentences"})
            if got != base:
                # attribute: the first kind that fails alone, else the composition
                sig = None
                for k in kinds:
                    if k in KNOWN_KINDS:
                        sig = KNOWN_KINDS[k]
                        break
                if sig is None and len(kinds) > 1:
                    for k in kinds:
                        sp1 = Spelling()
                        apply_kind(k, sp1, rng, levels)
                        if try_observe(render_spelled(root, sp1)[0], record) != base:
                            sig = KNOWN_KINDS.get(k, "respell:" + k)
                            break
                sig = sig or ("respell:" + "+".join(kinds))
                what = (got[1] if got[0] == "error" else
                        ("layout differs" if got[0] != base[0] else "decoded values differ"))
                ck.fail(sig, f"rewrite {'+'.join(kinds)} changes the result: {what}", {"copybook": text, "house_style": base_text, "kinds": kinds})

        for k in KINDS:                     # every kind alone, on every tree
            check([k])
        for k in KNOWN_KINDS:               # kinds with known findings: still exercised, attributed to their own signatures
            check([k])
        for _ in range(n_compositions):
            check(rng.sample(KINDS, rng.randint(2, 5)))
        if t < 1:
            sp = Spelling()
            for k in ("seq-numbers", "usage-synonym", "clause-order", "comment-lines"):
                apply_kind(k, sp, rng, levels)
            ck.sample({"house_style": base_text, "respelled": render_spelled(root, sp)[0]})
    # REPLACING: every line once, all replacements applied
    for _ in range(max(5, n_trees // 3)):
        tg = TreeGen(rng, max_depth=2, max_width=3)
        root = tg.record()
        text = render([root], Style())
        names = [n.name for n in preorder(root) if n.name not in (None, "FILLER")]
        if len(names) < 2:
            continue
        a, b = names[0], names[-1]
        templ = text.replace(a, "'PFX'-A").replace(b, "'SFX'-B") if rng.random() < 0.7 else text
        if rng.random() < 0.5:
            # the same tag twice on ONE source line: every occurrence is replaced
            templ = templ.replace(" 01 ", " 01 'PFX'-'PFX'-", 1)
        reps = [("'PFX'", "P1"), ("'SFX'", "S2"), ("'NONE'", "ZZ")][: rng.randint(1, 3)]
        want_text = templ
        for o, nw in reps:
            want_text = want_text.replace(o, nw)
        ck.case((templ, tuple(reps)), feature=f"replacing-{len(reps)}")
        ck.oracle_evaluations += 1
        got = impl_sentences(templ, reps)
        want = impl_sentences(want_text, None)
        if got != want:
            ck.fail("replacing", f"REPLACING with {len(reps)} pairs does not give the text with all replacements applied once",
                    {"copybook": templ, "replacing": reps})
        reqs.append("REF parse " + ";".join(o.encode().hex() + ":" + nw.encode().hex() for o, nw in reps) + " " + hex_lines(templ))
        impl.append(got)
        inputs.append({"copybook": templ, "replacing": reps, "what": "sentences"})
    model = ck.driver.run(reqs)
    ck.compare_streams("reference_format + dde_sentences vs RefFormat.parseText", inputs, impl, model)


def run(ck: Check) -> int:
    ck.rule = ("each generated copybook in the house style, then under every single rewrite kind and under random compositions of 2-5 kinds "
               f"({len(KINDS)} kinds: sequence numbers, identification area, comment/blank/EJECT/SKIP lines, PIC/PICTURE [IS], USAGE [IS] "
               "omitted, synonyms, clause order, line breaks, several entries per line, spacing, tabs, comma/semicolon separators, optional "
               "TIMES/ON/KEY IS/INDEXED BY, level renumbering, VALUE/JUSTIFIED/BLANK WHEN ZERO/SYNC/88 levels, expanded repeat counts) plus "
               "the kinds with known findings; layout and decoded values compared with the house style; REPLACING lists of 1-3 pairs; "
               "distinct by (copybook, rewrite set, rendered text)")
    ck.trusted_extra = ["the clause layer is modelled at the level of words (Model/Clause.lean, theorems in Props/C12Clause.lean); the lexer that "
                        "classifies words and the assumptions listed at the top of that file are validated by correspondence, the CLAUSES "
                        "pattern itself is pinned",
                        "Python's str.strip/rstrip white space = ASCII white space on the generated texts"]
    ck.assumptions = ["copybook text is ASCII"]
    ck.prove(["Stingray.Props.C12", "Stingray.Props.C12Clause", "Stingray.Tie.C12"])
    if ck.tier == "quick":
        explore(ck, 12, 20)
        clause_layer.explore(ck, 300, 1500, 2)
    else:
        explore(ck, 200, 60)
        clause_layer.explore(ck, 5000, 20000, 3)
    return ck.finish(search=lambda c: (explore(c, 40, 40), clause_layer.explore(c, 2000, 5000, 2)))


def replay(ck: Check, data: dict[str, Any]) -> int:
    return run(ck)
