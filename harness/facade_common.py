"""Shared helpers for the facade family (C03, C09, C14): table generation, writers for every physical format the sandbox can
write, and the observation a client makes through the library's uniform calls."""
from __future__ import annotations

import csv
import io
import json
import os
from pathlib import Path
from typing import Any, Callable, Optional

Table = list[list[str]]          # first row = header

SAFE = "ABCDEFGHIJabcdefghij0123456789"
PUNCT = "![]|^#$@"       # in every EBCDIC-able table: characters on which the EBCDIC code pages (037, 500, 1047) differ
TRICKY = ["x,y", 'say "hi"', "007", "0.50", "1e5", " lead", "trail ", "tab\there", "semi;colon", "é", "naïve", "Ω", "a'b", "-5", "TRUE",
          "#N/A", "=1+1", "line1 line2", "null", "None", "{}", "[1]",
          # characters str.splitlines() breaks on but file iteration does not (NEL, LINE / PARAGRAPH SEPARATOR): ordinary cell text
          "a\u2028b", "c\u0085d", "e\u2029f"]


def gen_table(rng, *, n_cols: Optional[int] = None, n_rows: Optional[int] = None, tricky: float = 0.4, fixed_safe: bool = False,
              cleaning_headers: bool = False) -> Table:
    nc = n_cols or rng.randint(1, 6)
    nr = n_rows if n_rows is not None else rng.randint(0, 8)
    heads: list[str] = []
    while len(heads) < nc:
        h = "".join(rng.choice("ABCDEFGHKLMNPQRS") for _ in range(rng.randint(1, 6)))
        if cleaning_headers and rng.random() < 0.5:
            h = rng.choice(["Unit Price", "Qty (each)", "9 Lives", "a.b-c", "e-mail@x", "Total $", "col#2"]) + str(len(heads))
        if h not in heads:
            heads.append(h)
            if cleaning_headers and len(heads) < nc and rng.random() < 0.3:
                # a second, distinct header that is the first one's cleaned spelling ("unit cost" / "unit_cost"), on either side of it
                from stingray.workbook import name_cleaner
                twin = name_cleaner(h)
                if twin != h and twin not in heads:
                    heads.insert(rng.choice([len(heads) - 1, len(heads)]), twin)

    def cell() -> str:
        if fixed_safe:
            return "".join(rng.choice(SAFE + (PUNCT if rng.random() < 0.3 else "")) for _ in range(rng.randint(1, 8)))
        if rng.random() < tricky:
            return rng.choice(TRICKY)
        return "".join(rng.choice(SAFE) for _ in range(rng.randint(1, 8)))

    return [heads] + [[cell() for _ in range(nc)] for _ in range(nr)]


# ------------------------------------------------------------------------------------------ writers
def write_csv(path: Path, t: Table, **kw: Any) -> None:
    with path.open("w", newline="", encoding="utf-8") as f:
        csv.writer(f, **kw).writerows(t)


def write_ndjson(path: Path, t: Table) -> None:
    with path.open("w", encoding="utf-8") as f:
        for row in t[1:]:
            f.write(json.dumps(dict(zip(t[0], row)), ensure_ascii=False) + "\n")


def write_xlsx(path: Path, sheets: dict[str, Table]) -> None:
    import openpyxl

    wb = openpyxl.Workbook()
    first = True
    for name, t in sheets.items():
        ws = wb.active if first else wb.create_sheet()
        ws.title = name
        first = False
        for row in t:
            ws.append(row)
    wb.save(path)


def write_ods(path: Path, sheets: dict[str, Table]) -> None:
    from collections import OrderedDict

    from pyexcel_ods3 import save_data

    save_data(str(path), OrderedDict((k, v) for k, v in sheets.items()))


def write_numbers(path: Path, sheets: dict[str, Table]) -> None:
    import numbers_parser

    doc = None
    for name, t in sheets.items():
        nr, nc = max(1, len(t)), max(1, len(t[0]) if t else 1)
        if doc is None:
            doc = numbers_parser.Document(sheet_name=name, table_name="T", num_rows=nr, num_cols=nc, num_header_rows=0, num_header_cols=0)
            tbl = doc.sheets[0].tables[0]
        else:
            doc.add_sheet(name, "T", num_rows=nr, num_cols=nc)
            tbl = doc.sheets[-1].tables[0]
        for r, row in enumerate(t):
            for c, v in enumerate(row):
                tbl.write(r, c, v)
    assert doc is not None
    doc.save(str(path))


def copybook_for(t: Table, widths: list[int]) -> str:
    lines = ["       01  REC."]
    for h, w in zip(t[0], widths):
        lines.append(f"           05  {h} PIC X({w}).")
    return "\n".join(lines) + "\n"


def write_fixed_text(path: Path, t: Table, widths: list[int]) -> None:
    with path.open("w", encoding="utf-8", newline="\n") as f:
        for row in t[1:]:
            f.write("".join(c.ljust(w) for c, w in zip(row, widths)) + "\n")


def write_ebcdic(path: Path, t: Table, widths: list[int]) -> None:
    with path.open("wb") as f:
        for row in t[1:]:
            f.write("".join(c.ljust(w) for c, w in zip(row, widths)).encode("cp037"))


# ------------------------------------------------------------------------------------------ observation
ABSENT = "\x00absent"     # what cell_text gives for the library's absent marker: never the text of a real cell (token: ^)


def cell_text(v: Any) -> str:
    if v == [None] or v is None:
        return ABSENT
    return str(v)


def observe_heading(wb: Any, strip: bool = False, canon_sheet: Callable[[str], str] = lambda s: s) -> list[tuple[str, list[str], list[list[str]]]]:
    """the uniform sequence of calls: for every sheet, take the first row as the schema, read every row by name"""
    from stingray.workbook import HeadingRowSchemaLoader

    out = []
    for sheet in wb.sheet_iter():
        sheet.set_schema_loader(HeadingRowSchemaLoader())
        rows = list(sheet.rows())
        header = list(sheet.schema.properties) if hasattr(sheet, "schema") else []
        body = [[cell_text(r.name(h).value()) for h in header] for r in rows]
        if strip:
            body = [[c.rstrip() for c in r] for r in body]
        out.append((canon_sheet(sheet.name), header, body))
    return out


def observe_with_schema(wb: Any, schema: Any, header: list[str], strip: bool = False) -> list[tuple[str, list[str], list[list[str]]]]:
    """formats without a heading row (NDJSON, fixed-width text, EBCDIC): the schema is supplied, rows are read by name"""
    out = []
    for sheet in wb.sheet_iter():
        sheet.set_schema(schema)
        rows = list(sheet.rows())
        body = [[cell_text(r.name(h).value()) for h in header] for r in rows]
        if strip:
            body = [[c.rstrip() for c in r] for r in body]
        out.append((sheet.name, header, body))
    return out


def hexcell(s: str) -> str:
    return s.encode("utf-8").hex() if s != "" else "-"


def delivered_token(sheets: list[tuple[str, Table]]) -> str:
    """what an ideal unpacker delivers for these sheets, in the driver's syntax"""
    parts = []
    for name, t in sheets:
        rows = "/".join(".".join(hexcell(c) for c in r) if r else "~" for r in t) if t else "!"
        parts.append(f"{hexcell(name)}:{rows}")
    return "|".join(parts)


def obs_token(obs: list[tuple[str, list[str], list[list[str]]]]) -> str:
    parts = []
    for name, header, body in obs:
        h = ".".join(hexcell(c) for c in header) if header else "~"
        b = "/".join(".".join("^" if c == ABSENT else hexcell(c) for c in r) if r else "~" for r in body) if body else "!"
        parts.append(f"{hexcell(name)}:{h}:{b}")
    return "|".join(parts)


def fds_on(path: Path) -> int:
    """open descriptors of this process that resolve to `path` (no garbage collection forced)"""
    n = 0
    target = os.path.realpath(path)
    for fd in os.listdir("/proc/self/fd"):
        try:
            if os.path.realpath(os.readlink(f"/proc/self/fd/{fd}")) == target:
                n += 1
        except OSError:
            pass
    return n
