"""
C06 -- OCCURS DEPENDING ON: each record is laid out by its own counter value.

Proof:           lean/Stingray/Props/C06.lean (walkM_eq, okM_of_encodes, odo_layout, odo_index_refused, rowsN_readback,
                 odo_file_readback) on top of C01 (env-indexed) and C05 (buffer invariant)
Tie:             correspondence: generated ODO copybooks x count vectors x record sequences x {RECFM N (default), V, VB}: the
                 real LocationMaker (instance-reading walk) and COBOL_EBCDIC_File.rows() vs Layout.walkM / rowsN / navRecord
Oracle:          records written with the spec encoders and the COBOL rule under each record's own counts, read back through
                 COBOL_EBCDIC_File(..., lrecl=1).sheet('').rows()
"""
from __future__ import annotations

import io
from typing import Any

from harness.c05 import show_recs, write_v, write_vb
from harness.common import Check, err_enum, hexs
from harness.gen_copybook import (Node, Style, TreeGen, clusters_ok, item_tokens, node_size, number_fillers, path_token, preorder, render,
                                  spec_layout)
from harness.layout_common import build_docs, impl_range, load, nav_path, pattern_record

CAP = 32768


def counters_of(root: Node) -> dict[str, Node]:
    used = {n.odo[2] for n in preorder(root) if n.odo}
    return {n.name: n for n in preorder(root) if n.name in used and not n.is_group}


def tables_of(root: Node) -> list[Node]:
    return [n for n in preorder(root) if n.odo]


def gen_env(rng, root: Node, mode: str) -> dict[str, int]:
    env: dict[str, int] = {}
    ranges: dict[str, tuple[int, int]] = {}
    for t in tables_of(root):
        lo, hi, c = t.odo  # type: ignore[misc]
        a, b = ranges.get(c, (0, 99))
        ranges[c] = (max(a, lo), min(b, hi))
    for c, (lo, hi) in ranges.items():
        if lo > hi:
            lo = hi
        env[c] = lo if mode == "min" else hi if mode == "max" else rng.randint(lo, hi)
    return env


def encode_counter(n: Node, v: int) -> bytes:
    if n.usage == "COMP":
        return v.to_bytes(n.width, "big")
    return bytes(0xF0 + int(ch) for ch in f"{v:0{n.width}d}")


def build_record(root: Node, env: dict[str, int], salt: int) -> bytes:
    spec = spec_layout(root, env)
    total = spec[()][1]
    rec = bytearray(pattern_record(total + salt)[salt:])
    for path, (s, e) in spec.items():
        if path and isinstance(path[-1], str) and path[-1] in env and not any(isinstance(x, int) for x in path):
            node = counters_of(root)[path[-1]]
            rec[s:e] = encode_counter(node, env[path[-1]])
    return bytes(rec)


def kinds_token(root: Node) -> str:
    cs = counters_of(root)
    return ",".join(f"{k}={'b' if n.usage == 'COMP' else 'z'}" for k, n in cs.items()) or "-"


def env_token(env: dict[str, int]) -> str:
    return ",".join(f"{k}={v}" for k, v in env.items()) or "-"


def one_tree(ck: Check, root: Node, reqs: list[str], impl: list[str], inputs: list[Any], big: bool) -> None:
    import stingray.estruct as E
    from stingray.schema_instance import EBCDIC
    from stingray.workbook import COBOL_EBCDIC_File

    rng = ck.rng
    text = render([root], Style(seq_numbers=rng.random() < 0.2))
    toks = " ".join(item_tokens(root))
    kinds = kinds_token(root)
    inp0 = {"copybook": text}
    try:
        schema = load(build_docs(text)[0])
    except BaseException as ex:  # noqa: BLE001
        ck.fail("odo-schema", f"copybook with DEPENDING ON cannot be loaded: {type(ex).__name__}: {str(ex)[:100]}", inp0)
        return
    envs = [gen_env(rng, root, m) for m in (["min", "max"] + ["rand"] * rng.randint(1, 4))]
    rng.shuffle(envs)
    recs = []
    for k, env in enumerate(envs):
        rec = build_record(root, env, salt=k * 3)
        recs.append(rec)
        spec = spec_layout(root, env)
        paths = list(spec)
        # index bound: at and beyond the count of every table
        bound_paths = []
        for p in paths:
            pass
        for t in tables_of(root):
            tp = next((p for p in paths if p and p[-1] == t.unique and not any(isinstance(x, int) for x in p)), None)
            if tp is not None:
                bound_paths += [tp + (env[t.odo[2]],), tp + (env[t.odo[2]] + 1,)]  # type: ignore[index]
        junk = pattern_record(rng.choice([0, 1, 7, 40]))
        inp = {**inp0, "counts": env, "record": rec.hex()}
        ck.case((toks, tuple(sorted(env.items()))), feature="record/" + ("zero-count" if 0 in env.values() else "counts"))
        try:
            nav = EBCDIC().nav(schema, rec + junk)
            ranges = [impl_range(nav, p) for p in paths + bound_paths]
            end = str(nav.location.end)
        except BaseException as ex:  # noqa: BLE001
            ck.fail("odo-layout", f"record with counts {env} cannot be navigated: {type(ex).__name__}: {str(ex)[:100]}", inp)
            continue
        ck.oracle_evaluations += len(paths) + len(bound_paths) + 1
        if end != str(len(rec)):
            ck.fail("odo-layout", f"row of {len(rec)} bytes (counts {env}) announces {end} bytes", inp)
        for p, r in zip(paths, ranges):
            want = f"{spec[p][0]}:{spec[p][1]}"
            if r != want:
                ck.fail("odo-layout", f"counts {env}: path {path_token(p)} is read from {r}, the rule assigns {want}", {**inp, "path": path_token(p)})
                break
        for p, r in zip(bound_paths, ranges[len(paths):]):
            if r != "none:IndexError":
                ck.fail("odo-index-bound", f"counts {env}: index path {path_token(p)} at/beyond the count gives {r}, not IndexError",
                        {**inp, "path": path_token(p)})
        # the value of a whole table is the list of its elements' values, for exactly `count` elements
        for t in tables_of(root):
            tp = next((p for p in paths if p and p[-1] == t.unique and not any(isinstance(x, int) for x in p)), None)
            if tp is None:
                continue
            try:
                whole = nav_path(nav, tp).value()
                parts = [nav_path(nav, tp + (i,)).value() for i in range(env[t.odo[2]])]  # type: ignore[index]
            except BaseException:  # noqa: BLE001
                continue            # pattern bytes under a numeric picture: nothing to compare
            ck.oracle_evaluations += 1
            if repr(whole) != repr(parts):
                ck.fail("odo-layout", f"counts {env}: value() of table {t.unique} is not the list of its {env[t.odo[2]]} elements' values",  # type: ignore[index]
                        {**inp, "path": path_token(tp)})
        if clusters_ok(root):
            reqs.append(f"LAY nav {env_token(env)} {';'.join(path_token(p) for p in paths + bound_paths)} {toks}")
            impl.append(" ".join(r if not r.startswith("none") else "none" for r in ranges))
            inputs.append({**inp, "what": "ranges"})
            reqs.append(f"LAY walk {kinds} {hexs(rec + junk)} {toks}")
            impl.append(end)
            inputs.append({**inp, "what": "announced length"})
    # ---- the same records as a file: N (no headers), V, VB
    if big:
        # pad the sequence so that it crosses the 32768-byte buffer several times
        while sum(map(len, recs)) < 3 * CAP and len(recs) < 4000:
            env = gen_env(rng, root, rng.choice(["min", "max", "rand"]))
            recs.append(build_record(root, env, salt=len(recs) % 50))
    recs = [r for r in recs if r]
    if not recs:
        return
    for recfm, data, cls in (("N", b"".join(recs), None), ("V", write_v(recs), E.RECFM_V),
                             ("VB", write_vb([recs[i:i + 3] for i in range(0, len(recs), 3)]), E.RECFM_VB)):
        if big and recfm != "N":
            continue
        inp = {**inp0, "recfm": recfm, "record_lengths": [len(r) for r in recs][:40]}
        ck.case((toks, recfm, len(recs)), feature=f"file/{recfm}" + ("/big" if big else ""))
        ck.oracle_evaluations += 1
        got: list[bytes] = []
        kept: list[Any] = []
        err = None
        try:
            wb = COBOL_EBCDIC_File("x.data", file_object=io.BytesIO(data), recfm_class=cls, lrecl=1)
            sheet = wb.sheet("").set_schema(schema)
            for row in sheet.rows():
                end = row.nav.location.end  # type: ignore[attr-defined]
                got.append(bytes(row.instance[:end]))
                kept.append(row)
                if len(got) > len(recs) + 5:
                    break
        except BaseException as ex:  # noqa: BLE001
            err = err_enum(ex)
        # rows that are KEPT (rows = list(sheet.rows())) and looked at after the whole file was read: each is still laid out by
        # its own counter values, including the items after a table that take part in a REDEFINES
        if not big and not err and got == recs and len(kept) == len(envs):
            for k, (row, env) in enumerate(zip(kept, envs)):
                spec_k = spec_layout(root, env)
                ck.oracle_evaluations += 1
                for p2, (s2, e2) in spec_k.items():
                    r2 = impl_range(row.nav, p2)
                    if r2 != f"{s2}:{e2}":
                        ck.fail("odo-layout", f"RECFM {recfm}: row {k} (counts {env}) looked at after the later rows were read: path "
                                              f"{path_token(p2)} is at {r2}, its own counts put it at {s2}:{e2}", {**inp, "row": k, "path": path_token(p2)})
                        break
        if err or got != recs:
            ck.fail("odo-file", f"RECFM {recfm}: {len(recs)} records written, read back {len(got)} "
                                f"(first difference at {next((i for i, (a, b) in enumerate(zip(got, recs)) if a != b), min(len(got), len(recs)))})"
                                + (f", {err}" if err else ""), inp)
        if recfm == "N" and clusters_ok(root):
            reqs.append(f"LAY rows {CAP} {kinds} {hexs(data)} {toks}")
            impl.append(show_recs(got) + (" error" if err else " ok"))
            inputs.append({**inp, "what": "rows of the RECFM N file"})


def wide_tree(rng) -> Node:
    """a table whose rows can be longer than half of the reader's 32768-byte buffer: 01 REC. 05 CT. 05 TBL OCCURS 0 TO n DEPENDING ON CT."""
    w = rng.choice([40, 64, 100, 250])
    hi = min(999, (CAP - 200) // w)
    binary = rng.random() < 0.5
    ct = Node(5, "CT", pic="9(4)" if binary else "9(3)", usage="COMP" if binary else None, width=2 if binary else 3)
    head = Node(5, "HEAD", pic=f"X({rng.randint(1, 30)})")
    head.width = int(head.pic[2:-1])  # type: ignore[index]
    cell_a = Node(10, "CELL-A", pic=f"X({w - 2})", width=w - 2)
    cell_b = Node(10, "CELL-B", pic="9(4)", usage="COMP", width=2)
    tbl = Node(5, "TBL", odo=(0, hi, "CT"), children=[cell_a, cell_b])
    tail = Node(5, "TAIL", pic="X(3)", width=3)
    root = Node(1, "WIDE-REC", children=[head, ct, tbl] + ([tail] if rng.random() < 0.5 else []))
    number_fillers(root)
    return root


def wide_file(ck: Check, root: Node, reqs: list[str], impl: list[str], inputs: list[Any]) -> None:
    """RECFM N files of rows whose lengths straddle every threshold of the buffer: tiny rows, rows of about half the buffer, rows just
    under the buffer, in orders that leave every amount of unread data in front of a long row"""
    from stingray.workbook import COBOL_EBCDIC_File

    rng = ck.rng
    text = render([root])
    toks = " ".join(item_tokens(root))
    kinds = kinds_token(root)
    schema = load(build_docs(text)[0])
    lo, hi, _ = tables_of(root)[0].odo  # type: ignore[misc]
    one = sum(c.width for c in tables_of(root)[0].children)
    half = (CAP // 2) // one
    shapes = [[2, hi, 1, hi, 0], [half, half + 1, 1], [half + 1, half + 1, half + 1, 3], [hi, hi, hi], [half - 1, half, half + 1, half + 2, hi],
              [rng.randint(0, hi) for _ in range(rng.randint(3, 8))], [rng.choice([0, 1, half, half + 1, hi]) for _ in range(rng.randint(3, 8))]]
    for counts in shapes:
        recs = [build_record(root, {"CT": c}, salt=k * 7) for k, c in enumerate(counts)]
        data = b"".join(recs)
        inp = {"copybook": text, "recfm": "N", "counts": counts, "record_lengths": [len(r) for r in recs]}
        ck.case((toks, "wide", tuple(counts)), feature="file/N/wide-rows")
        ck.oracle_evaluations += 1
        got: list[bytes] = []
        err = None
        try:
            wb = COBOL_EBCDIC_File("x.data", file_object=io.BytesIO(data), lrecl=1)
            for row in wb.sheet("").set_schema(schema).rows():
                got.append(bytes(row.instance[:row.nav.location.end]))  # type: ignore[attr-defined]
                if len(got) > len(recs) + 5:
                    break
        except BaseException as ex:  # noqa: BLE001
            err = err_enum(ex)
        if err or got != recs:
            ck.fail("odo-file", f"RECFM N, rows of {[len(r) for r in recs]} bytes: read back {[len(g) for g in got]}" + (f", {err}" if err else ""), inp)
        reqs.append(f"LAY rows {CAP} {kinds} {hexs(data)} {toks}")
        impl.append(show_recs(got) + (" error" if err else " ok"))
        inputs.append({**inp, "what": "rows of the RECFM N file"})
    # RECFM V carries each row's length in 16 bits: rows of more than 32764 bytes (length word >= 32768) between small ones
    import stingray.estruct as E
    big_tbl = Node(5, "TBL", odo=(0, 999, "CT"), children=[Node(10, "CELL", pic="X(60)", width=60)])
    big_root = Node(1, "LONG-REC", children=[Node(5, "CT", pic="9(3)", width=3), big_tbl, Node(5, "TAIL", pic="X(2)", width=2)])
    number_fillers(big_root)
    btext = render([big_root])
    bschema = load(build_docs(btext)[0])
    counts = [2, 546, 0, 547, 999, 1]          # 546 * 60 + 5 = 32765 bytes
    recs = [build_record(big_root, {"CT": c}, salt=k) for k, c in enumerate(counts)]
    ck.case(("wide-V", tuple(counts)), feature="file/V/rows-over-32764-bytes")
    ck.oracle_evaluations += 1
    got2: list[bytes] = []
    err2 = None
    try:
        wb = COBOL_EBCDIC_File("x.data", file_object=io.BytesIO(write_v(recs)), recfm_class=E.RECFM_V, lrecl=1)
        for row in wb.sheet("").set_schema(bschema).rows():
            got2.append(bytes(row.instance[:row.nav.location.end]))  # type: ignore[attr-defined]
            if len(got2) > len(recs) + 5:
                break
    except BaseException as ex:  # noqa: BLE001
        err2 = err_enum(ex)
    if err2 or got2 != recs:
        ck.fail("odo-file", f"RECFM V, rows of {[len(r) for r in recs]} bytes: read back {[len(g) for g in got2]}" + (f", {err2}" if err2 else ""),
                {"copybook": btext, "recfm": "V", "counts": counts})


def tiny_records(ck: Check) -> None:
    """the smallest rows there are: a one-byte counter followed by its table, so that a zero count is a record of ONE byte -- first,
    in the middle and last in a block (RECFM VB), alone in a block, and under V and N"""
    import stingray.estruct as E
    from stingray.workbook import COBOL_EBCDIC_File

    rng = ck.rng
    ct = Node(5, "CT", pic="9", width=1)
    tbl = Node(5, "TBL", pic="X(3)", width=3, odo=(0, 5, "CT"))
    root = Node(1, "TINY-REC", children=[ct, tbl])
    number_fillers(root)
    text = render([root])
    schema = load(build_docs(text)[0])
    shapes = [[[2, 0, 5, 0], [0, 3], [1], [4, 0, 0]], [[0]], [[0], [0], [1, 0]],
              [[rng.randint(0, 5) for _ in range(rng.randint(1, 4))] for _ in range(rng.randint(1, 4))]]
    for blocks in shapes:
        recs_b = [[build_record(root, {"CT": c}, salt=3 * k + j) for j, c in enumerate(b)] for k, b in enumerate(blocks)]
        recs = [r for b in recs_b for r in b]
        for recfm, data, cls in (("N", b"".join(recs), None), ("V", write_v(recs), E.RECFM_V), ("VB", write_vb(recs_b), E.RECFM_VB)):
            inp = {"copybook": text, "recfm": recfm, "counts_per_block": blocks}
            ck.case(("tiny", recfm, str(blocks)), feature=f"file/{recfm}/one-byte-records")
            ck.oracle_evaluations += 1
            got: list[bytes] = []
            err = None
            try:
                wb = COBOL_EBCDIC_File("x.data", file_object=io.BytesIO(data), recfm_class=cls, lrecl=1)
                for row in wb.sheet("").set_schema(schema).rows():
                    got.append(bytes(row.instance[:row.nav.location.end]))  # type: ignore[attr-defined]
                    if len(got) > len(recs) + 5:
                        break
            except BaseException as ex:  # noqa: BLE001
                err = err_enum(ex)
            if err or got != recs:
                ck.fail("odo-file", f"RECFM {recfm}: counts per block {blocks}: {len(recs)} records written, read back {len(got)}"
                                    + (f", {err}" if err else ""), inp)


def explore(ck: Check, n_trees: int, n_big: int) -> None:
    rng = ck.rng
    reqs: list[str] = []
    impl: list[str] = []
    inputs: list[Any] = []
    tiny_records(ck)
    for _ in range(max(2, n_big)):
        wide_file(ck, wide_tree(rng), reqs, impl, inputs)
    made = 0
    attempts = 0
    while made < n_trees and attempts < n_trees * 20:
        attempts += 1
        tg = TreeGen(rng, max_depth=rng.choice([2, 3]), max_width=rng.choice([3, 4, 5]), odo=True, occurs=rng.random() < 0.5,
                     redefines=rng.random() < 0.5)
        root = tg.record()
        if not tables_of(root):
            continue
        made += 1
        for f in tg.features:
            ck.histogram["tree/" + f] += 1
        if len(tables_of(root)) > 1:
            ck.histogram["tree/two-or-more-tables"] += 1
        one_tree(ck, root, reqs, impl, inputs, big=(made <= n_big))
        if made <= 2:
            ck.sample({"copybook": render([root]), "tables": [t.unique for t in tables_of(root)]})
    model = ck.driver.run(reqs)
    ck.compare_streams("LocationMaker/COBOL_EBCDIC_File vs Layout.navRecord/walkM/rowsN", inputs, impl, model)


def run(ck: Check) -> int:
    ck.rule = ("copybooks with one or more DEPENDING ON tables (elementary and group tables, zoned or binary counter anywhere before the table, "
               "tables in sibling groups, with fixed OCCURS and REDEFINES around them); for each, count vectors min / max / random; every "
               "path of every record navigated; the records of one copybook concatenated as RECFM N (some files crossing the 32768-byte "
               "buffer), V and VB; distinct by (tree, count vector) / (tree, recfm)")
    ck.trusted_extra = ["the counter field is decoded by the C02 decoders (zoned / binary); the driver's decode is their restriction to "
                        "non-negative integers", "as C01 and C05"]
    ck.assumptions = ["a DEPENDING ON table does not sit inside a repeated group (index() there is finding D17, see C10)",
                      "counter values lie within the declared minimum..maximum", "ODO sheets are opened with an explicit lrecl"]
    ck.prove(["Stingray.Props.C06", "Stingray.Tie.C01"])
    if ck.tier == "quick":
        explore(ck, 60, 3)
    else:
        explore(ck, 1500, 40)
    return ck.finish(search=lambda c: explore(c, 300, 10))


def replay(ck: Check, data: dict[str, Any]) -> int:
    return run(ck)
