"""
python -m harness.pins [repo]  -- (re)write lean/Stingray/Tie/Pinned.lean from the given tree.

Run BY HAND after a function whose behaviour is modelled by hand was edited and the model re-validated
(never by a check): the pinned texts are what the `Tie` theorems compare the working tree against.
"""
import re
import sys
from pathlib import Path

from harness import extract

PINS = [("C02", "unpackSrc"), ("C04", "textCalcsizeSrc"), ("C04", "ebcdicCalcsizeSrc"), ("C13", "decoderBody"),
        ("C13", "generatorBody"), ("C13", "parseSrc"), ("C11", "stateInventory"), ("C12", "referenceFormatSrc"),
        ("C12", "sentencePattern"), ("C12", "clausesPattern"), ("C12", "clauseDictSrc"), ("C09", "headerSrc"),
        ("C09", "wbnavNameSrc"), ("C09", "rowIterSrc"), ("C09", "externalLoadSrc"), ("C09", "rowValuesSrc"),
        ("C14", "registrySrc"), ("C14", "closeSrcs"), ("C15", "walkSchemaSrc"), ("C15", "resolveSrc"), ("C15", "dnavSrc"),
        ("C08", "jsonTypeSrc"), ("C01", "layoutSrc"), ("C01", "navSrc"), ("C01", "odoFileSrc"), ("C07", "structureSrc"),
        ("C07", "schemaMakerSrc"), ("C05", "recfmSrcs"), ("C04", "setSchemaSrc")]

HEADER = '''/-!
# Pinned sources

The reviewed text (normalised by `ast.unparse`, docstrings and logging removed) of the functions whose
behaviour is modelled by hand, and the reviewed inventory of process-wide state.  The `Tie` theorems state that
what is extracted from the working tree on this run is exactly this; when one no longer holds the model may no
longer describe the code, and the check starts its failing-input search.  Regenerated only by hand
(`python -m harness.pins <tree>`) after the model was re-validated against an edited function.
-/'''


def main() -> None:
    repo = Path(sys.argv[1] if len(sys.argv) > 1 else "/repo")
    verif = Path(__file__).resolve().parent.parent
    tmp = verif / "lean" / ".lake" / "pins_tmp"
    extract.main(repo, tmp)
    out = [HEADER, "namespace Stingray.Tie.Pinned"]
    for prop, name in PINS:
        f = tmp / f"{prop}.lean"
        if not f.exists():
            continue
        m = re.search(r"^def " + name + r" : ([^\n]*?) := (.*)$", f.read_text(), re.M)
        if m:
            out.append(f"def {name} : {m.group(1)} := {m.group(2)}")
    out.append("end Stingray.Tie.Pinned")
    (verif / "lean" / "Stingray" / "Tie" / "Pinned.lean").write_text("\n\n".join(out) + "\n")
    print("pinned", len(out) - 3, "items from", repo)


if __name__ == "__main__":
    main()
