"""
Copybook generator shared by C01, C06, C07, C08, C10, C11, C12.

Produces abstract DDE trees (`Node`), renders them to COBOL reference-format text under a style, converts them to
the model's cluster-structured `Item` term (line-protocol tokens), and computes the COBOL layout rule in Python
(`spec_layout`, the oracle twin of `specNav` in lean/Stingray/Props/C01.lean).
Every random choice comes from the rng passed in.
"""
from __future__ import annotations

from dataclasses import dataclass, field
from typing import Any, Iterator, Optional, Union


@dataclass
class Node:
    level: int
    name: Optional[str]                 # None = unnamed, "FILLER" = FILLER
    pic: Optional[str] = None           # None = group
    usage: Optional[str] = None
    occurs: Optional[int] = None        # fixed OCCURS n
    odo: Optional[tuple[int, int, str]] = None   # (lo, hi, counter name)
    redefines: Optional[str] = None
    children: list["Node"] = field(default_factory=list)
    extra: list[str] = field(default_factory=list)     # storage-irrelevant clauses (VALUE …)
    unique: str = ""                    # unique name as the library will assign it
    width: int = 0                      # elementary width by the COBOL storage rule

    @property
    def is_group(self) -> bool:
        return self.pic is None


# ------------------------------------------------------------------------------------------ pictures
def gen_elem_pic(rng, display_only: bool = False, allow_binary: bool = True) -> tuple[str, Optional[str], int]:
    """(picture, usage or None, width by the storage rule). Binary items are unsigned and V-less (C04 known findings)."""
    r = rng.random()
    if r < 0.40 or (display_only and r < 0.6):
        n = rng.choice([1, 2, 3, 4, 5, 8, 10, 12])
        return (f"X({n})" if rng.random() < 0.7 or n > 4 else "X" * n), None, n
    if r < 0.60 or display_only:
        m, k = rng.randint(1, 6), rng.choice([0, 0, 1, 2])
        s = rng.random() < 0.4
        if rng.random() < 0.12:
            # a pure fraction: no integer digit positions at all (PIC V99, PIC SV9(3))
            m, k = 0, rng.randint(1, 4)
            pic = ("S" if s else "") + "V" + (f"9({k})" if rng.random() < 0.4 else "9" * k)
            return pic, (None if rng.random() < 0.7 else "DISPLAY"), k + (1 if s else 0)
        pic = ("S" if s else "") + (f"9({m})" if rng.random() < 0.6 else "9" * m) + (f"V9({k})" if k else "")
        return pic, (None if rng.random() < 0.7 else "DISPLAY"), m + k + (1 if s else 0)
    if r < 0.85 or not allow_binary:
        m, k = rng.randint(1, 9), rng.choice([0, 0, 2, 3])
        s = rng.random() < 0.7
        pic = ("S" if s else "") + f"9({m})" + (f"V9({k})" if k else "")
        return pic, rng.choice(["COMP-3", "PACKED-DECIMAL", "COMPUTATIONAL-3"]), (m + k + 2) // 2
    m = rng.choice([1, 2, 4, 5, 8, 9, 10, 15, 18])
    return f"9({m})", rng.choice(["COMP", "BINARY", "COMP-4", "COMPUTATIONAL"]), (2 if m <= 4 else 4 if m <= 9 else 8)


# ------------------------------------------------------------------------------------------ trees
class TreeGen:
    def __init__(self, rng, *, max_depth: int = 3, max_width: int = 4, redefines: bool = True, occurs: bool = True,
                 odo: bool = False, fillers: bool = True, display_only: bool = False, level88: bool = False,
                 dup_names: bool = False, elem_occurs_redefines: bool = False, redefines_in_occurs: bool = False):
        self.rng = rng
        self.o = dict(max_depth=max_depth, max_width=max_width, redefines=redefines, occurs=occurs, odo=odo, fillers=fillers,
                      display_only=display_only, level88=level88, dup_names=dup_names,
                      elem_occurs_redefines=elem_occurs_redefines, redefines_in_occurs=redefines_in_occurs)
        self.counter = 0
        self.features: set[str] = set()
        self.counters_available: list[str] = []
        self.counter_digits: dict[str, int] = {}

    def fresh(self, prefix: str = "F") -> str:
        self.counter += 1
        # data names that merely contain or begin with reserved words are ordinary COBOL (COMPANY-NAME!)
        stem = self.rng.choice(["FLD", "ITEM", "REC", "AMT", "CODE", "COMP-TOTAL", "BINARY-FLAG", "DISPLAY-NM", "X", "Q",
                                "COMPANY", "DISPLAYED", "EXTERNAL-ID", "GLOBAL-CT", "FILLER-X", "VALUE", "TIMES"])
        return f"{stem}-{self.counter}"

    def record(self) -> Node:
        self.counter = 0
        self.counters_available = []
        root = Node(1, self.fresh(), children=[])
        root.children = self.members(5, 1, in_occurs=False)
        number_fillers(root)
        return root

    def elem(self, level: int) -> Node:
        pic, usage, width = gen_elem_pic(self.rng, self.o["display_only"])
        n = Node(level, self.fresh(), pic=pic, usage=usage, width=width)
        if self.o["fillers"] and self.rng.random() < 0.12:
            n.name = self.rng.choice(["FILLER", None])
            self.features.add("filler")
        return n

    def group(self, level: int, depth: int, in_occurs: bool) -> Node:
        g = Node(level, self.fresh())
        step = self.rng.choice([5, 5, 2, 1, 10])
        g.children = self.members(level + step, depth + 1, in_occurs)
        if self.o["fillers"] and self.rng.random() < 0.15:
            g.name = self.rng.choice(["FILLER", None])      # `05 FILLER.` heading a group (its members may redefine each other)
            self.features.add("filler-group")
        return g

    def member(self, level: int, depth: int, in_occurs: bool) -> Node:
        if depth < self.o["max_depth"] and self.rng.random() < 0.35:
            return self.group(level, depth, in_occurs)
        return self.elem(level)

    def members(self, level: int, depth: int, in_occurs: bool) -> list[Node]:
        rng, o = self.rng, self.o
        out: list[Node] = []
        for _ in range(rng.randint(1, o["max_width"])):
            snapshot = list(self.counters_available)
            base = self.member(level, depth, in_occurs)
            # OCCURS
            occ_here = False
            if o["occurs"] and rng.random() < 0.25:
                base.occurs = rng.randint(1, 4)
                occ_here = True
                self.features.add("occurs-group" if base.is_group else "occurs-elem")
                if base.is_group and in_occurs:
                    self.features.add("nested-occurs")
            elif (o["odo"] and snapshot and rng.random() < 0.5 and not in_occurs):
                ctr = rng.choice(snapshot)
                lo, hi = rng.choice([(0, 3), (1, 4), (0, 5), (2, 2), (1, 9)] + ([(10, 12)] if self.counter_digits.get(ctr, 1) >= 2 else []))
                base.odo = (lo, hi, ctr)
                occ_here = True
                self.features.add("odo-group" if base.is_group else "odo-elem")
            if base.is_group and occ_here:
                # regenerate children knowing they sit inside a repeated group
                self.counters_available = snapshot
                base.children = self.members(base.children[0].level if base.children else level + 5, depth + 1, True)
            out.append(base)
            if o["odo"] and not base.is_group and not occ_here and base.name not in (None, "FILLER") and not in_occurs \
                    and rng.random() < 0.6:
                # make it usable as a counter: small unsigned zoned or binary number
                if rng.random() < 0.7:
                    base.pic, base.usage, base.width = rng.choice([("9", None, 1), ("9(3)", None, 3), ("99", None, 2), ("9(2)", None, 2)])
                else:
                    base.pic, base.usage, base.width = "9(4)", "COMP", 2
                self.counters_available.append(base.name)  # type: ignore[arg-type]
                self.counter_digits[base.name] = 4 if base.usage == "COMP" else base.width  # type: ignore[index]
            # REDEFINES of the item just emitted
            may_redefine = (o["redefines"] and base.name not in (None, "FILLER") and not any(x.odo for x in preorder(base))
                            and (not in_occurs or o["redefines_in_occurs"])
                            and (base.is_group or base.occurs is None or o["elem_occurs_redefines"]))
            if may_redefine and rng.random() < 0.3:
                bsize = node_size(base, {})
                for _ in range(rng.randint(1, 2)):
                    red = self.redefiner(level, depth, bsize, in_occurs)
                    if red is not None:
                        red.redefines = base.name
                        if o["fillers"] and rng.random() < 0.25:
                            # the common idiom `05 FILLER REDEFINES ORDER-DATE.` (or no name at all)
                            red.name = rng.choice(["FILLER", None])
                            self.features.add("redefines-by-filler")
                        out.append(red)
                        self.features.add("redefines-group" if red.is_group else "redefines-elem")
                        if len(out) > 2:
                            self.features.add("redefines-not-first")
                        if in_occurs:
                            self.features.add("redefines-in-occurs")
        return out

    def redefiner(self, level: int, depth: int, bound: int, in_occurs: bool) -> Optional[Node]:
        rng = self.rng
        if bound <= 0:
            return None
        if depth < self.o["max_depth"] and bound >= 2 and rng.random() < 0.4:
            g = Node(level, self.fresh())
            left = bound
            kids = []
            while left > 0 and len(kids) < 3:
                w = rng.randint(1, left)
                kids.append(Node(level + 5, self.fresh(), pic=f"X({w})", width=w))
                left -= w
                if rng.random() < 0.4:
                    break
            g.children = kids
            return g
        w = rng.randint(1, bound)
        if self.o["elem_occurs_redefines"] and w >= 2 and rng.random() < 0.5:
            k = rng.choice([d for d in (2, 3, 4) if w // d >= 1] or [1])
            self.features.add("elem-occurs-redefiner")
            return Node(level, self.fresh(), pic=f"X({w // k})", width=w // k, occurs=k)
        return Node(level, self.fresh(), pic=f"X({w})", width=w)


def number_fillers(root: Node) -> None:
    """unique names as DDE.__init__ assigns them: FILLER-n numbered in source order within one 01 record."""
    count = 0
    for n in preorder(root):
        if n.name in (None, "FILLER"):
            count += 1
            n.unique = f"FILLER-{count}"
        else:
            n.unique = n.name  # type: ignore[assignment]


def preorder(n: Node) -> Iterator[Node]:
    yield n
    for c in n.children:
        yield from preorder(c)


# ------------------------------------------------------------------------------------------ the COBOL layout rule (oracle)
Env = dict[str, int]


def count_of(n: Node, env: Env) -> int:
    if n.occurs is not None:
        return n.occurs
    if n.odo is not None:
        return env[n.odo[2]]
    return 1


def single_size(n: Node, env: Env) -> int:
    if not n.is_group:
        return n.width
    return sum(node_size(c, env) for c in n.children if c.redefines is None)


def node_size(n: Node, env: Env) -> int:
    return single_size(n, env) * count_of(n, env)


Path = tuple[Union[str, int], ...]


def spec_layout(root: Node, env: Env) -> dict[Path, tuple[int, int]]:
    """Every navigation path (names and indices, as the library navigates) -> (start, end) by the COBOL rule:
    children end to end in declaration order, OCCURS n = n copies, a redefiner starts where its target starts."""
    out: dict[Path, tuple[int, int]] = {}

    def visit(n: Node, start: int, path: Path) -> None:
        out[path] = (start, start + node_size(n, env))
        rep = n.occurs is not None or n.odo is not None
        if rep:
            one = single_size(n, env)
            for i in range(count_of(n, env)):
                ipath = path + (i,)
                out[ipath] = (start + one * i, start + one * (i + 1))
                if n.is_group:
                    members(n, start + one * i, ipath)
                else:
                    out[ipath + (n.unique,)] = (start + one * i, start + one * (i + 1))
        elif n.is_group:
            members(n, start, path)

    def members(g: Node, start: int, path: Path) -> None:
        off = start
        base_start: dict[str, int] = {}
        for c in g.children:
            if c.redefines is not None:
                visit(c, base_start.get(c.redefines, off), path + (c.unique,))
            else:
                base_start[c.name or ""] = off
                visit(c, off, path + (c.unique,))
                off += node_size(c, env)

    visit(root, 0, ())
    return out


# ------------------------------------------------------------------------------------------ model term (line protocol)
def occ_token(n: Node) -> str:
    if n.occurs is not None:
        return f"f{n.occurs}"
    if n.odo is not None:
        return f"o{n.odo[2]}"
    return "-"


def item_tokens(n: Node) -> list[str]:
    """prefix form:  e <name> <occ> <size>   |   g <name> <occ> <nclusters> {c <nredefs> <base> <redef>*}"""
    if not n.is_group:
        return ["e", n.unique, occ_token(n), str(n.width)]
    clusters: list[list[Node]] = []
    for c in n.children:
        if c.redefines is not None and clusters:
            clusters[-1].append(c)
        else:
            clusters.append([c])
    toks = ["g", n.unique, occ_token(n), str(len(clusters))]
    for cl in clusters:
        toks += ["c", str(len(cl) - 1)]
        for m in cl:
            toks += item_tokens(m)
    return toks


def clusters_ok(n: Node) -> bool:
    """every redefiner directly follows its base or another redefiner of the same base"""
    last_base = None
    for c in n.children:
        if c.redefines is None:
            last_base = c.name
        elif c.redefines != last_base:
            return False
    return all(clusters_ok(c) for c in n.children if c.is_group)


def path_token(p: Path) -> str:
    return "/".join(("#" + str(s)) if isinstance(s, int) else s for s in p) or "."


# ------------------------------------------------------------------------------------------ rendering
@dataclass
class Style:
    seq_numbers: bool = False
    ident_area: bool = False
    comments: bool = False
    pic_word: str = "PIC"
    usage_word: bool = True
    trailing_newline: bool = True
    indent: bool = True


def clause_text(n: Node, st: Style) -> str:
    parts = [f"{n.level:02d}"]
    if n.name is not None:
        parts.append(n.name)
    if n.redefines:
        parts.append(f"REDEFINES {n.redefines}")
    if n.pic is not None:
        parts.append(f"{st.pic_word} {n.pic}")
    if n.usage:
        parts.append((f"USAGE {n.usage}") if st.usage_word else n.usage)
    if n.occurs is not None:
        parts.append(f"OCCURS {n.occurs} TIMES")
    if n.odo is not None:
        # (the optional words TIMES and ON are left out for some items; which, depends on the item only)
        times = "" if (n.level + len(n.odo[2])) % 4 == 0 else " TIMES"
        on = "" if (n.level + len(n.odo[2])) % 3 == 0 else " ON"
        lo = "" if (n.odo[0] == 0 and (n.level + len(n.odo[2])) % 2 == 1) else f"{n.odo[0]} TO "     # "0 TO" may be left out
        parts.append(f"OCCURS {lo}{n.odo[1]}{times} DEPENDING{on} {n.odo[2]}")
    parts += n.extra
    return " ".join(parts) + "."


def sentence_nodes(roots: list[Node], inject: Optional[dict[int, list[Node]]] = None) -> list[Node]:
    """all sentences of the copybook in source order, including injected 66/77/88 entries"""
    out: list[Node] = []
    inject = inject or {}
    for root in roots:
        for n in preorder(root):
            out.append(n)
            out += inject.get(id(n), [])
    return out


def entry_token(n: Node) -> str:
    """`lvl,name,redef,occ,size` for the model (Drv.Cpy.parseEntry)"""
    name = n.name if n.name not in (None, "FILLER") else "-"
    size = "-" if n.is_group else str(n.width)
    return f"{n.level},{name},{n.redefines or '-'},{occ_token(n)},{size}"


def render(roots: list[Node], st: Optional[Style] = None, inject: Optional[dict[int, list[Node]]] = None) -> str:
    st = st or Style()
    lines: list[str] = []
    seq = 100
    inject = inject or {}
    for root in roots:
        if st.comments:
            lines.append("      * generated record")
        for n in [m for x in preorder(root) for m in [x] + inject.get(id(x), [])]:
            depth = 0 if n.level == 1 else min(8, 1 + (n.level // 5))
            body = (" " * (4 * depth if st.indent else 0)) + clause_text(n, st)
            chunks = wrap(body, 64)   # never reach column 72: a full line glues to the next one (D11/D28, see C12)
            for ch in chunks:
                seq += 10
                lead = f"{seq:06d}" if st.seq_numbers else "      "
                line = lead + " " + ch
                if st.ident_area:
                    line = line.ljust(72) + "IDENT001"
                lines.append(line)
    text = "\n".join(lines)
    return text + ("\n" if st.trailing_newline else "")


def wrap(body: str, width: int) -> list[str]:
    """break an entry over several lines at blanks (never inside a word)"""
    if len(body) <= width:
        return [body]
    words = body.split(" ")
    lines, cur = [], ""
    for w in words:
        if cur and len(cur) + 1 + len(w) > width:
            lines.append(cur)
            cur = "    " + w
        else:
            cur = (cur + " " + w) if cur else w
    lines.append(cur)
    return lines
