"""Executes C11 operations against the real library, one JSON op per line in, one JSON result per line out.
Used twice: as the long-lived process that runs whole histories, and as a fresh process per reference probe."""
from __future__ import annotations

import copy
import gc
import io
import json
import os
import sys

repo = os.environ.get("STINGRAY_REPO", "/repo")
sys.path.insert(0, os.path.join(repo, "src"))

from harness.common import err_enum  # noqa: E402

KEEP: list = []          # rows / navigators kept alive on request
WATCH: list = []         # (json document, deep copy at creation, loaded schema, deep copy of schema.json())


def names_of(dde) -> list[str]:
    return [dde.unique_name] + [n for c in dde.children for n in names_of(c)]


def canon(doc) -> str:
    return json.dumps(doc, sort_keys=False, default=str)


def itertools_islice(it, n):
    import itertools
    return itertools.islice(it, n)


def do(op: dict) -> dict:
    import stingray.cobol_parser as CP
    import stingray.schema_instance as SI

    kind = op["op"]
    if kind == "parse":
        trees = CP.structure(CP.dde_sentences(CP.reference_format(io.StringIO(op["text"]))))
        docs = list(CP.schema_iter(io.StringIO(op["text"])))
        for d in docs:
            s = SI.SchemaMaker.from_json(d)
            WATCH.append((d, copy.deepcopy(d), s, copy.deepcopy(s.json())))
        return {"names": [n for t in trees for n in names_of(t)], "schemas": [canon(d) for d in docs]}
    if kind == "rebuild":
        # ONE parse; the JSON Schema is built from it several times (standard, extended vocabulary, standard again)
        trees = CP.structure(CP.dde_sentences(CP.reference_format(io.StringIO(op["text"]))))
        fresh = [canon(d) for d in CP.schema_iter(io.StringIO(op["text"]))]
        first = [canon(CP.JSONSchemaMaker().jsonschema(t)) for t in trees]
        ext = [canon(CP.JSONSchemaMakerExtendedVocabulary().jsonschema(t)) for t in trees]
        second = [canon(CP.JSONSchemaMaker().jsonschema(t)) for t in trees]
        ext2 = [canon(CP.JSONSchemaMakerExtendedVocabulary().jsonschema(t)) for t in trees]
        return {"fresh": fresh, "first": first, "second": second, "ext_same": ext == ext2}
    if kind == "mkStd":
        CP.JSONSchemaMaker()
        return {"unit": True}
    if kind == "mkExt":
        m = CP.JSONSchemaMakerExtendedVocabulary()
        if op.get("text"):
            trees = CP.structure(CP.dde_sentences(CP.reference_format(io.StringIO(op["text"]))))
            return {"unit": True, "ext_schema": [canon(m.jsonschema(t)) for t in trees]}
        return {"unit": True}
    if kind == "load":
        out = []
        for t in op["types"]:
            try:
                s = SI.SchemaMaker.from_json({"type": t, "title": "probe"})
                out.append(type(s).__name__ == "AtomicSchema")
            except BaseException as ex:  # noqa: BLE001
                out.append(False)
        return {"kinds": out}
    if kind == "read":
        docs = list(CP.schema_iter(io.StringIO(op["text"])))
        schema = SI.SchemaMaker.from_json(docs[0])
        WATCH.append((docs[0], copy.deepcopy(docs[0]), schema, copy.deepcopy(schema.json())))
        unp = SI.EBCDIC()
        res = []
        for rec_hex in op["records"]:
            nav = unp.nav(schema, bytes.fromhex(rec_hex))
            vals = {}
            for name in op["fields"]:
                try:
                    n = nav.name(name)
                    vals[name] = [n.location.start, n.location.end, repr(n.value())]
                except BaseException as ex:  # noqa: BLE001
                    vals[name] = err_enum(ex)
            res.append({"end": nav.location.end, "fields": vals})
            if op.get("keep"):
                KEEP.append((nav, dict(vals)))
        return {"rows": res}
    if kind == "makerreuse":
        # ONE LocationMaker object lays out several records (its anchors are never emptied); each record is also laid out by a
        # fresh maker.  Values are taken at once, before the next record is laid out.
        docs = list(CP.schema_iter(io.StringIO(op["text"])))
        schema = SI.SchemaMaker.from_json(docs[0])
        WATCH.append((docs[0], copy.deepcopy(docs[0]), schema, copy.deepcopy(schema.json())))
        unp = SI.EBCDIC()
        maker = SI.LocationMaker(unp, schema)
        res = {"reused": [], "fresh": []}
        for rec_hex in op["records"]:
            rec = bytes.fromhex(rec_hex)
            for how in ("reused", "fresh"):
                try:
                    loc = maker.from_instance(rec) if how == "reused" else SI.LocationMaker(unp, schema).from_instance(rec)
                    nav = SI.NDNav(unp, loc, rec)
                    vals = {}
                    for name in op["fields"]:
                        try:
                            n = nav.name(name)
                            vals[name] = [n.location.start, n.location.end, repr(n.value())]
                        except BaseException as ex:  # noqa: BLE001
                            vals[name] = err_enum(ex)
                    res[how].append({"end": loc.end, "fields": vals})
                except BaseException as ex:  # noqa: BLE001
                    res[how].append({"end": err_enum(ex), "fields": {}})
        return res
    if kind == "wbread":
        # workbook rows read through hand-written schemas: without "position" the listing order is the column order; a property may
        # be a $ref to an earlier anchored one; two schemas may share the very same column definition objects in another order
        doc = op["doc"]
        docs = [doc]
        if op.get("alias"):
            keys = list(doc["properties"])
            keys = keys[1:] + keys[:1]
            docs.append({"type": "object", "properties": {k: doc["properties"][k] for k in keys}})
        out = []
        for d in docs:
            schema = SI.SchemaMaker.from_json(d)
            WATCH.append((d, copy.deepcopy(d), schema, copy.deepcopy(schema.json())))
            unp = SI.WBUnpacker()
            for row, names in op["reads"]:
                nav = unp.nav(schema, row)
                vals = []
                for n in names:
                    try:
                        vals.append(repr(nav.name(n).value()))
                    except BaseException as ex:  # noqa: BLE001
                        vals.append(err_enum(ex))
                out.append({"listing": list(d["properties"]), "row": row, "names": names, "values": vals})
        return {"reads": out}
    if kind == "bigread":
        # one record read as the last of a long file (more than the reader's 32768-byte buffer) and read alone: what it yields does
        # not depend on how many bytes of other records were processed before it
        import stingray.workbook as WB
        docs = list(CP.schema_iter(io.StringIO(op["text"])))
        schema = SI.SchemaMaker.from_json(docs[0])
        out = {}
        for label, data in (("after", bytes.fromhex(op["before"]) + bytes.fromhex(op["probe"])), ("alone", bytes.fromhex(op["probe"]))):
            try:
                wb = WB.COBOL_EBCDIC_File("big.data", file_object=io.BytesIO(data), lrecl=1)
                sheet = wb.sheet("").set_schema(schema)
                last = None
                n = 0
                for row in sheet.rows():
                    last = {f: repr(row.name(f).value()) for f in op["fields"]}
                    last["end"] = row.nav.location.end
                    n += 1
                    if n > op.get("max_rows", 10 ** 9):
                        last = "does-not-end"
                        break
                out[label] = last
                out[label + "_rows"] = n
            except BaseException as ex:  # noqa: BLE001
                out[label] = err_enum(ex)
        return out
    if kind == "handread":
        # a hand-written schema for non-delimited data (an array sized by minItems alone, a leaf with an arbitrary conversion name)
        # read with the text reader or the EBCDIC reader
        doc = op["doc"]
        schema = SI.SchemaMaker.from_json(doc)
        WATCH.append((doc, copy.deepcopy(doc), schema, copy.deepcopy(schema.json())))
        if op["reader"] == "text":
            unp, inst = SI.TextUnpacker(), SI.TextInstance(op["text"])
        else:
            unp, inst = SI.EBCDIC(), SI.BytesInstance(op["text"].encode("cp037"))
        out = {}
        try:
            nav = unp.nav(schema, inst)
            for name in op["fields"]:
                try:
                    out[name] = repr(nav.name(name).value())
                except BaseException as ex:  # noqa: BLE001
                    out[name] = err_enum(ex)
            out["end"] = nav.location.end
        except BaseException as ex:  # noqa: BLE001
            out["nav"] = err_enum(ex)
        return out
    if kind == "hdrdet":
        # a header/detail file: the header row is read with the HDR schema and KEPT without being looked at, the sheet is then
        # bound to the DET schema for the remaining records, and only afterwards is the kept header row looked at
        import stingray.workbook as WB
        hdr = SI.SchemaMaker.from_json(list(CP.schema_iter(io.StringIO(op["hdr"])))[0])
        det = SI.SchemaMaker.from_json(list(CP.schema_iter(io.StringIO(op["det"])))[0])
        WATCH.append((hdr.json(), copy.deepcopy(hdr.json()), hdr, copy.deepcopy(hdr.json())))
        WATCH.append((det.json(), copy.deepcopy(det.json()), det, copy.deepcopy(det.json())))
        data = bytes.fromhex(op["data"])
        wb = WB.COBOL_EBCDIC_File("history.data", file_object=io.BytesIO(data))
        sheet = wb.sheet("")
        sheet.set_schema(hdr)
        rows = sheet.rows()
        header_row = next(rows)
        sheet.set_schema(det)
        out: dict = {}
        try:
            out["details"] = [[repr(r.name(f).value()) for f in op["det_fields"]] for r in rows]
        except BaseException as ex:  # noqa: BLE001
            out["details"] = err_enum(ex)
        try:
            out["header"] = [repr(header_row.name(f).value()) for f in op["hdr_fields"]]
        except BaseException as ex:  # noqa: BLE001
            out["header"] = err_enum(ex)
        if op.get("keep"):
            KEEP.append((header_row.nav, {}))
        return out
    if kind == "rebind":
        # one open EBCDIC file of fixed-length records (RECFM F, no explicit lrecl) bound first to one layout, then -- before any row is
        # taken -- to another of a different length; also through a second sheet of the same workbook
        import stingray.estruct as E
        import stingray.workbook as WB
        first = SI.SchemaMaker.from_json(list(CP.schema_iter(io.StringIO(op["first"])))[0])
        second = SI.SchemaMaker.from_json(list(CP.schema_iter(io.StringIO(op["second"])))[0])
        out3: dict = {}
        for how in ("same-sheet", "second-sheet"):
            try:
                wb = WB.COBOL_EBCDIC_File("history.data", file_object=io.BytesIO(bytes.fromhex(op["data"])), recfm_class=E.RECFM_F)
                sheet = wb.sheet("")
                sheet.set_schema(first)
                if how == "second-sheet":
                    sheet = wb.sheet("")
                sheet.set_schema(second)
                out3[how] = [[repr(r.name(f).value()) for f in op["fields"]] for r in itertools_islice(sheet.rows(), op["max_rows"])]
            except BaseException as ex:  # noqa: BLE001
                out3[how] = err_enum(ex)
        return out3
    if kind == "twofiles":
        # two EBCDIC files with different layouts, both open at once, read alternately: one row of A, one row of B, ...
        import itertools
        import stingray.workbook as WB
        sheets = []
        for f in op["files"]:
            sch = SI.SchemaMaker.from_json(list(CP.schema_iter(io.StringIO(f["copybook"])))[0])
            wb = WB.COBOL_EBCDIC_File("history.data", file_object=io.BytesIO(bytes.fromhex(f["data"])))
            sh = wb.sheet("")
            sh.set_schema(sch)
            sheets.append((wb, sh, sh.rows(), f["fields"]))
        out2: dict = {"rows": [[] for _ in sheets]}
        try:
            for k in range(op["max_rows"]):
                alive = False
                for j, (wb, sh, it, fields) in enumerate(sheets):
                    row = next(it, None)
                    if row is not None:
                        alive = True
                        out2["rows"][j].append([repr(row.name(f).value()) for f in fields])
                if not alive:
                    break
        except BaseException as ex:  # noqa: BLE001
            out2["error"] = err_enum(ex)
        return out2
    if kind == "drop":
        KEEP.clear()
        gc.collect()
        return {"unit": True}
    if kind == "check_immutable":
        bad = []
        for i, (d, d0, s, j0) in enumerate(WATCH):
            if d != d0:
                bad.append(f"document {i} changed")
            if s.json() != j0:
                bad.append(f"loaded schema {i} changed")
        # rows kept alive: what each yields now must be what it yielded when it was read
        for i, (nav, vals) in enumerate(KEEP):
            for name, was in vals.items():
                try:
                    n = nav.name(name)
                    now = [n.location.start, n.location.end, repr(n.value())]
                except BaseException as ex:  # noqa: BLE001
                    now = err_enum(ex)
                if now != was:
                    bad.append(f"kept row {i}: field {name} yielded {was} when read and {now} after later reads")
        return {"immutable": not bad, "detail": bad[:3], "watched": len(WATCH), "kept": len(KEEP)}
    raise ValueError(kind)


def main() -> None:
    for line in sys.stdin:
        line = line.strip()
        if not line:
            continue
        try:
            out = do(json.loads(line))
        except BaseException as ex:  # noqa: BLE001
            out = {"error": err_enum(ex), "msg": str(ex)[:200]}
        sys.stdout.write(json.dumps(out) + "\n")
        sys.stdout.flush()


if __name__ == "__main__":
    main()
