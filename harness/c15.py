"""
C15 -- JSON Schema is mirrored one-to-one; JSON instances navigate like plain indexing.

Proof:           lean/Stingray/Props/C15.lean (walk_mirror, walk_docOf, walk_cache, refs_resolve_unique, fixups_resolve_unique,
                 dangling_is_ValueError, dnav_is_indexing, name_on_nonobject, index_on_nonarray)
Tie:             pinned SchemaMaker.walk_schema / resolve / DNav sources (Tie/C15.lean) and correspondence: generated documents of the
                 supported grammar -> SchemaMaker.from_json -> canonical dump of the object graph (classes, order, resolved targets by
                 document path) vs Json.fromJson; DNav over conforming instances vs Json.dnav
Oracle:          the document itself (nesting, property order, kind by keywords), Schema.json() is the document, each $ref target is the
                 node bearing that $anchor, dangling references -> ValueError, DNav == plain indexing, TypeError on wrong step kind
"""
from __future__ import annotations

import copy
from typing import Any

from harness.common import Check, err_enum

ATOMIC = ["string", "integer", "number", "boolean", "null"]


class DocGen:
    def __init__(self, rng, max_depth: int, refs: bool, dangling: float, titles: float, title_clash: float) -> None:
        self.rng, self.max_depth, self.refs = rng, max_depth, refs
        self.dangling, self.titles, self.title_clash = dangling, titles, title_clash
        self.n = 0
        self.anchors: list[str] = []
        self.features: set[str] = set()

    def name(self) -> str:
        self.n += 1
        return f"N{self.n}"

    def gen(self, depth: int = 0) -> dict[str, Any]:
        rng = self.rng
        r = rng.random()
        d: dict[str, Any]
        if depth >= self.max_depth or r < 0.3:
            d = {"type": rng.choice(ATOMIC)}
        elif r < 0.5:
            d = {"type": "array", "items": self.gen(depth + 1)}
            if rng.random() < 0.5:
                d["maxItems"] = rng.randint(1, 3)
        elif r < 0.85:
            # (an object may have no properties at all: {"type": "object", "properties": {}})
            props = [(self.name().lower(), self.gen(depth + 1)) for _ in range(rng.choice([0, 1, 1, 2, 2, 3, 4]))]
            if not props:
                self.features.add("empty-object")
            # property names and $anchor names come from one pool in real documents: a property keyed by its own anchor (as the
            # COBOL generator writes them), or keyed by the anchor of a SIBLING
            anchored = [i for i, (_, v) in enumerate(props) if "$anchor" in v]
            if anchored and rng.random() < 0.35:
                i = rng.choice(anchored)
                if rng.random() < 0.5:
                    props[i] = (props[i][1]["$anchor"], props[i][1])
                    self.features.add("key-equals-own-anchor")
                elif len(props) > 1:
                    j = rng.choice([k for k in range(len(props)) if k != i])
                    props[j] = (props[i][1]["$anchor"], props[j][1])
                    self.features.add("key-equals-sibling-anchor")
            d = {"type": "object", "properties": dict(props)}
            if not props and rng.random() < 0.5:
                d = {"type": "object"}           # the keyword itself is optional
                self.features.add("object-without-properties-keyword")
        else:
            d = {"oneOf": [self.gen(depth + 1) for _ in range(rng.randint(1, 3))]}
            self.features.add("oneOf")
        if rng.random() < 0.6:
            a = self.name()
            d["$anchor"] = a
            self.anchors.append(a)
        if rng.random() < self.titles:
            d["title"] = d.get("$anchor") or self.name()
        return d

    def add_refs(self, doc: dict[str, Any]) -> None:
        """replace some leaves by $ref nodes pointing at anchors defined before or after them; inject dangling ones"""
        rng = self.rng
        nodes: list[dict[str, Any]] = []
        collect(doc, nodes)
        leaves = [n for n in nodes if n.get("type") in ATOMIC and "$anchor" not in n and n is not doc]
        rng.shuffle(leaves)
        for leaf in leaves[: max(1, len(leaves) // 3)]:
            if not self.anchors:
                break
            if rng.random() < self.dangling:
                target = "NOWHERE"
                self.features.add("dangling")
                if rng.random() < 0.5:
                    leaf_title = target      # the node's own title equals the dangling name (D40)
                    self.features.add("dangling-self-titled")
                else:
                    leaf_title = None
            else:
                target = rng.choice(self.anchors)
                leaf_title = target if rng.random() < 0.3 else None      # the COBOL generator's place-holders look like this
                self.features.add("ref")
            leaf.clear()
            leaf["$ref"] = "#" + target
            if leaf_title:
                leaf["title"] = leaf_title
        # chains: a reference that bears an anchor of its own, and a further reference (before or after it) to that anchor
        refd = [n for n in nodes if "$ref" in n and n["$ref"] != "#NOWHERE" and "$anchor" not in n]
        spare = [n for n in leaves[max(1, len(leaves) // 3):] if "$ref" not in n]
        if refd and spare and rng.random() < 0.5:
            link = rng.choice(refd)
            cname = f"CHAIN{len(self.anchors)}"
            link["$anchor"] = cname
            self.anchors.append(cname)
            for leaf in spare[: rng.choice([1, 1, 2])]:
                leaf.clear()
                leaf["$ref"] = "#" + cname
            self.features.add("ref-chain")
        if rng.random() < self.title_clash and self.anchors:
            # an un-anchored node whose *title* equals another node's anchor
            cands = [n for n in nodes if "$anchor" not in n and "$ref" not in n and n is not doc]
            if cands:
                rng.choice(cands)["title"] = rng.choice(self.anchors)
                self.features.add("title-equals-foreign-anchor")


def collect(d: dict[str, Any], out: list[dict[str, Any]]) -> None:
    out.append(d)
    for a in d.get("oneOf", []):
        collect(a, out)
    if isinstance(d.get("items"), dict):
        collect(d["items"], out)
    for v in d.get("properties", {}).values():
        collect(v, out)


def tok(x: Any) -> str:
    return "~" if x is None else str(x)


def doc_tokens(d: dict[str, Any]) -> list[str]:
    one = d.get("oneOf", []) or []
    items = [d["items"]] if isinstance(d.get("items"), dict) else []
    props = list(d.get("properties", {}).items())
    dep = d.get("maxItemsDependsOn", {}).get("$ref") if isinstance(d.get("maxItemsDependsOn"), dict) else None
    out = ["N", tok(d.get("$anchor")), tok(d.get("title")), tok(d.get("type")), tok(d.get("$ref")), tok(dep),
           "1" if "items" in d else "0", "1" if "properties" in d else "0", str(len(one)), str(len(items)), str(len(props))]
    for x in one:
        out += doc_tokens(x)
    for x in items:
        out += doc_tokens(x)
    for k, v in props:
        out += [k] + doc_tokens(v)
    return out


def paths_of(schema: Any) -> dict[int, str]:
    ids: dict[int, str] = {}

    def walk(s: Any, p: list[int]) -> None:
        ids[id(s)] = ".".join(map(str, p)) or "."
        cls = type(s).__name__
        if cls == "OneOfSchema":
            for i, a in enumerate(s.alternatives):
                walk(a, p + [i])
        elif cls in ("ArraySchema", "DependsOnArraySchema"):
            walk(s.items, p + [0])
        elif cls == "ObjectSchema":
            for i, v in enumerate(s.properties.values()):
                walk(v, p + [i])

    walk(schema, [])
    return ids


def dump_schema(s: Any, ids: dict[int, str], fix: list[str], p: list[int]) -> str:
    cls = type(s).__name__
    if cls == "AtomicSchema":
        return "Atomic"
    if cls in ("ArraySchema", "DependsOnArraySchema"):
        dep = ""
        if cls == "DependsOnArraySchema":
            dep = f"(dep {s.max_ref[1:]}->{ids.get(id(s.max_ref_to), '?')})"
        return f"Array{dep}<{dump_schema(s.items, ids, fix, p + [0])}>"
    if cls == "ObjectSchema":
        return "Object{" + ",".join(f"{k}={dump_schema(v, ids, fix, p + [i])}" for i, (k, v) in enumerate(s.properties.items())) + "}"
    if cls == "OneOfSchema":
        return "OneOf[" + ",".join(dump_schema(a, ids, fix, p + [i]) for i, a in enumerate(s.alternatives)) + "]"
    if cls == "RefToSchema":
        return f"Ref({s.ref[1:]}->{ids.get(id(s.ref_to), '?')})"
    return cls


def impl_load(doc: dict[str, Any]) -> tuple[str, Any]:
    """dump in the model's syntax: refs resolved while walking show their target, fixed-up ones show `?` + a fix list"""
    from stingray.schema_instance import SchemaMaker

    try:
        sm = SchemaMaker()
        schema = sm.walk_schema(copy.deepcopy(doc))
        ids = paths_of(schema)
        fixups = list(sm.fixup_list)
        pre = {id(f) for f in fixups}

        def dump(s: Any, p: list[int]) -> str:
            cls = type(s).__name__
            if cls == "RefToSchema" and id(s) in pre:
                return f"Ref({s.ref[1:]}->?)"
            if cls == "AtomicSchema":
                return "Atomic"
            if cls in ("ArraySchema", "DependsOnArraySchema"):
                dep = f"(dep {s.max_ref[1:]}->{ids.get(id(s.max_ref_to), '?')})" if cls == "DependsOnArraySchema" else ""
                return f"Array{dep}<{dump(s.items, p + [0])}>"
            if cls == "ObjectSchema":
                return "Object{" + ",".join(f"{k}={dump(v, p + [i])}" for i, (k, v) in enumerate(s.properties.items())) + "}"
            if cls == "OneOfSchema":
                return "OneOf[" + ",".join(dump(a, p + [i]) for i, a in enumerate(s.alternatives)) + "]"
            return f"Ref({s.ref[1:]}->{ids.get(id(s.ref_to), '?')})"

        text = dump(schema, [])
        sm.resolve(schema)
        fix = ",".join(f"{ids[id(f)]}->{ids.get(id(f.ref_to), '?')}" for f in fixups) or "-"
        return f"{text} fix:{fix}", schema
    except BaseException as ex:  # noqa: BLE001
        return err_enum(ex), None


def conforming(rng, d: dict[str, Any], anchors: dict[str, dict[str, Any]], depth: int = 0) -> Any:
    if "$ref" in d:
        t = anchors.get(d["$ref"][1:])
        return conforming(rng, t, anchors, depth + 1) if t is not None and depth < 6 else "dangling"
    if d.get("oneOf"):
        return conforming(rng, d["oneOf"][0], anchors, depth + 1)
    t = d.get("type")
    if t == "object":
        return {k: conforming(rng, v, anchors, depth + 1) for k, v in d.get("properties", {}).items()}
    if t == "array":
        return [conforming(rng, d["items"], anchors, depth + 1) for _ in range(rng.randint(0, 3))]
    return {"string": "s" + str(rng.randint(0, 99)), "integer": rng.randint(0, 99), "number": 1.5, "boolean": True, "null": None}[t]


def val_tokens(v: Any) -> list[str]:
    if isinstance(v, dict):
        out = ["o", str(len(v))]
        for k, x in v.items():
            out += [k] + val_tokens(x)
        return out
    if isinstance(v, list):
        out = ["l", str(len(v))]
        for x in v:
            out += val_tokens(x)
        return out
    return ["a" + show_val(v)]


def show_val(v: Any) -> str:
    if isinstance(v, dict):
        return "{" + ",".join(f"{k}:{show_val(x)}" for k, x in v.items()) + "}"
    if isinstance(v, list):
        return "[" + ",".join(show_val(x) for x in v) + "]"
    return repr(v).replace(" ", "_")


def all_paths(v: Any, d: dict[str, Any], anchors: dict[str, dict[str, Any]], depth: int = 0) -> list[tuple]:
    """paths that make sense for the schema (every step has a property / items), incl. one past the end of arrays"""
    out: list[tuple] = [()]
    while "$ref" in d and depth < 6:
        t = anchors.get(d["$ref"][1:])
        if t is None:
            return out
        d = t
        depth += 1
    if d.get("type") == "object" and isinstance(v, dict) and not d.get("oneOf"):
        for k, sub in d.get("properties", {}).items():
            if k in v:
                out += [(k,) + p for p in all_paths(v[k], sub, anchors, depth + 1)]
    if d.get("type") == "array" and isinstance(v, list) and not d.get("oneOf"):
        for i, x in enumerate(v):
            out += [(i,) + p for p in all_paths(x, d["items"], anchors, depth + 1)]
        out.append((len(v),))
    return out


def explore(ck: Check, n_docs: int) -> None:
    from stingray.schema_instance import Delimited

    rng = ck.rng
    reqs: list[str] = []
    impl: list[str] = []
    inputs: list[Any] = []
    for i in range(n_docs):
        g = DocGen(rng, max_depth=rng.choice([2, 3, 4]), refs=True, dangling=0.15, titles=0.4, title_clash=0.1)
        doc = g.gen()
        if doc.get("type") in ATOMIC:
            continue
        g.add_refs(doc)
        if i % 5 == 0 and doc.get("type") == "object" and "oneOf" not in doc:
            # forward and backward references to an object WITHOUT properties
            a = g.name()
            props = dict(doc.get("properties", {}))
            doc["properties"] = {f"fwd{a.lower()}": {"$ref": "#" + a}, **props,
                                 f"e{a.lower()}": {"type": "object", "properties": {}, "$anchor": a},
                                 f"bwd{a.lower()}": {"$ref": "#" + a}}
            g.features.add("refs-to-empty-object")
        for f in g.features:
            ck.histogram["doc/" + f] += 1
        ck.case(str(doc), feature="document")
        before = copy.deepcopy(doc)
        out, schema = impl_load(doc)
        reqs.append("JSN load " + " ".join(doc_tokens(doc)))
        impl.append(out)
        inp = {"document": doc}
        inputs.append(inp)
        ck.oracle_evaluations += 1
        nodes: list[dict[str, Any]] = []
        collect(doc, nodes)
        anchors = {}
        for n in nodes:
            if "$anchor" in n:
                anchors.setdefault(n["$anchor"], n)
        dangling = [n["$ref"] for n in nodes if "$ref" in n and n["$ref"][1:] not in anchors]
        clash = "title-equals-foreign-anchor" in g.features
        # ---- oracle
        if dangling:
            if out != "ValueError":
                sig = "dangling-ref-self-titled" if any(n.get("title") == n["$ref"][1:] for n in nodes if "$ref" in n and n["$ref"][1:] not in anchors) \
                    else "dangling-ref-accepted"
                ck.fail(sig, f"a $ref to a name no node bears ({dangling[0]}) is not reported as ValueError but {out[:60]}", inp)
            continue
        if schema is None:
            ck.fail("load-fails", f"a document of the supported grammar does not load: {out}", inp)
            continue
        # mirror: same nesting, order and kinds; json() gives the document back; every ref -> the node bearing the anchor
        def mirror(s: Any, d: dict[str, Any]) -> str | None:
            cls = type(s).__name__
            want = ("OneOfSchema" if d.get("oneOf") else "RefToSchema" if "$ref" in d else "AtomicSchema" if d.get("type") in ATOMIC
                    else "ArraySchema" if d.get("type") == "array" else "ObjectSchema")
            if cls != want:
                return f"{cls} for a document node that the keywords make a {want}"
            if s.json() != d:
                return "json() is not the original document"
            if cls == "OneOfSchema":
                if len(s.alternatives) != len(d["oneOf"]):
                    return "oneOf alternatives lost"
                for a, x in zip(s.alternatives, d["oneOf"]):
                    if (m := mirror(a, x)):
                        return m
            if cls == "ArraySchema":
                return mirror(s.items, d["items"])
            if cls == "ObjectSchema":
                if list(s.properties) != list(d.get("properties", {})):
                    return "property order differs"
                for k in d.get("properties", {}):
                    if (m := mirror(s.properties[k], d["properties"][k])):
                        return m
            if cls == "RefToSchema":
                t = s.ref_to
                if t is None or t.json() is not anchors[d["$ref"][1:]] and t.json() != anchors[d["$ref"][1:]]:
                    return f"$ref {d['$ref']} does not resolve to the node bearing that $anchor"
                if t._attributes.get("$anchor") != d["$ref"][1:]:
                    return f"$ref {d['$ref']} resolves to a node that does not bear that $anchor"
                # the reference BEHAVES as that sub-schema: its type, attributes, properties / items are the target's
                try:
                    tt = t
                    hops = 0
                    while type(tt).__name__ == "RefToSchema" and hops < 6:
                        tt, hops = tt.ref_to, hops + 1
                    if s.type != tt.type or s.attributes != tt.attributes:
                        return f"$ref {d['$ref']}: type / attributes of the reference differ from those of its target"
                    if type(tt).__name__ == "ObjectSchema" and list(s.properties) != list(tt.properties):
                        return f"$ref {d['$ref']}: properties of the reference differ from those of its target"
                    if type(tt).__name__ == "ArraySchema" and s.items is not tt.items:
                        return f"$ref {d['$ref']}: items of the reference are not those of its target"
                except BaseException as ex:  # noqa: BLE001
                    return f"$ref {d['$ref']}: dereferencing the resolved reference raises {err_enum(ex)}"
            return None

        m = mirror(schema, doc)
        if not m:
            # the public entry point (SchemaMaker.from_json) gives the same mirror of the document
            try:
                from stingray.schema_instance import SchemaMaker
                m = mirror(SchemaMaker.from_json(doc), doc)
            except BaseException as ex:  # noqa: BLE001
                m = f"SchemaMaker.from_json raises {err_enum(ex)}"
        if m:
            ck.fail("title-shadows-anchor" if (clash and "$anchor" in m) else "mirror", m, inp)
        if clash and m:
            continue     # navigation through a mis-resolved reference is the same known finding
        if doc != before:
            ck.fail("document-mutated", "loading changed the document", inp)
        # ---- the same content with every object's properties listed in the reverse order, loaded AFTERWARDS in the same process:
        # a document in its own right -- its order, its own objects given back by json()
        if not m and i % 2 == 0:
            def reorder(d: Any) -> Any:
                if isinstance(d, dict):
                    out_ = {k: reorder(v) for k, v in d.items()}
                    if isinstance(out_.get("properties"), dict):
                        out_["properties"] = dict(reversed(list(out_["properties"].items())))
                    return out_
                if isinstance(d, list):
                    return [reorder(x) for x in d]
                return d
            doc2 = reorder(doc)
            if any(isinstance(n.get("properties"), dict) and len(n["properties"]) > 1 for n in nodes):
                ck.oracle_evaluations += 1
                try:
                    from stingray.schema_instance import SchemaMaker
                    SchemaMaker.from_json(doc)        # the public entry point, first document first
                    out2, schema2 = "ok", SchemaMaker.from_json(doc2)
                except BaseException as ex:  # noqa: BLE001
                    out2, schema2 = err_enum(ex), None
                nodes2: list[dict[str, Any]] = []
                collect(doc2, nodes2)
                saved, anchors = anchors, {}
                for n in nodes2:
                    if "$anchor" in n:
                        anchors.setdefault(n["$anchor"], n)
                try:
                    if schema2 is None:
                        ck.fail("load-fails", f"the same document with its properties listed in reverse order does not load: {out2}", {"document": doc2})
                    else:
                        m2 = mirror(schema2, doc2)
                        if m2 and not clash:
                            ck.fail("mirror", f"the same content with its properties in reverse order, loaded after the first document: {m2}",
                                    {"document": doc2, "loaded_before": doc})
                finally:
                    anchors = saved
        # ---- DNav vs plain indexing
        inst = conforming(rng, doc, anchors)
        unp = Delimited()
        nav = unp.nav(schema, inst)
        for p in all_paths(inst, doc, anchors)[:25]:
            ck.oracle_evaluations += 1
            try:
                want_v: Any = inst
                for st in p:
                    want_v = want_v[st]
                want = show_val(want_v)
            except BaseException as ex:  # noqa: BLE001
                want = err_enum(ex)
            try:
                n = nav
                for st in p:
                    n = n.index(st) if isinstance(st, int) else n.name(st)
                got = show_val(n.value())
            except BaseException as ex:  # noqa: BLE001
                got = err_enum(ex)
            ptxt = "/".join(("#" + str(s)) if isinstance(s, int) else s for s in p) or "."
            if got != want:
                ck.fail("dnav-differs-from-indexing", f"path {ptxt}: DNav gives {got[:60]}, indexing gives {want[:60]}", {**inp, "instance": inst})
            reqs.append("JSN nav " + ptxt + " " + " ".join(doc_tokens(doc)) + " | " + " ".join(val_tokens(inst)))
            impl.append(got)
            inputs.append({**inp, "instance": inst, "path": ptxt})
        # wrong step kind at ANY node reached (also through references): TypeError; a name the object does not have: KeyError
        def node_at(path: tuple) -> dict[str, Any]:
            d2: dict[str, Any] = doc
            for st in path:
                hops2 = 0
                while "$ref" in d2 and hops2 < 6:
                    d2, hops2 = anchors[d2["$ref"][1:]], hops2 + 1
                if d2.get("oneOf"):
                    d2 = d2["oneOf"][0]
                    hops2 = 0
                    while "$ref" in d2 and hops2 < 6:
                        d2, hops2 = anchors[d2["$ref"][1:]], hops2 + 1
                d2 = d2["items"] if isinstance(st, int) else d2.get("properties", {})[st]
            hops2 = 0
            while "$ref" in d2 and hops2 < 6:
                d2, hops2 = anchors[d2["$ref"][1:]], hops2 + 1
            return d2

        for p in all_paths(inst, doc, anchors)[:12]:
            try:
                tgt = node_at(p)
                n = nav
                for st in p:
                    n = n.index(st) if isinstance(st, int) else n.name(st)
            except BaseException:  # noqa: BLE001
                continue
            if tgt.get("oneOf"):
                continue
            ck.oracle_evaluations += 1
            for kind in ("index", "name"):
                try:
                    (n.index(0) if kind == "index" else n.name("no-such-name"))
                    got = "accepted"
                except BaseException as ex:  # noqa: BLE001
                    got = err_enum(ex)
                ptxt = "/".join(("#" + str(s)) if isinstance(s, int) else s for s in p) or "."
                if kind == "index" and tgt.get("type") != "array" and got != "TypeError":
                    ck.fail("wrong-step-kind", f"path {ptxt}: index on a non-array schema gives {got}, not TypeError", {**inp, "instance": inst})
                if kind == "name" and tgt.get("type") != "object" and got != "TypeError":
                    ck.fail("wrong-step-kind", f"path {ptxt}: name on a non-object schema gives {got}, not TypeError", {**inp, "instance": inst})
                if kind == "name" and tgt.get("type") == "object" and got != "KeyError":
                    ck.fail("wrong-step-kind", f"path {ptxt}: a name the object does not have gives {got}, plain indexing gives KeyError",
                            {**inp, "instance": inst})
        for p, kind in (((0,), "index"), (("zz",), "name")):
            try:
                (nav.index(0) if kind == "index" else nav.name("zz"))
                got = "accepted"
            except BaseException as ex:  # noqa: BLE001
                got = err_enum(ex)
            top = doc
            hops = 0
            while "$ref" in top and hops < 6:
                top = anchors[top["$ref"][1:]]
                hops += 1
            is_obj = top.get("type") == "object" and not top.get("oneOf")
            is_arr = top.get("type") == "array" and not top.get("oneOf")
            if kind == "index" and not is_arr and got != "TypeError":
                ck.fail("wrong-step-kind", f"index on a non-array schema gives {got}, not TypeError", inp)
            if kind == "name" and not is_obj and got != "TypeError":
                ck.fail("wrong-step-kind", f"name on a non-object schema gives {got}, not TypeError", inp)
        if i < 2:
            ck.sample({"document": doc, "loaded": out})
    model = ck.driver.run(reqs)
    ck.compare_streams("SchemaMaker.from_json / DNav vs Json.fromJson / Json.dnav", inputs, impl, model)


def run(ck: Check) -> int:
    ck.rule = ("documents generated from the supported grammar (every sub-schema carries type, oneOf or $ref; arrays carry items; depth <= 4; "
               "$anchor on ~60% of the nodes, titles on ~40%; a third of the leaves replaced by $ref to anchors placed before or after; dangling "
               "references and title/anchor clashes injected), each loaded, dumped as an object graph and navigated with DNav along every path "
               "of a conforming instance plus out-of-range and wrong-kind steps; distinct by document")
    ck.trusted_extra = ["object identity of loaded nodes is modelled by document paths", "Python dict order = list order"]
    ck.assumptions = ["names ($anchor / titles of un-anchored nodes) are unique for the resolution theorem"]
    ck.prove(["Stingray.Props.C15", "Stingray.Tie.C15"])
    explore(ck, 250 if ck.tier == "quick" else 6000)
    return ck.finish(search=lambda c: explore(c, 1200))


def replay(ck: Check, data: dict[str, Any]) -> int:
    inp = data.get("input", {})
    if "document" in inp:
        print(impl_load(inp["document"])[0])
    return run(ck)
