"""
C16 -- conversion helpers restore exactly what the spreadsheet mangled.

Proof:           lean/Stingray/Props/C16.lean (digit_string_exact, places_scale, places_half_ulp, places_idempotent,
                 places_ok_of_small, conversion_types)
Tie:             lean/Stingray/Tie/C16.lean (pinned sources of the two one-liners; CONVERSION table extracted and proved equal)
Correspondence:  schema_instance.digit_string / decimal_places / CONVERSION vs the Lean model; exhaustive n<=4 x 3 representations
Oracle:          digits/length/value; exponent, half-ulp bound in exact rational arithmetic, idempotence; result types
"""
from __future__ import annotations

from decimal import Decimal, InvalidOperation
from fractions import Fraction
from typing import Any

from harness.common import Check, err_enum


def reps(v: int) -> list[tuple[str, Any]]:
    out: list[tuple[str, Any]] = [("int", v), ("Decimal", Decimal(v))]
    if int(float(v)) == v:
        out.append(("float", float(v)))
    return out


def cobol_reads(rng) -> None:
    """what a client does between two conversions: decode a few mainframe fields (packed, zoned, binary; small and wide pictures).
    The conversions are functions of their arguments only, so nothing read here may change what they return afterwards."""
    import stingray.estruct as E

    for _ in range(rng.randint(1, 3)):
        m = rng.choice([1, 2, 3, 5, 9])
        k = rng.choice([0, 0, 2])
        nib = [rng.randrange(10) for _ in range(m + k)]
        if (m + k) % 2 == 0:
            nib = [0] + nib
        nib.append(rng.choice([0xC, 0xD, 0xF]))
        buf = bytes(nib[i] * 16 + nib[i + 1] for i in range(0, len(nib), 2))
        pic = f"S9({m})" + (f"V9({k})" if k else "")
        try:
            E.unpack(f"USAGE COMP-3 PIC {pic}", buf)
            E.unpack(f"USAGE DISPLAY PIC 9({m})", bytes(0xF0 + d for d in nib[-m - 1:-1]))
            E.unpack("USAGE COMP PIC 9(4)", bytes([rng.randrange(256), rng.randrange(256)]))
        except ValueError:
            pass


def explore(ck: Check, exhaustive_n: int, n_random: int) -> None:
    import stingray.schema_instance as SI

    rng = ck.rng
    cobol_reads(rng)
    ck.histogram["history/cobol-reads-before-conversions"] += 1
    # ---- digit_string
    cases: list[tuple[int, int]] = []
    for n in range(1, exhaustive_n + 1):
        cases += [(n, v) for v in range(10 ** n)]
    ck.exhaustive_parts.append(f"digit_string: all (n, v) with n <= {exhaustive_n}, 0 <= v < 10^n, in int / integral float / Decimal form")
    for n in range(1, 21):
        for v in (0, 1, 9, 10 ** (n - 1), 10 ** n - 1, 10 ** n // 2, 1020 % 10 ** n):
            cases.append((n, v))
    for _ in range(n_random):
        n = rng.randint(5, 20)
        cases.append((n, rng.randrange(10 ** rng.randint(1, n))))
    reqs = [f"C16 digits {n} {v}" for n, v in cases]
    model = ck.driver.run(reqs)
    for (n, v), m in zip(cases, model):
        for kind, val in reps(v):
            ck.case(("digits", n, v, kind), nontrivial=v > 0, feature=f"digits/{kind}")
            ck.oracle_evaluations += 1
            try:
                r = SI.digit_string(n, val)
            except BaseException as ex:  # noqa: BLE001
                r = err_enum(ex)
            if r != m:
                ck.disagree("digit_string vs model", {"n": n, "value": repr(val)}, r, m)
            if not (isinstance(r, str) and len(r) == n and r.isdigit() and r.isascii() and int(r) == v):
                ck.fail("digit_string", f"digit_string({n}, {val!r}) = {r!r}: not {n} digits with value {v}",
                        {"fn": "digit_string", "n": n, "value": repr(val)})
    ck.sample({"fn": "digit_string", "n": 5, "value": "1020.0", "result": SI.digit_string(5, 1020.0)})

    # ---- decimal_places
    vals: list[Any] = [3.99, "3.985", "3.995", 2.5, -2.5, "0.125", 0, 7, Decimal("1.005"), "-0.004", 1e-7, 123456.789, "1E+3",
                       Decimal("0.5"), Decimal("1.5"), Decimal("-0.5"), 0.1, 0.7, 1 / 3]
    for _ in range(n_random):
        k = rng.random()
        digs = rng.randint(1, 15)
        c = rng.randrange(10 ** digs)
        e = rng.randint(-14, 2)
        d = Decimal((rng.random() < 0.3, tuple(map(int, str(c))), e))
        if k < 0.3:
            vals.append(d)
        elif k < 0.55:
            vals.append(str(d))
        elif k < 0.85:
            vals.append(float(d))
        else:
            vals.append(int(d))
    # exact ties
    for _ in range(n_random // 4 + 10):
        dd = rng.randint(0, 6)
        c = rng.randrange(10 ** rng.randint(1, 8)) * 10 + 5
        vals.append(Decimal((rng.random() < 0.5, tuple(map(int, str(c))), -dd - 1)))
    pcases = [(d, v) for v in vals for d in ([0, 1, 2, 3, 6, 12] if not isinstance(v, Decimal) else range(0, 13))]
    reqs = []
    for d, v in pcases:
        t = Decimal(v).as_tuple()
        reqs.append(f"C16 places {d} {t.sign} {int(''.join(map(str, t.digits)))} {t.exponent}")
    model = ck.driver.run(reqs)
    for (d, v), m in zip(pcases, model):
        kind = type(v).__name__
        ck.case(("places", d, repr(v)), nontrivial=True, feature=f"places/{kind}")
        x = Fraction(Decimal(v))
        within = len(str(abs(int(x)))) + d <= 28
        ck.oracle_evaluations += 1
        if ck.oracle_evaluations % 40 == 0:
            cobol_reads(rng)
        try:
            r = SI.decimal_places(d, v)
            t = r.as_tuple()
            out = f"{t.sign} {int(''.join(map(str, t.digits)))} {t.exponent}"
        except InvalidOperation:
            r, out = None, "InvalidOperation"
        except BaseException as ex:  # noqa: BLE001
            r, out = None, err_enum(ex)
        if out != m:
            ck.disagree("decimal_places vs model", {"d": d, "value": repr(v)}, out, m)
        if not within:
            continue
        inp = {"fn": "decimal_places", "d": d, "value": repr(v)}
        if r is None:
            ck.fail("decimal_places", f"decimal_places({d}, {v!r}) raises {out}", inp)
        elif not isinstance(r, Decimal) or r.as_tuple().exponent != -d:
            ck.fail("decimal_places", f"decimal_places({d}, {v!r}) = {r!r}: not exactly {d} fractional digits", inp)
        elif abs(Fraction(r) - x) * 2 > Fraction(1, 10 ** d):
            ck.fail("decimal_places", f"decimal_places({d}, {v!r}) = {r!r}: more than half a unit in the last place away", inp)
        elif SI.decimal_places(d, r).as_tuple() != r.as_tuple():
            ck.fail("decimal_places", f"decimal_places({d}, .) not idempotent on {v!r}", inp)
    ck.sample({"fn": "decimal_places", "d": 0, "value": "2.5", "result": str(SI.decimal_places(0, "2.5"))})

    # ---- CONVERSION
    probes = {"null": "x", "bool": "x", "integer": "12", "number": "1.5", "string": 12, "decimal": "1.50", None: object()}
    names = list(SI.CONVERSION.keys())
    model = ck.driver.run([f"C16 conv {n}" for n in names])
    for n, m in zip(names, model):
        ck.case(("conv", n), feature="conversion")
        ck.oracle_evaluations += 1
        arg = probes.get(n, "1")
        try:
            r = SI.CONVERSION[n](arg)
            out = "same" if (n is None and r is arg) else type(r).__name__
        except BaseException as ex:  # noqa: BLE001
            out = err_enum(ex)
        if out != m:
            ck.disagree("CONVERSION vs model", {"name": n}, out, m)
        want = {"null": "NoneType", "bool": "bool", "integer": "int", "number": "float", "string": "str", "decimal": "Decimal",
                None: "same"}.get(n)
        if want is not None and out != want:
            ck.fail("CONVERSION", f"CONVERSION[{n!r}] yields {out}, not {want}", {"fn": "CONVERSION", "name": n})
    # every named conversion on the raw values a workbook delivers for an empty / zero cell
    for raw in ("", b"", 0, 0.0, Decimal("0"), False, "0", " "):
        ck.oracle_evaluations += 1
        try:
            r = SI.CONVERSION["null"](raw)
        except BaseException as ex:  # noqa: BLE001
            r = err_enum(ex)
        if r is not None:
            ck.fail("CONVERSION", f"CONVERSION['null']({raw!r}) yields {r!r}, not None", {"fn": "CONVERSION", "name": "null", "raw": repr(raw)})
    for n in ("null", "bool", "integer", "number", "string", "decimal", None):
        if n not in SI.CONVERSION:
            ck.fail("CONVERSION", f"CONVERSION lacks {n!r}", {"fn": "CONVERSION", "name": n})


def run(ck: Check) -> int:
    ck.rule = ("digit_string: every (n, v) with n<=4 exhaustively, boundary values for n<=20 and random v, each in int / integral-float / "
               "Decimal form; decimal_places: d in 0..12 over float, str, int and Decimal arguments incl. exact ties; "
               "distinct by (function, arguments); non-trivial = v>0 resp. every decimal_places case")
    ck.trusted_extra = ["str(int) = Nat.toDigits 10; int(float)/int(Decimal) exact on integral values; Decimal(value) is the exact "
                        "(sign, coefficient, exponent) triple the harness reads from as_tuple(); quantize = half-even rescale refused above 28 digits"]
    ck.assumptions = ["finite numbers only (no NaN/Infinity)", "integer digits + d within the 28-digit default context (property's quantifier)"]
    ck.prove(["Stingray.Props.C16", "Stingray.Tie.C16"])
    if ck.tier == "quick":
        explore(ck, 4, 400)
    else:
        explore(ck, 5, 20000)
    return ck.finish(search=lambda c: explore(c, 4, 4000))


def replay(ck: Check, data: dict[str, Any]) -> int:
    import stingray.schema_instance as SI

    inp = data.get("input", {})
    if inp.get("fn") == "digit_string":
        v = eval(inp["value"], {"Decimal": Decimal})
        r = SI.digit_string(inp["n"], v)
        ok = len(r) == inp["n"] and r.isdigit() and int(r) == int(v)
        print(f"digit_string({inp['n']}, {v!r}) = {r!r} -> {'holds' if ok else 'FAILS'}")
        return 0 if ok else 1
    if inp.get("fn") == "decimal_places":
        v = eval(inp["value"], {"Decimal": Decimal})
        r = SI.decimal_places(inp["d"], v)
        ok = r.as_tuple().exponent == -inp["d"] and abs(Fraction(r) - Fraction(Decimal(v))) * 2 <= Fraction(1, 10 ** inp["d"])
        print(f"decimal_places({inp['d']}, {v!r}) = {r!r} -> {'holds' if ok else 'FAILS'}")
        return 0 if ok else 1
    return run(ck)
