"""
C01 -- every named COBOL item is read from the byte range the record layout assigns it.

Proof:           lean/Stingray/Props/C01.lean (C01_layout, C01_length over nav_emit/nav_member/nav_redefs; D1_counterexample)
Tie:             correspondence only (method dispatch of LocationMaker.walk is beyond the translator): generated copybooks are
                 rendered to text, run through structure()/build_json_schema/SchemaMaker/LocationMaker/NDNav, and compared with
                 the Lean model on (a) the emitted schema, property order included, (b) (start, end) of EVERY navigation path
Oracle:          gen_copybook.spec_layout (the COBOL rule in Python) vs location.start/.end and raw(), EBCDIC and native text
"""
from __future__ import annotations

from typing import Any

from harness.common import Check, err_enum
from harness.gen_copybook import Node, Style, TreeGen, clusters_ok, item_tokens, path_token, preorder, render, spec_layout
from harness.layout_common import held_ranges, build_docs, dump_doc, extra_paths, impl_range, load, nav_path, pattern_record

KNOWN_SHAPES = {
    "elem-occurs-redefines": "D34:elementary-occurs-redefines-participant",
    "dup-names": "D2:duplicate-names-among-redefines-participants",
}


def has_elem_occurs_participant(root: Node) -> bool:
    for g in preorder(root):
        names = {c.redefines for c in g.children if c.redefines}
        for c in g.children:
            if (c.redefines or c.name in names) and not c.is_group and c.occurs is not None:
                return True
    return False


def has_redefines_in_occurs(root: Node) -> bool:
    def walk(n: Node, inside: bool) -> bool:
        rep = inside or n.occurs is not None or n.odo is not None
        for c in n.children:
            if c.redefines and (n.occurs is not None or n.odo is not None):
                return True
            if walk(c, rep):
                return True
        return False
    return walk(root, False)


def participants(root: Node) -> set[int]:
    out: set[int] = set()
    for g in preorder(root):
        targets = {c.redefines for c in g.children if c.redefines}
        for c in g.children:
            if c.redefines or c.name in targets:
                out.add(id(c))
    return out


def duplicate_names(rng, root: Node) -> str:
    """give two items in different groups the same data name; returns the feature label ('' if not possible)"""
    part = participants(root)
    groups = [g for g in preorder(root) if g.is_group and g.children]
    cands = [(g, c) for g in groups for c in g.children if c.name not in (None, "FILLER")]
    rng.shuffle(cands)
    for g1, a in cands:
        for g2, b in cands:
            if g1 is g2 or a is b:
                continue
            both_part = id(a) in part and id(b) in part
            one_part = (id(a) in part) != (id(b) in part)
            if one_part:
                continue
            if not both_part and (a.is_group or b.is_group):
                continue   # a name shared with a group collides in the generator's name table as well (D2 family)
            # rename b (and whatever redefines it) to a's name
            old = b.name
            for c in g2.children:
                if c.redefines == old:
                    c.redefines = a.name
            b.name = b.unique = a.name
            return "dup-names/participants" if both_part else "dup-names/harmless"
    return ""


def one_tree(ck: Check, root: Node, reqs: list[str], impl: list[str], inputs: list[Any], kind: str, text_mode: bool) -> None:
    from stingray.schema_instance import EBCDIC, LocationMaker, TextInstance, TextUnpacker

    rng = ck.rng
    style = Style(seq_numbers=rng.random() < 0.3, ident_area=rng.random() < 0.2, comments=rng.random() < 0.2)
    inject: dict[int, list[Node]] = {}
    if rng.random() < 0.25:
        # a stand-alone level-77 item (working storage) written between the record's entries: no part of the record, occupies nothing in it
        where = rng.choice(list(preorder(root)))
        inject[id(where)] = [Node(77, "WS-COUNTER", pic=rng.choice(["9(4)", "X(7)", "S9(5)V99"]), width=0)]
        ck.histogram["level-77-beside-the-record"] += 1
    text = render([root], style, inject)
    spec = spec_layout(root, {})
    paths = list(spec)
    extras = extra_paths(root, spec, rng)
    toks = " ".join(item_tokens(root))
    inp = {"copybook": text}
    sig = "layout"
    if has_elem_occurs_participant(root):
        sig = KNOWN_SHAPES["elem-occurs-redefines"]
    elif kind == "dup-names/participants":
        sig = KNOWN_SHAPES["dup-names"]
    ck.case(toks, feature=kind)
    # ---- implementation
    try:
        docs = build_docs(text)
        doc = docs[0]
        schema = load(doc)
        total = spec[()][1]
        rec = pattern_record(total)
        if text_mode:
            trec = "".join(chr(0x21 + (b % 90)) for b in rec)
            nav = TextUnpacker().nav(schema, TextInstance(trec))
        else:
            nav = EBCDIC().nav(schema, rec)
        dump = dump_doc(doc)
        ranges = [impl_range(nav, p) for p in paths + extras]
        length = str(LocationMaker(EBCDIC(), schema).from_schema().end)
    except BaseException as ex:  # noqa: BLE001
        ck.oracle_evaluations += 1
        ck.fail(sig, f"copybook cannot be turned into a navigable schema: {type(ex).__name__}: {str(ex)[:120]}", inp)
        if sig == "layout":
            reqs.append(f"LAY dump {toks}")
            impl.append("error:" + err_enum(ex))
            inputs.append(inp)
        return
    # ---- oracle: the COBOL rule
    ck.oracle_evaluations += len(paths) + 1
    if length != str(total):
        ck.fail(sig, f"record length {length}, the layout rule says {total}", inp)
    for p, r in zip(paths, ranges):
        want = f"{spec[p][0]}:{spec[p][1]}"
        if r != want:
            ck.fail(sig, f"path {path_token(p)} is read from {r}, the layout rule assigns {want}", {**inp, "path": path_token(p)})
            break
    else:
        # raw bytes of every path are exactly that slice of the record
        src = trec if text_mode else rec
        for p in paths:
            try:
                raw = nav_path(nav, p).raw()
            except BaseException as ex:  # noqa: BLE001
                ck.fail(sig, f"raw() of {path_token(p)} raises {type(ex).__name__}", {**inp, "path": path_token(p)})
                break
            if raw != src[spec[p][0]:spec[p][1]]:
                ck.fail(sig, f"raw() of {path_token(p)} is not record[{spec[p][0]}:{spec[p][1]}]", {**inp, "path": path_token(p)})
                break
    # ---- the same ranges through navigators that are all built first and read afterwards
    ck.oracle_evaluations += 1
    held = held_ranges(nav, paths)
    for p in paths:
        want = f"{spec[p][0]}:{spec[p][1]}"
        if p in held and held[p] != want:
            ck.fail(sig, f"path {path_token(p)}, reached through navigators built before any was read, is at {held[p]}; the layout rule "
                         f"assigns {want}", {**inp, "path": path_token(p), "held": True})
            break
    # ---- model (only for trees inside the model's domain: adjacent redefiners)
    if sig == "layout" and clusters_ok(root):
        reqs.append(f"LAY dump {toks}")
        impl.append(dump)
        inputs.append({**inp, "what": "emitted schema"})
        reqs.append(f"LAY nav - {';'.join(path_token(p) for p in paths + extras)} {toks}")
        impl.append(" ".join(r if not r.startswith("none") else "none" for r in ranges))
        inputs.append({**inp, "what": "ranges", "paths": [path_token(p) for p in paths + extras]})


def explore(ck: Check, n_trees: int) -> None:
    rng = ck.rng
    reqs: list[str] = []
    impl: list[str] = []
    inputs: list[Any] = []
    # corpus of minimised past failures
    corpus = [
        Node(1, "R", children=[Node(5, "A", pic="X(3)", width=3), Node(5, "B", pic="X(4)", width=4),
                               Node(5, "C", pic="X(4)", width=4, redefines="B")]),                        # D1
        Node(1, "R", children=[Node(5, "A", pic="X(2)", width=2),
                               Node(5, "G", children=[Node(10, "G1", pic="X(2)", width=2), Node(10, "G2", pic="9(3)", width=3)]),
                               Node(5, "H", redefines="G", children=[Node(10, "H1", pic="X(5)", width=5)]),
                               Node(5, "Z", pic="X", width=1)]),
    ]
    for root in corpus:
        for n in preorder(root):
            n.unique = n.name or ""
        one_tree(ck, root, reqs, impl, inputs, "corpus", False)
    for i in range(n_trees):
        text_mode = i % 4 == 3
        tg = TreeGen(rng, max_depth=rng.choice([2, 3, 4]), max_width=rng.choice([3, 4, 5]), display_only=text_mode,
                     redefines_in_occurs=True)
        root = tg.record()
        kind = ("text/" if text_mode else "ebcdic/") + ("+".join(sorted(tg.features)) or "plain")
        one_tree(ck, root, reqs, impl, inputs, kind, text_mode)
        if i < 2:
            ck.sample({"copybook": render([root]), "paths": len(spec_layout(root, {}))})
    # shapes with known findings: still explored, failures attributed to their own signatures
    for i in range(max(6, n_trees // 10)):
        tg = TreeGen(rng, max_depth=3, max_width=4, elem_occurs_redefines=True, redefines_in_occurs=True)
        one_tree(ck, tg.record(), reqs, impl, inputs, "known-shape", False)
    # duplicated data names (legal COBOL when the parents differ)
    for i in range(max(6, n_trees // 10)):
        tg = TreeGen(rng, max_depth=3, max_width=4, redefines_in_occurs=True)
        root = tg.record()
        kind = duplicate_names(rng, root)
        if kind:
            one_tree(ck, root, reqs, impl, inputs, kind, False)
    two_layout_files(ck, max(8, n_trees // 12))
    model = ck.driver.run(reqs)
    ck.compare_streams("generated schema / navigation vs Layout.emit / Layout.navRecord", inputs, impl, model)


def two_layout_files(ck: Check, n: int) -> None:
    """A file described by two layouts (a header record, then detail records of another length): the sheet is bound to the header
    layout, the first row is taken, the sheet is bound to the detail layout and the remaining rows are taken.  Every item of every
    row is at the bytes ITS layout assigns -- also for a row that is first looked at after the sheet has moved on, and for the rows
    that follow it (EBCDIC without length headers: each record starts where the previous one ended; native text lines)."""
    import io

    from stingray.workbook import COBOL_EBCDIC_File, COBOL_Text_File

    rng = ck.rng
    for k in range(n):
        trees = []
        text_mode = k % 3 == 2
        for _ in range(2):
            tg = TreeGen(rng, max_depth=2, max_width=3, fillers=False, display_only=text_mode)
            root = tg.record()
            trees.append((root, render([root]), spec_layout(root, {})))
        (ra, ta, sa), (rb, tb, sb) = trees
        la, lb = sa[()][1], sb[()][1]
        if la == lb:
            continue
        mk = (lambda n_, salt: "".join(chr(0x21 + ((i * 7 + salt * 13 + (i >> 3)) % 90)) for i in range(n_))) if text_mode else \
             (lambda n_, salt: bytes(((i * 7 + salt * 31) ^ (i >> 3)) & 0xFF for i in range(n_)))
        recs = [mk(la, 1), mk(lb, 2), mk(lb, 3)]
        look_first = k % 2 == 0        # whether the header row is looked at before the sheet moves on
        inp = {"header_copybook": ta, "detail_copybook": tb, "records": [la, lb, lb], "source": "text lines" if text_mode else "EBCDIC, no length headers",
               "header_row_read_before_rebinding": look_first}
        ck.case(("two-layouts", ta, tb, text_mode, look_first), feature="two-layout-file/" + ("text" if text_mode else "ebcdic"))
        ck.oracle_evaluations += 1
        try:
            scha, schb = load(build_docs(ta)[0]), load(build_docs(tb)[0])
            if text_mode:
                wb = COBOL_Text_File("x.txt", file_object=io.StringIO("".join(r + "\n" for r in recs)))
            else:
                wb = COBOL_EBCDIC_File("x.data", file_object=io.BytesIO(b"".join(recs)))
            sheet = wb.sheet("")
            sheet.set_schema(scha)
            rows = sheet.rows()
            r0 = next(rows)
            early = {p: impl_range(r0.nav, p) for p in sa} if look_first else None
            sheet.set_schema(schb)
            r1 = next(rows)
            r2 = next(rows)
            for row, spec, rec, label in ((r0, sa, recs[0], "header row"), (r1, sb, recs[1], "first detail row"), (r2, sb, recs[2], "second detail row")):
                for p in spec:
                    want = f"{spec[p][0]}:{spec[p][1]}"
                    got = impl_range(row.nav, p)
                    if got != want:
                        ck.fail("layout", f"two-layout file, {label}: path {path_token(p)} is read from {got}, its layout assigns {want}", {**inp, "path": path_token(p)})
                        raise StopIteration
                    raw = nav_path(row.nav, p).raw()
                    if raw != rec[spec[p][0]:spec[p][1]]:
                        ck.fail("layout", f"two-layout file, {label}: raw() of {path_token(p)} is not bytes {want} of that record", {**inp, "path": path_token(p)})
                        raise StopIteration
        except StopIteration:
            pass
        except BaseException as ex:  # noqa: BLE001
            ck.fail("layout", f"two-layout file: reading raises {type(ex).__name__}: {str(ex)[:100]}", inp)


def run(ck: Check) -> int:
    ck.rule = ("record descriptions generated from one PRNG (groups to depth 4, OCCURS on groups and elementary items, REDEFINES of elementary "
               "and group items at any sibling position with one or two redefiners, FILLER/unnamed items, every USAGE family), rendered to "
               "reference-format text under varying styles; for each tree EVERY navigation path (all names, all indices) plus undefined paths is "
               "navigated with NDNav over EBCDIC bytes or native text; distinct by tree; the feature histogram is in input_distribution")
    ck.trusted_extra = ["elementary widths are parameters of the tree (C04 decides them); the per-record anchors dict is modelled as an "
                        "association list with last-writer-wins lookup; Python dict insertion order is modelled by list order",
                        "LocationMaker.walk / NDNav are tied by correspondence only (no extraction)"]
    ck.assumptions = ["data names do not start with 'REDEFINES-'", "redefiners follow their base item directly (COBOL rule)",
                      "names of REDEFINES participants are unique in the record (D2), participants are not elementary OCCURS items (D34), "
                      "no REDEFINES directly inside an OCCURS group (D10)"]
    ck.prove(["Stingray.Props.C01", "Stingray.Tie.C01"])
    explore(ck, 300 if ck.tier == "quick" else 6000)
    return ck.finish(search=lambda c: explore(c, 1500))


def replay(ck: Check, data: dict[str, Any]) -> int:
    inp = data.get("input", {})
    if "copybook" in inp:
        from stingray.schema_instance import EBCDIC
        try:
            doc = build_docs(inp["copybook"])[0]
            print(dump_doc(doc))
        except BaseException as ex:  # noqa: BLE001
            print("schema build raises", type(ex).__name__, ex)
    return run(ck)
