"""
C07 -- copybook to schema: every entry appears once, in place, and none is lost.

Proof:           lean/Stingray/Props/C07.lean (buildForest_preorder, buildForest_levels, entries_emit, names_toItem,
                 C07_every_entry_once, one_schema_per_record)
Tie:             correspondence: generated copybooks (1-3 records, 66/77/88 entries sprinkled, FILLER/unnamed entries, REDEFINES and
                 OCCURS everywhere) rendered to text -> structure(dde_sentences(reference_format(text))) and schema_iter(text) vs
                 Copybook.buildForest / Copybook.records on the abstract entry list
Oracle:          the anchored-node preorder, nesting, titles and `cobol` texts of the real schemas vs the abstract forest
"""
from __future__ import annotations

import io
from typing import Any

from harness.common import Check, err_enum
from harness.gen_copybook import (Node, Style, TreeGen, clause_text, entry_token, number_fillers, preorder, render,
                                  sentence_nodes)
from harness.layout_common import dump_doc


def dump_dde(n: Any) -> str:
    kids = " ".join(dump_dde(c) for c in n.children)
    return f"({int(n.level)} {n.unique_name}" + (f" {kids}" if kids else "") + ")"


def dump_abstract(n: Node) -> str:
    kids = " ".join(dump_abstract(c) for c in n.children)
    return f"({n.level} {n.unique}" + (f" {kids}" if kids else "") + ")"


def schema_entries(doc: dict[str, Any], out: list[tuple[str, str, int]], depth: int = 0) -> None:
    """(title-or-anchor, cobol text, depth) of every schema node that stands for an entry, in document order"""
    if doc.get("oneOf"):
        for a in doc["oneOf"]:
            schema_entries(a, out, depth)
        return
    if "$ref" in doc:
        return
    if "cobol" in doc and ("title" in doc):
        out.append((doc.get("$anchor", doc.get("title")), doc["cobol"], depth))
    t = doc.get("type")
    if t == "array":
        items = doc["items"]
        if "title" in doc and "$anchor" not in doc:
            # elementary OCCURS: the inner item is the same entry; take the anchor from it
            inner = next(iter(items["properties"].values()))
            out[-1] = (inner["$anchor"], doc["cobol"], depth)
        else:
            for v in items.get("properties", {}).values():
                schema_entries(v, out, depth + 1)
    elif t == "object":
        for v in doc.get("properties", {}).values():
            schema_entries(v, out, depth + 1)


def abstract_entries(n: Node, out: list[tuple[str, str, int]], depth: int = 0) -> None:
    out.append((n.unique, " ".join(clause_text(n, Style()).rstrip(".").split()), depth))
    for c in n.children:
        abstract_entries(c, out, depth + 1)


def one_copybook(ck: Check, roots: list[Node], inject: dict[int, list[Node]], style: Style, reqs, impl, inputs, label: str) -> None:
    from stingray.cobol_parser import dde_sentences, reference_format, schema_iter, structure

    text = render(roots, style, inject)
    inp = {"copybook": text}
    sents = sentence_nodes(roots, inject)
    toks = " ".join(entry_token(n) for n in sents)
    ck.case(toks + repr(style), feature=label)
    sig = "entries"
    last = sents[-1]
    if not style.trailing_newline:
        sig = "final-entry-dropped:text-ends-with-its-period"
    if sents[0].level in (66, 77, 88):
        sig = "first-entry-is-66-77-88"
    # ---- implementation
    try:
        trees = structure(dde_sentences(reference_format(io.StringIO(text))))
        forest = " ".join(dump_dde(t) for t in trees)
        docs = list(schema_iter(io.StringIO(text)))
        recs = " | ".join(dump_doc(d) for d in docs)
    except BaseException as ex:  # noqa: BLE001
        ck.oracle_evaluations += 1
        ck.fail(sig if sig != "entries" else "internal-error",
                f"a well-formed copybook ends in {type(ex).__name__}: {str(ex)[:100]}", inp)
        return
    # ---- oracle: one schema per 01, every entry once, nested and ordered as in the source, titled, carrying its text
    ck.oracle_evaluations += 1
    want_roots = [r for r in roots if r.level not in (66, 77, 88)]
    if len(docs) != len(want_roots):
        ck.fail(sig, f"{len(want_roots)} records in the copybook, {len(docs)} schemas", inp)
    else:
        for root, doc in zip(want_roots, docs):
            got: list[tuple[str, str, int]] = []
            want: list[tuple[str, str, int]] = []
            schema_entries(doc, got)
            abstract_entries(root, want)
            if [g[0] for g in got] != [w[0] for w in want]:
                missing = [w[0] for w in want if w[0] not in [g[0] for g in got]]
                ck.fail(sig, f"record {root.unique}: schema entries {[g[0] for g in got][:8]}… differ from the copybook's "
                             f"{[w[0] for w in want][:8]}…; missing {missing[:4]}", inp)
                break
            if [g[2] for g in got] != [w[2] for w in want]:
                ck.fail(sig, f"record {root.unique}: entries are nested differently from the level numbers", inp)
                break
            # (an entry with neither name nor clauses, `06.`, is carried as '06 ': trailing blanks are layout, not text)
            bad = [(g[0], g[1], w[1]) for g, w in zip(got, want) if g[1].rstrip() != w[1].rstrip()]
            if bad:
                ck.fail(sig, f"record {root.unique}: entry {bad[0][0]} carries text {bad[0][1]!r}, the source says {bad[0][2]!r}", inp)
                break
    if sig == "entries":
        reqs.append(f"CPY forest {toks}")
        impl.append(forest)
        inputs.append({**inp, "what": "DDE forest"})
        reqs.append(f"CPY records {toks}")
        impl.append(recs)
        inputs.append({**inp, "what": "schemas"})


def sprinkle(rng, roots: list[Node]) -> dict[int, list[Node]]:
    inject: dict[int, list[Node]] = {}
    k = 0
    for root in roots:
        for n in preorder(root):
            if not n.is_group and rng.random() < 0.25:
                conds = []
                for _ in range(rng.randint(1, 2)):
                    k += 1
                    lit = "''" if k % 4 == 0 else f"'{chr(65 + k % 26)}'" if k % 4 != 2 else '""'      # empty literals too
                    conds.append(Node(88, f"COND-{k}", extra=[f"VALUE {lit}"]))
                inject[id(n)] = conds
        if rng.random() < 0.2:
            k += 1
            last = list(preorder(root))[-1]
            inject.setdefault(id(last), []).append(Node(66, f"ALIAS-{k}", extra=[f"RENAMES {root.children[0].name or 'X'}"]))
        if rng.random() < 0.25:
            # a level-77 item (working storage, no part of the record) after any entry of the record
            k += 1
            where = rng.choice(list(preorder(root)))
            w77 = Node(77, f"WS-{k}", pic="9(4)", width=4)
            inject.setdefault(id(where), []).append(w77)
    return inject


def fragments(ck: Check, n: int) -> None:
    """Copybook fragments as they are written to be COPY'd under someone else's 01: no 01 level, several top-level entries at 05 / 03 /
    10, some of them REDEFINES of an earlier top-level entry.  One schema per top-level entry, in order, titled with its name; never
    an internal error."""
    import io

    from stingray.cobol_parser import schema_iter

    rng = ck.rng
    for _ in range(n):
        lvl = rng.choice([5, 3, 10, 2])
        k = rng.randint(2, 5)
        lines: list[str] = []
        tops: list[str] = []
        plain: list[tuple[str, int]] = []
        for j in range(k):
            nm = f"PAY-{rng.choice(['KEY', 'DATA', 'TEXT', 'AMT', 'CODE'])}-{j}"
            w = rng.randint(2, 9)
            red = ""
            if plain and rng.random() < 0.45:
                base, bw = rng.choice(plain[-1:] if rng.random() < 0.7 else plain)
                red, w = f" REDEFINES {base}", bw
            if rng.random() < 0.35 and w >= 2:
                lines.append(f"       {lvl:02d}  {nm}{red}.")
                a = rng.randint(1, w - 1)
                lines.append(f"           {lvl + 5:02d}  {nm}-A PIC X({a}).")
                lines.append(f"           {lvl + 5:02d}  {nm}-B PIC 9({w - a}).")
            else:
                lines.append(f"       {lvl:02d}  {nm}{red} PIC {rng.choice(['X', '9'])}({w}).")
            tops.append(nm)
            if not red:
                plain.append((nm, w))
        text = "\n".join(lines) + "\n"
        has_red = "REDEFINES" in text
        ck.case(("fragment", text), feature="fragment-without-01" + ("/top-level-redefines" if has_red else ""))
        ck.oracle_evaluations += 1
        inp = {"copybook": text}
        try:
            docs = list(schema_iter(io.StringIO(text)))
        except BaseException as ex:  # noqa: BLE001
            ck.fail("internal-error", f"a well-formed copybook fragment (no 01 level) ends in {type(ex).__name__}: {str(ex)[:80]}", inp)
            continue
        titles = [d.get("title") for d in docs]
        if titles != tops:
            ck.fail("entries", f"copybook fragment: schemas {titles} differ from the top-level entries {tops}", inp)


def qualified_names_record(rng) -> Node:
    """one record whose groups reuse the same data names (KEY-DATA OF HDR / KEY-DATA OF BODY), redefined in each group: legal COBOL,
    the names being qualified by their group.  Only the structure of the schema is looked at (the layout of such records is
    finding D2 of C01)."""
    import copy

    names = rng.sample(["KEY-DATA", "KEY-NUM", "AMT", "CODE", "FLAG", "PARTS"], rng.randint(2, 4))
    items: list[Node] = []
    for nm in names:
        w = rng.randint(2, 8)
        items.append(Node(10, nm, pic=f"X({w})", width=w))
        if rng.random() < 0.6:
            if rng.random() < 0.5:
                items.append(Node(10, nm + "-R", pic=f"9({w})", width=w, redefines=nm))
            else:
                g = Node(10, nm + "-G", redefines=nm, children=[Node(15, nm + "-A", pic="X", width=1), Node(15, nm + "-B", pic=f"X({w - 1})", width=w - 1)])
                items.append(g)
    groups = []
    for k in range(rng.randint(2, 3)):
        g = Node(5, f"GRP-{k}", children=copy.deepcopy(items if rng.random() < 0.7 else items[: max(1, len(items) // 2)]))
        if rng.random() < 0.3:
            g.occurs = rng.randint(2, 3)
        groups.append(g)
    root = Node(1, "QUAL-REC", children=groups)
    number_fillers(root)
    return root


def explore(ck: Check, n: int) -> None:
    rng = ck.rng
    reqs: list[str] = []
    impl: list[str] = []
    inputs: list[Any] = []
    for _ in range(max(10, n // 10)):
        one_copybook(ck, [qualified_names_record(rng)], {}, Style(), [], [], [], "names-qualified-by-group")
    for i in range(n):
        roots = []
        for _ in range(rng.choice([1, 1, 2, 3])):
            tg = TreeGen(rng, max_depth=rng.choice([2, 3, 4]), max_width=rng.choice([2, 3, 4]), redefines_in_occurs=True,
                         odo=rng.random() < 0.3)
            roots.append(tg.record())
        # names must differ between records only for readability; FILLER numbering restarts at each 01
        inject = sprinkle(rng, roots) if rng.random() < 0.6 else {}
        style = Style(seq_numbers=rng.random() < 0.3, ident_area=rng.random() < 0.2, comments=rng.random() < 0.3)
        one_copybook(ck, roots, inject, style, reqs, impl, inputs, f"records-{len(roots)}" + ("/with-66-88" if inject else ""))
        if i < 2:
            ck.sample({"copybook": render(roots, style, inject)})
        if i % 10 == 0:   # the same copybook without a final newline (known finding D11)
            one_copybook(ck, roots, inject, Style(trailing_newline=False), reqs, impl, inputs, "no-final-newline")
        if i % 15 == 0:   # a copybook that starts with a level-77 item
            w = Node(77, "WORK-ITEM", pic="X(2)", width=2)
            w.unique = "WORK-ITEM"
            fake_root = Node(77, "WORK-ITEM", pic="X(2)", width=2)
            fake_root.unique = "WORK-ITEM"
            one_copybook(ck, [fake_root] + roots, inject, Style(), reqs, impl, inputs, "starts-with-77")
    fragments(ck, max(12, n // 8))
    # a data name that begins with SYNC (the one reserved-word prefix the existing tests pin): known finding D39
    w = Node(1, "R", children=[Node(5, "SYNC-FLAG", pic="X", width=1), Node(5, "B", pic="X", width=1)])
    for n in preorder(w):
        n.unique = n.name or ""
    text = render([w], Style())
    ck.case("D39-shape", feature="known-shape/name-begins-with-SYNC")
    ck.oracle_evaluations += 1
    try:
        from stingray.cobol_parser import schema_iter
        doc = next(iter(schema_iter(io.StringIO(text))))
        if "SYNC-FLAG" not in doc["properties"]:
            ck.fail("name-begins-with-SYNC", f"entry SYNC-FLAG appears as {list(doc['properties'])[0]!r}", {"copybook": text})
    except BaseException as ex:  # noqa: BLE001
        ck.fail("name-begins-with-SYNC", f"copybook with a name beginning with SYNC ends in {type(ex).__name__}", {"copybook": text})
    model = ck.driver.run(reqs)
    ck.compare_streams("structure()/schema_iter() vs Copybook.buildForest/records", inputs, impl, model)


def run(ck: Check) -> int:
    ck.rule = ("copybooks of 1-3 records generated from one PRNG (groups, OCCURS fixed and DEPENDING ON on groups and elementary items, REDEFINES "
               "anywhere incl. inside repeated groups, FILLER and unnamed entries, 88-levels after elementary items, 66-levels at the end of a "
               "record), rendered with sequence numbers / identification area / comment lines, with and without a final newline; distinct by "
               "(entry list, style)")
    ck.trusted_extra = ["reference_format, dde_sentences and clause_dict (regular expressions) are not modelled here: the model starts from the "
                        "entry list; they are exercised by rendering the abstract copybook to text (their own properties: C12)"]
    ck.assumptions = ["exactly the entries with a PICTURE are leaves (well-formed copybook)", "level numbers have two digits"]
    ck.prove(["Stingray.Props.C07", "Stingray.Tie.C07"])
    explore(ck, 150 if ck.tier == "quick" else 4000)
    return ck.finish(search=lambda c: explore(c, 800))


def replay(ck: Check, data: dict[str, Any]) -> int:
    return run(ck)
