"""
C10 -- navigation is coherent and lazy: a part of the value is the value of the part.

Proof:           lean/Stingray/Props/C10.lean (value_local, touched_atomic, atomic_unaffected, touched_oneOf_first,
                 layout_depends_only_on_counters, value_object, name_commutes, ref_value, index_commutes,
                 index_out_of_range_refused, row_values)
Tie:             correspondence: for generated copybooks and records (valid encodings, then each field in turn corrupted) the value at
                 EVERY path from the real NDNav vs Layout.valueAt composed with the C02 decoder model; the byte ranges actually decoded
                 (AtomicLocation.value wrapped by the harness) vs the model's `touched`
Oracle:          the commutation laws on the real navigators (NDNav, DNav, WBNav), raw-slice containment, index bound, Row.values(),
                 and non-interference: a corrupted field raises only when it is itself requested
"""
from __future__ import annotations

import io
from decimal import Decimal
from typing import Any

from harness.common import Check, err_enum, hexs
from harness.decode_common import enum, show_val, tables_line
from harness.gen_copybook import Node, Style, TreeGen, clusters_ok, item_tokens, path_token, preorder, render, spec_layout
from harness.layout_common import build_docs, load, nav_path, pattern_record


def valid_bytes(rng, n: Node) -> bytes:
    pic, usage, w = n.pic or "", n.usage or "DISPLAY", n.width
    if usage in ("COMP", "BINARY", "COMP-4", "COMPUTATIONAL", "COMPUTATIONAL-4"):
        return bytes(rng.randrange(256) for _ in range(w))
    if usage in ("COMP-3", "PACKED-DECIMAL", "COMPUTATIONAL-3"):
        nibs = [rng.randrange(10) for _ in range(2 * w - 1)] + [rng.choice([0xC, 0xD, 0xF])]
        digits = sum(int(x) if x.isdigit() else 0 for x in []) or 0
        # an even declared digit count leaves a pad nibble that must be zero
        import re
        m = re.findall(r"9\((\d+)\)|(9+)", pic.upper())
        declared = sum(int(a) if a else len(b) for a, b in m)
        if declared % 2 == 0:
            nibs[0] = 0
        return bytes(nibs[i] * 16 + nibs[i + 1] for i in range(0, len(nibs), 2))
    if pic.upper().lstrip("S").startswith("9") or pic.upper().startswith("V"):
        return bytes(0xF0 + rng.randrange(10) for _ in range(w))   # zoned, sign-position byte carries digit 0..9 too
    return "".join(rng.choice("ABCDEFGHIJ 0123456789xyz.-") for _ in range(w)).encode("cp037")


def corrupt_bytes(n: Node) -> bytes | None:
    usage = n.usage or "DISPLAY"
    pic = (n.pic or "").upper()
    if usage in ("COMP-3", "PACKED-DECIMAL", "COMPUTATIONAL-3"):
        return b"\xff" * n.width
    if usage == "DISPLAY" and (pic.lstrip("S").startswith("9") or pic.startswith("V")):
        return b"\xfa" * n.width
    return None     # text and binary items accept every byte


def show_tree(v: Any) -> str:
    if isinstance(v, dict):
        return "{" + ";".join(f"{k}={show_tree(x)}" for k, x in v.items()) + "}"
    if isinstance(v, list):
        return "[" + ";".join(show_tree(x) for x in v) + "]"
    return show_val(v)


def impl_value(nav: Any, p) -> str:
    try:
        n = nav_path(nav, p)
    except BaseException:  # noqa: BLE001
        return "none"
    try:
        return show_tree(n.value())
    except BaseException as ex:  # noqa: BLE001
        return "err:" + enum(ex)


def fill_record(rng, root: Node, spec: dict) -> bytearray:
    rec = bytearray(spec[()][1])
    by_unique = {n.unique: n for n in preorder(root)}
    for path, (s, e) in spec.items():
        names = [x for x in path if isinstance(x, str)]
        if not names:
            continue
        node = by_unique.get(names[-1])
        if node is None or node.is_group or node.redefines is not None:
            continue
        if any(by_unique[x].redefines is not None for x in names if x in by_unique):
            continue   # inside a redefiner: the base's bytes are what is stored
        if (node.occurs is not None) and not (len(path) >= 3 and isinstance(path[-2], int) and path[-3] == path[-1]):
            continue   # the table as a whole; elements are filled one by one
        if e - s == node.width:
            rec[s:e] = valid_bytes(rng, node)
    return rec


def table_token(root: Node) -> str:
    return ";".join(f"{n.unique}={(n.usage or 'DISPLAY')}:{n.pic}" for n in preorder(root) if not n.is_group) or "-"


class DecodeLog:
    """wrap AtomicLocation.value to record which byte ranges were decoded"""

    def __enter__(self):
        import stingray.schema_instance as SI

        self.SI = SI
        self.log: list[tuple[int, int]] = []
        self.orig = SI.AtomicLocation.value
        log = self.log
        orig = self.orig

        def value(loc, instance, offset=0):
            log.append((loc.start + offset, loc.end - loc.start))
            return orig(loc, instance, offset)

        SI.AtomicLocation.value = value
        return self

    def __exit__(self, *a):
        self.SI.AtomicLocation.value = self.orig


def one_tree(ck: Check, root: Node, reqs: list[str], impl: list[str], inputs: list[Any]) -> None:
    from stingray.schema_instance import EBCDIC
    from stingray.workbook import COBOL_EBCDIC_File

    rng = ck.rng
    text = render([root], Style())
    toks = " ".join(item_tokens(root))
    spec = spec_layout(root, {})
    paths = list(spec)
    inp0 = {"copybook": text}
    try:
        schema = load(build_docs(text)[0])
    except BaseException as ex:  # noqa: BLE001
        ck.fail("schema", f"copybook cannot be loaded: {type(ex).__name__}", inp0)
        return
    rec = fill_record(rng, root, spec)
    table = table_token(root)
    in_model = clusters_ok(root)
    by_u = {n.unique: n for n in preorder(root)}
    leaves = [p for p in paths if p and isinstance(p[-1], str) and not by_u[p[-1]].is_group
              and (by_u[p[-1]].occurs is None or (len(p) >= 3 and isinstance(p[-2], int) and p[-3] == p[-1]))]

    def run_record(record: bytes, label: str, corrupted: tuple[int, int] | None) -> None:
        inp = {**inp0, "record": record.hex(), "case": label}
        ck.case((toks, label, record), feature=label.split(":")[0])
        with DecodeLog() as dl:
            try:
                nav = EBCDIC().nav(schema, record)
            except BaseException as ex:  # noqa: BLE001
                ck.fail("nav-not-lazy", f"building the navigator decodes/raises ({type(ex).__name__}) [{label}]", inp)
                return
            if dl.log:
                ck.fail("nav-not-lazy", f"building the navigator decoded byte ranges {dl.log[:3]} [{label}]", inp)
        values = {p: impl_value(nav, p) for p in paths}
        ck.oracle_evaluations += len(paths)
        # ---- coherence laws on the real navigator
        for p in paths:
            try:
                n = nav_path(nav, p)
                whole = n.value()
            except BaseException:  # noqa: BLE001
                continue
            if isinstance(whole, dict):
                for k in n.schema.properties:  # type: ignore[attr-defined]
                    part = impl_value(nav, p + (k,)) if (p + (k,)) in spec else show_part(n, k)
                    if part != show_tree(whole[k]):
                        ck.fail("name-commutes", f"value({path_token(p)})[{k!r}] != value({path_token(p)}.name({k!r})) [{label}]", {**inp, "path": path_token(p)})
                        break
            elif isinstance(whole, list):
                for i in range(len(whole)):
                    if impl_value(nav, p + (i,)) != show_tree(whole[i]):
                        ck.fail("index-commutes", f"value({path_token(p)})[{i}] != value({path_token(p)}.index({i})) [{label}]", {**inp, "path": path_token(p)})
                        break
                for beyond in (len(whole), len(whole) + 1, len(whole) + 2 + len(p) * 3):
                    try:
                        n.index(beyond)
                        ck.fail("index-bound", f"{path_token(p)}.index({beyond}) is accepted ({len(whole)} occurrences)", {**inp, "path": path_token(p)})
                    except IndexError:
                        pass
                    except BaseException as ex:  # noqa: BLE001
                        ck.fail("index-bound", f"{path_token(p)}.index({beyond}) raises {type(ex).__name__}, not IndexError", {**inp, "path": path_token(p)})
                # the occurrences share ONE set of locations (those of occurrence 0), reached with an offset: the bytes and the value
                # found that way are those found by navigating
                try:
                    loc = n.location
                    item0, size = loc.items, loc.item_size
                    for i in range(len(whole)):
                        ck.oracle_evaluations += 1
                        it = n.index(i)
                        if item0.raw(nav.instance, i * size) != it.raw() or it.raw() != n.raw()[i * size:(i + 1) * size]:
                            ck.fail("raw-slice", f"occurrence {i} of {path_token(p)}: the bytes at offset {i * size} from occurrence 0 are not the "
                                                 f"bytes of {path_token(p)}.index({i}) [{label}]", {**inp, "path": path_token(p)})
                            break
                        for k, floc in getattr(item0, "properties", {}).items():
                            if floc.raw(nav.instance, i * size) != it.name(k).raw():
                                ck.fail("raw-slice", f"occurrence {i} of {path_token(p)}, member {k}: the bytes at offset {i * size} from occurrence 0 "
                                                     f"are not the bytes reached by navigating [{label}]", {**inp, "path": path_token(p)})
                                break
                except (AttributeError, IndexError):
                    pass
        # raw of a child is the corresponding slice of the parent's raw
        for p in paths:
            if p and p[:-1] in spec:
                try:
                    c, par = nav_path(nav, p), nav_path(nav, p[:-1])
                    a, b = c.location.start - par.location.start, c.location.end - par.location.start
                    if a < 0 or c.raw() != par.raw()[a:b]:
                        ck.fail("raw-slice", f"raw({path_token(p)}) is not a slice of its parent's raw bytes [{label}]", {**inp, "path": path_token(p)})
                except BaseException:  # noqa: BLE001
                    pass
        # ---- laziness: one decode per elementary read, of exactly that item's bytes; a corrupt field hurts only itself
        for p in leaves[:12]:
            with DecodeLog() as dl:
                v = impl_value(nav, p)
            s, e = spec[p]
            if dl.log != [(s, e - s)]:
                ck.fail("touches-other-bytes", f"reading {path_token(p)} decoded {dl.log} instead of [({s}, {e - s})] [{label}]", {**inp, "path": path_token(p)})
            if corrupted is not None:
                overlaps = not (e <= corrupted[0] or corrupted[1] <= s)
                # (a field under a REDEFINES may hold another alternative's bytes and be unreadable in the valid record already:
                # only a field that WAS readable must stay readable)
                if not overlaps and v.startswith("err:") and not str(base_values.get(p, "")).startswith("err:"):
                    ck.fail("corrupt-field-spreads", f"field {path_token(p)} cannot be read ({v}) because bytes {corrupted} of another field are invalid", {**inp, "path": path_token(p)})
                if not overlaps and v != base_values.get(p):
                    ck.fail("corrupt-field-spreads", f"field {path_token(p)} reads {v} instead of {base_values.get(p)} when another field is corrupted", {**inp, "path": path_token(p)})
        # ---- model
        if in_model:
            sel = paths if len(paths) <= 40 else rng.sample(paths, 40)
            for p in sel:
                reqs.append(f"VAL value - {table} {hexs(bytes(record))} {path_token(p)} {toks}")
                impl.append(values[p])
                inputs.append({**inp, "path": path_token(p)})
            for p in leaves[:6]:
                reqs.append(f"VAL touched - {path_token(p)} {toks}")
                impl.append(f"{spec[p][0]}:{spec[p][1] - spec[p][0]}")
                inputs.append({**inp, "path": path_token(p), "what": "touched"})
        return values

    def show_part(n: Any, k: str) -> str:
        try:
            return show_tree(n.name(k).value())
        except BaseException as ex:  # noqa: BLE001
            return "err:" + enum(ex)

    base_values: dict = {}
    base_values = run_record(bytes(rec), "valid", None) or {}
    # Row.values() is the top-level values in schema order
    try:
        wb = COBOL_EBCDIC_File("x.data", file_object=io.BytesIO(bytes(rec)), lrecl=len(rec) or 1)
        sheet = wb.sheet("").set_schema(schema)
        for row in sheet.rows():
            want = [show_tree(row.name(k).value()) for k in schema.properties]  # type: ignore[attr-defined]
            got = [show_tree(v) for v in row.values()]
            ck.oracle_evaluations += 1
            if got != want:
                ck.fail("row-values", "Row.values() is not the list of the top-level properties' values", inp0)
            break
    except BaseException as ex:  # noqa: BLE001
        if not any(v.startswith("err:") for v in base_values.values()):
            ck.fail("row-values", f"Row.values() raises {type(ex).__name__} on a record whose fields all decode", inp0)
    # corrupt each corruptible elementary field in turn (fault enumeration)
    by_unique = {n.unique: n for n in preorder(root)}
    n_corrupt = 0
    for p in leaves:
        node = by_unique[p[-1]]
        bad = corrupt_bytes(node)
        if bad is None or node.redefines is not None:
            continue
        s, e = spec[p]
        if e - s != len(bad):
            continue
        r2 = bytearray(rec)
        r2[s:e] = bad
        run_record(bytes(r2), f"corrupt:{path_token(p)}", (s, e))
        n_corrupt += 1
        if n_corrupt >= 4:
            break


def other_navigators(ck: Check, n: int) -> None:
    """DNav over JSON documents and WBNav over rows: same commutation laws (oracle only)."""
    from stingray.schema_instance import Delimited, SchemaMaker, WBUnpacker

    rng = ck.rng
    for _ in range(n):
        # leaves may carry the "conversion" keyword (as COBOL-derived and hand-written schemas do): a part of the value is still
        # the value of the part -- same object, same type
        conv = (lambda: {"conversion": "decimal"}) if rng.random() < 0.5 else (lambda: {})
        doc = {"type": "object", "properties": {
            "a": {"type": "string", **conv()},
            "b": {"type": "array", "items": {"type": "object", "properties": {"c": {"type": "integer"}, "d": {"type": "string", **conv()}}}},
            "e": {"type": "object", "properties": {"f": {"type": "number"}}}}}
        inst = {"a": f"{rng.randint(0, 99)}.{rng.randint(0, 99):02d}", "b": [{"c": rng.randint(0, 9), "d": f"0.{rng.randint(10, 99)}"} for _ in range(rng.randint(0, 3))],
                "e": {"f": 1.5}}
        schema = SchemaMaker.from_json(doc)
        dunp = Delimited()   # the navigators keep only a weak reference to their unpacker
        nav = dunp.nav(schema, inst)  # type: ignore[arg-type]
        ck.oracle_evaluations += 1
        ck.case(("dnav", str(inst)), feature="DNav")
        same = lambda x, y: type(x) is type(y) and x == y  # noqa: E731
        ok = same(nav.name("a").value(), nav.value()["a"]) and same(nav.name("e").name("f").value(), nav.value()["e"]["f"])
        for i in range(len(inst["b"])):
            ok = (ok and same(nav.name("b").index(i).value(), nav.value()["b"][i]) and nav.name("b").index(i).name("c").value() == inst["b"][i]["c"]
                  and same(nav.name("b").index(i).name("d").value(), nav.value()["b"][i]["d"]))
        try:
            nav.name("b").index(len(inst["b"]))
            ok = False
        except IndexError:
            pass
        if not ok:
            ck.fail("dnav-commutes", "DNav: a part of the value is not the value of the part", {"instance": inst})
        # a document that lacks a property the schema names: selecting it from the whole value fails, so must navigating to it
        lacking = {k: v for k, v in inst.items() if k != rng.choice(["a", "e"])}
        if lacking["b"]:
            lacking["b"] = [dict(x) for x in lacking["b"]]
            del lacking["b"][-1]["d"]
        nav2 = dunp.nav(schema, lacking)  # type: ignore[arg-type]

        def outcome(fn: Any) -> Any:
            try:
                return ("value", fn())
            except Exception as ex:  # noqa: BLE001
                return ("error", type(ex).__name__)

        probes = [("a", lambda: nav2.name("a").value(), lambda: nav2.value()["a"]), ("e", lambda: nav2.name("e").value(), lambda: nav2.value()["e"])]
        if lacking["b"]:
            j = len(lacking["b"]) - 1
            probes.append((f"b[{j}].d", lambda: nav2.name("b").index(j).name("d").value(), lambda: nav2.value()["b"][j]["d"]))
        for label2, part, whole2 in probes:
            ck.oracle_evaluations += 1
            try:
                sel = ("value", {"a": lambda: lacking["a"], "e": lambda: lacking["e"]}.get(label2, lambda: lacking["b"][-1]["d"])())
            except KeyError:
                sel = ("error", "KeyError")
            got = outcome(part)
            if sel[0] == "error" and got[0] != "error":
                ck.fail("dnav-commutes", f"DNav: the document lacks {label2}; navigating to it yields {got[1]!r} instead of failing "
                                         f"(selecting it from the document fails with KeyError)", {"instance": lacking, "path": label2})
        # workbook rows: properties listed in any order, each with an explicit position (any permutation, so position 0 need not
        # come first), or none at all (then the listing order is the column order)
        ncol = rng.randint(1, 5)
        cols = [f"h{j}" for j in range(ncol)]
        listing = rng.sample(cols, ncol)
        explicit = rng.random() < 0.7
        pos = {c: (cols.index(c) if explicit else listing.index(c)) for c in cols}
        wdoc = {"type": "object", "properties": {c: ({"type": "string", "position": pos[c]} if explicit else {"type": "string"}) for c in listing}}
        wschema = SchemaMaker.from_json(wdoc)
        rowv = [f"c{j}-{rng.randint(0, 99)}" for j in range(ncol)]
        wunp = WBUnpacker()
        wnav = wunp.nav(wschema, rowv)  # type: ignore[arg-type]
        winp = {"schema": wdoc, "row": rowv}
        ck.case(("wbnav", tuple(listing), explicit, tuple(rowv)), feature="WBNav/" + ("explicit-positions" if explicit else "listing-order"))
        ck.oracle_evaluations += 1
        try:
            got = [wnav.name(c).value() for c in listing]
            if got != [rowv[pos[c]] for c in listing]:
                ck.fail("wbnav-commutes", f"WBNav: name(c).value() is not the cell at c's position: {got} for row {rowv}, listing {listing}", winp)
            import tempfile as _tf
            from pathlib import Path as _P
            from stingray.workbook import CSV_Workbook
            with _tf.TemporaryDirectory(prefix="verif_c10_") as td:
                f = _P(td) / "r.csv"
                f.write_text(",".join(rowv) + "\n")
                with CSV_Workbook(f) as wb:
                    sheet = wb.sheet("").set_schema(wschema)   # rows refer to their sheet weakly: keep it
                    rows = list(sheet.rows())
                    vals = rows[0].values()
                    by_name = [rows[0].name(c).value() for c in listing]
                if list(vals) != [rowv[pos[c]] for c in listing] or by_name != list(vals):
                    ck.fail("wbnav-commutes", f"Row.values() = {list(vals)} is not the properties' cells in schema order for row {rowv}, "
                                              f"listing {listing}", winp)
        except BaseException as ex:  # noqa: BLE001
            ck.fail("wbnav-commutes", f"WBNav / Row.values() raises {err_enum(ex)}", winp)


def known_shape_d17(ck: Check) -> None:
    """a DEPENDING ON table inside a repeated group: value() of the whole works, index() into the group loses the counter"""
    from stingray.schema_instance import EBCDIC

    text = ("       01 R.\n           05 N PIC 9.\n           05 G OCCURS 2 TIMES.\n               10 A PIC X.\n"
            "               10 T PIC XX OCCURS 0 TO 3 TIMES DEPENDING ON N.\n           05 Z PIC X.\n")
    rec = ("2" + "a" + "bbcc" + "d" + "eeff" + "z").encode("cp037")
    ck.case("D17-shape", feature="known-shape/odo-inside-repeated-group")
    ck.oracle_evaluations += 1
    try:
        schema = load(build_docs(text)[0])
        unp = EBCDIC()
        nav = unp.nav(schema, rec)
        whole = nav.value()
        part = nav.name("G").index(1).name("A").value()
        if part != whole["G"][1]["A"]:
            ck.fail("D17:index-into-repeated-group-with-odo", "value of the part differs from the part of the value", {"copybook": text})
    except BaseException as ex:  # noqa: BLE001
        ck.fail("D17:index-into-repeated-group-with-odo",
                f"index() into a repeated group that contains a DEPENDING ON table raises {type(ex).__name__}({ex}) although value() of the whole works",
                {"copybook": text, "record": rec.hex()})


def held_navigators(ck: Check, n: int) -> None:
    """ONE unpacker, one schema, several records with different DEPENDING ON counts, the navigator of an earlier record HELD while the
    later ones are navigated: afterwards the held navigator still obeys the laws -- a part of its value is the value of the part,
    the raw bytes of a child are that slice of ITS record -- for the items after the table and their REDEFINES alternatives."""
    import io

    from stingray.cobol_parser import schema_iter
    from stingray.schema_instance import EBCDIC, SchemaMaker, TextInstance, TextUnpacker

    rng = ck.rng
    for k in range(n):
        w, cw = rng.randint(1, 4), rng.randint(2, 6)
        text = ("       01  REC.\n           05  CT PIC 9.\n"
                f"           05  TBL OCCURS 0 TO 7 TIMES DEPENDING ON CT PIC X({w}).\n"
                f"           05  CODE-X PIC X({cw}).\n           05  CODE-9 REDEFINES CODE-X PIC 9({cw}).\n           05  TAIL PIC X(2).\n")
        schema = SchemaMaker.from_json(next(iter(schema_iter(io.StringIO(text)))))
        text_mode = k % 3 == 2
        unp = TextUnpacker() if text_mode else EBCDIC()
        counts = [rng.randint(0, 7) for _ in range(3)]
        if len(set(counts)) == 1:
            counts[1] = (counts[1] + 3) % 8
        recs_t = [str(c) + "".join(chr(65 + (j + i) % 26) * w for j in range(c)) + "".join(str((i * 3 + j) % 10) for j in range(cw)) + "zy"
                  for i, c in enumerate(counts)]
        recs = [TextInstance(r) if text_mode else r.encode("cp037") for r in recs_t]
        inp = {"copybook": text, "counts": counts, "records": recs_t, "reader": "text" if text_mode else "EBCDIC"}
        ck.case(("held", text, tuple(counts), text_mode), feature="held-navigator/same-unpacker")
        ck.oracle_evaluations += 1
        try:
            navs = []
            first_seen = []
            for r in recs:
                nv = unp.nav(schema, r)  # type: ignore[arg-type]
                navs.append(nv)
                first_seen.append({f: (show_tree(nv.name(f).value()), nv.name(f).raw()) for f in ("CODE-X", "CODE-9", "TAIL")})
            for i, (nv, r, c) in enumerate(zip(navs, recs, counts)):
                at = 1 + c * w
                want_raw = {"CODE-X": r[at:at + cw], "CODE-9": r[at:at + cw], "TAIL": r[at + cw:at + cw + 2]}
                whole = nv.value()
                for f in ("CODE-X", "CODE-9", "TAIL"):
                    part, raw = show_tree(nv.name(f).value()), nv.name(f).raw()
                    if raw != want_raw[f]:
                        ck.fail("raw-slice", f"record {i} (count {c}), navigator held while records with other counts were navigated through the same "
                                             f"unpacker: raw({f}) is {raw!r}, its record holds {want_raw[f]!r} there", {**inp, "path": f})
                        raise StopIteration
                    if part != show_tree(whole[f]) or (part, raw) != first_seen[i][f]:
                        ck.fail("name-commutes", f"record {i} (count {c}), navigator held while records with other counts were navigated through the "
                                                 f"same unpacker: value({f}) is {part}, value()[{f!r}] is {show_tree(whole[f])}, it was "
                                                 f"{first_seen[i][f][0]} when first read", {**inp, "path": f})
                        raise StopIteration
        except StopIteration:
            pass
        except BaseException as ex:  # noqa: BLE001
            ck.fail("name-commutes", f"held navigators through one unpacker: {type(ex).__name__}: {str(ex)[:100]}", inp)


def explore(ck: Check, n_trees: int) -> None:
    rng = ck.rng
    reqs: list[str] = [tables_line()]
    impl: list[str] = ["ok"]
    inputs: list[Any] = ["tables"]
    for i in range(n_trees):
        tg = TreeGen(rng, max_depth=rng.choice([2, 3]), max_width=rng.choice([3, 4]), redefines_in_occurs=True)
        root = tg.record()
        for f in tg.features:
            ck.histogram["tree/" + f] += 1
        one_tree(ck, root, reqs, impl, inputs)
        if i < 2:
            ck.sample({"copybook": render([root])})
    other_navigators(ck, 20)
    held_navigators(ck, 15 if n_trees < 200 else 120)
    known_shape_d17(ck)
    model = ck.driver.run(reqs)
    ck.compare_streams("NDNav values / decoded ranges vs Layout.valueAt∘Decode.unpack / touched", inputs, impl, model)


def run(ck: Check) -> int:
    ck.rule = ("generated copybooks (groups, OCCURS, REDEFINES incl. inside repeated groups) x one record of valid encodings x up to four "
               "records in which one elementary field is overwritten with undecodable bytes (fault enumeration over fields); the value at every "
               "navigation path, the commutation laws, raw slices, index bounds, Row.values(), and the byte ranges each elementary read decodes; "
               "DNav and WBNav on JSON documents and rows; distinct by (tree, record)")
    ck.trusted_extra = ["the elementary decoder is the C02 model (Decode.unpack), composed with Layout.valueAt in the driver",
                        "Python dict/list values are compared through a canonical dump; Decimal by (sign, digits, exponent)"]
    ck.assumptions = ["REDEFINES participants are not elementary OCCURS items (D34)", "DEPENDING ON tables are not inside repeated groups (D17)"]
    ck.prove(["Stingray.Props.C10", "Stingray.Tie.C01"])
    explore(ck, 60 if ck.tier == "quick" else 1500)
    return ck.finish(search=lambda c: explore(c, 300))


def replay(ck: Check, data: dict[str, Any]) -> int:
    return run(ck)
