"""
C03 -- format transparency: the same table reads the same from every file format.

Proof:           lean/Stingray/Props/C03.lean (format_transparent, observe_is_the_table, observe_sheets) -- the facade part
Tie:             as C09 (pinned facade sources) + correspondence of the heading-row observation with Facade.observe
Oracle:          generated tables written as CSV, TAB, NDJSON, XLSX, ODS, Numbers, fixed-width text and EBCDIC (with a generated
                 copybook), each read through open_workbook (suffix only) or the COBOL classes with the same sequence of calls; every
                 format's observation must equal the table and hence each other's
PARTIAL:         that each third-party reader delivers the cells that were written is observed here, not proved.
"""
from __future__ import annotations

import io
import tempfile
from pathlib import Path
from typing import Any

from harness.common import Check, err_enum
from harness.facade_common import (copybook_for, delivered_token, gen_table, obs_token, observe_heading, observe_with_schema,
                                   write_csv, write_ebcdic, write_fixed_text, write_ndjson, write_numbers, write_ods, write_xlsx)


def explore(ck: Check, n_tables: int, slow_formats: bool) -> None:
    import stingray.estruct as E
    import stingray.implementations  # noqa: F401
    from stingray.cobol_parser import schema_iter
    from stingray.schema_instance import SchemaMaker
    from stingray.workbook import COBOL_EBCDIC_File, COBOL_Text_File, CSV_Workbook, open_workbook

    rng = ck.rng
    reqs: list[str] = []
    impl: list[str] = []
    inputs: list[Any] = []
    with tempfile.TemporaryDirectory(prefix="verif_c03_") as td:
        tdp = Path(td)
        for i in range(n_tables):
            fixed = i % 3 == 0
            # a few long tables: the fixed-width copies are larger than any reader's buffer (32768 bytes for the EBCDIC default)
            big = i % 20 == 3
            fixed = fixed or big
            # headers that need cleaning, some with a distinct twin that IS the cleaned spelling ("unit cost" / "unit_cost")
            t = gen_table(rng, fixed_safe=fixed, n_rows=rng.randint(700, 1500) if big else rng.randint(0, 8),
                          cleaning_headers=(not fixed and i % 2 == 1))
            if big:
                # long enough for every fixed-width copy to exceed 40000 bytes whatever the cell widths turn out to be
                import math
                reclen = sum(max(len(r[c]) for r in t[1:]) for c in range(len(t[0])))
                need = math.ceil(40000 / max(1, reclen)) + 7
                k = 0
                while len(t) - 1 < need:
                    t.append(list(t[1 + k % 700]))
                    k += 1
            # one table with a very long row: its variable-length EBCDIC copies carry a record of more than 32764 bytes
            wide = i == 9
            if wide:
                if len(t[0]) < 2:      # (a spreadsheet cell holds at most 32767 characters: the long row is spread over several columns)
                    t = gen_table(rng, fixed_safe=True, n_cols=rng.randint(2, 6), n_rows=rng.randint(0, 8))
                while len(t) < 4:
                    t.append([f"c{len(t)}{c}" for c in range(len(t[0]))])
                per = 33000 // len(t[0]) + 1
                t[2] = [(cell + "w" * per)[:per] for cell in t[2]]
            narrow = fixed and i % 6 == 0 and len(t) > 1
            if narrow:
                for r in t[1:]:
                    r[0] = r[0][:1]
            second = gen_table(rng, n_rows=rng.randint(1, 3))
            inp = {"table": t if not big else t[:3] + [["...", f"{len(t) - 1} rows"]]}
            want = [("", t[0], t[1:])]
            ck.case(str(t), feature="table/" + ("long" if big else "wide-row" if wide else "fixed-safe" if fixed else "free-text"))
            results: dict[str, Any] = {}

            def run(label: str, fn) -> None:
                ck.oracle_evaluations += 1
                try:
                    results[label] = fn()
                except BaseException as ex:  # noqa: BLE001
                    results[label] = err_enum(ex) + ": " + str(ex)[:60]

            # --- delimited and spreadsheet formats: suffix selects the reader, heading row is the schema
            stem = f"t{i}" if i % 4 else f"t{i}.v2"      # a dotted stem: the LAST suffix alone selects the reader
            p = tdp / f"{stem}.csv"
            write_csv(p, t)
            run("csv", lambda: observe_heading(open_workbook(p)))
            p_tab = tdp / f"t{i}.tab"
            write_csv(p_tab, t, delimiter="\t")
            run("tab", lambda: observe_heading(CSV_Workbook(p_tab, delimiter="\t")))
            p_x = tdp / f"{stem}.xlsx"
            write_xlsx(p_x, {"First": t, "Second": second})
            run("xlsx", lambda: observe_heading(open_workbook(p_x)))
            if (slow_formats or i % 8 == 0) and not wide:
                p_o = tdp / f"t{i}.ods"
                write_ods(p_o, {"First": t, "Second": second} if len(t) > 0 else {"First": t})
                run("ods", lambda: observe_heading(open_workbook(p_o)))
                p_n = tdp / f"t{i}.numbers"
                write_numbers(p_n, {"First": t, "Second": second})
                run("numbers", lambda: observe_heading(open_workbook(p_n), canon_sheet=lambda s: s.split("::")[0]))
            # --- NDJSON: rows as objects, schema supplied
            p_j = tdp / f"{stem}.ndjson"
            write_ndjson(p_j, t)
            jschema = SchemaMaker.from_json({"type": "object", "properties": {h: {"type": "string"} for h in t[0]}})
            run("ndjson", lambda: observe_with_schema(open_workbook(p_j), jschema, t[0]))
            # --- fixed-width text and EBCDIC, described by a generated copybook
            if fixed:
                widths = [max([len(r[c]) for r in t[1:]] + [1]) + rng.randint(0, 2) for c in range(len(t[0]))]
                if narrow:
                    widths[0] = 1              # a column exactly one character wide (PIC X(1))
                try:
                    cschema = SchemaMaker.from_json(next(iter(schema_iter(io.StringIO(copybook_for(t, widths))))))
                except BaseException as ex:  # noqa: BLE001
                    ck.fail("format:copybook", f"the copybook describing the fixed-width copies cannot be loaded: {err_enum(ex)}: {str(ex)[:80]}",
                            {**inp, "copybook": copybook_for(t, widths)})
                    continue
                p_f = tdp / f"t{i}.txt"
                write_fixed_text(p_f, t, widths)
                run("fixed-text", lambda: observe_with_schema(COBOL_Text_File(p_f), cschema, t[0], strip=True))
                p_e = tdp / f"t{i}.ebc"
                write_ebcdic(p_e, t, widths)
                run("ebcdic", lambda: observe_with_schema(COBOL_EBCDIC_File(p_e, recfm_class=E.RECFM_F, lrecl=sum(widths)), cschema, t[0], strip=True))
                # variable-length records (RECFM V: a length word before each; VB: blocks of them), same rows
                from harness.c05 import write_v, write_vb
                erecs = ["".join(c.ljust(w) for c, w in zip(row, widths)).encode("cp037") for row in t[1:]]
                p_v = tdp / f"t{i}.v.ebc"
                p_v.write_bytes(write_v(erecs))
                run("ebcdic-recfm-v", lambda: observe_with_schema(COBOL_EBCDIC_File(p_v, recfm_class=E.RECFM_V, lrecl=1), cschema, t[0], strip=True))
                p_vb = tdp / f"t{i}.vb.ebc"
                p_vb.write_bytes(write_vb([erecs[k:k + 3] for k in range(0, len(erecs), 3)] if not wide else [[r] for r in erecs]))
                if not wide:    # a block's own length word is 16 bits too: no block of more than 32760 bytes
                    run("ebcdic-recfm-vb", lambda: observe_with_schema(COBOL_EBCDIC_File(p_vb, recfm_class=E.RECFM_VB, lrecl=1), cschema, t[0], strip=True))
                # the copybook as a file with a further, unrelated 01 record after it, loaded the documented way (COBOLSchemaLoader.load:
                # "the first 01 level record is returned")
                p_c = tdp / "table.cpy"       # the SAME path for every table: each table's copybook replaces the previous one
                p_c.write_text(copybook_for(t, widths) + "       01  TRAILER-REC.\n           05  TRAILER-COUNT PIC 9(7).\n           05  TRAILER-NOTE PIC X(3).\n")
                try:
                    from stingray.workbook import COBOLSchemaLoader
                    lschema = SchemaMaker.from_json(COBOLSchemaLoader(p_c).load())
                    run("fixed-text-loaded-copybook", lambda: observe_with_schema(COBOL_Text_File(p_f), lschema, t[0], strip=True))
                except BaseException as ex:  # noqa: BLE001
                    results["fixed-text-loaded-copybook"] = f"{err_enum(ex)}: {str(ex)[:80]}"
                # fixed-length records WITHOUT an explicit lrecl: the record length comes from the copybook
                run("ebcdic-recfm-f-no-lrecl", lambda: observe_with_schema(COBOL_EBCDIC_File(p_e, recfm_class=E.RECFM_F), cschema, t[0], strip=True))
                # the default record reader (no RECFM given): the record length comes from the schema
                if not wide:   # the default reader looks at no more than 32768 bytes at a time (the z/OS maximum record is 32760)
                  run("ebcdic-default", lambda: observe_with_schema(COBOL_EBCDIC_File(p_e), cschema, t[0], strip=True))
            # ---- oracle: every format shows the table
            for label, got in results.items():
                multi = label in ("xlsx", "ods", "numbers")
                w = [("First", t[0], t[1:]), ("Second", second[0], second[1:])] if multi else want
                if label == "ods" and len(t) == 0:
                    w = [("First", [], [])]
                if isinstance(got, str):
                    ck.fail(f"format:{label}", f"{label}: reading raises {got}", {**inp, "format": label})
                elif [(a, b, c) for a, b, c in got] != w:
                    diff = ("sheet names" if [g[0] for g in got] != [x[0] for x in w] else "header" if [g[1] for g in got] != [x[1] for x in w]
                            else "row count/order" if [len(g[2]) for g in got] != [len(x[2]) for x in w] else "cell text")
                    ck.fail(f"format:{label}", f"{label}: the {diff} read back differ from the table written", {**inp, "format": label,
                                                                                                               "read": str(got)[:300]})
            # ---- model tie: the heading-row observation of the CSV file is Facade.observe of the table
            if big:
                pass
            elif not isinstance(results.get("csv"), str):
                reqs.append(f"FAC observe {delivered_token([('', t)])}")
                impl.append(obs_token(results["csv"]))
                inputs.append(inp)
            if not big and not isinstance(results.get("xlsx"), str):
                reqs.append(f"FAC observe {delivered_token([('First', t), ('Second', second)])}")
                impl.append(obs_token(results["xlsx"]))
                inputs.append({**inp, "second": second})
            for label in results:
                ck.histogram["format/" + label] += 1
            if i < 1:
                ck.sample({"table": t[:3], "formats": sorted(results)})
    model = ck.driver.run(reqs)
    ck.compare_streams("observation of real files vs Facade.observe", inputs, impl, model)


def run(ck: Check) -> int:
    ck.rule = ("tables of 1-6 distinct headers x 0-8 rows of non-empty text cells (quotes, delimiters, leading zeros, non-ASCII; every third "
               "table restricted to fixed-width-safe text) written in every format the sandbox can write: CSV, TAB, NDJSON, XLSX (two sheets), "
               "fixed-width text and EBCDIC with a generated copybook; ODS and Numbers for every table in the thorough tier and every eighth "
               "in the quick tier (slow writers); XLS cannot be written offline; distinct by table")
    ck.trusted_extra = ["HYPOTHESIS, observed not proved: csv, json, openpyxl, pyexcel-ods3, numbers-parser deliver the cells that were written",
                        "Numbers names its sheets 'sheet::table'; the table part is dropped for comparison",
                        "fixed-width formats pad cells with blanks; trailing blanks are stripped for comparison"]
    ck.assumptions = ["cells are non-empty text (spreadsheets do not distinguish '' from absent)", "header names are distinct"]
    ck.prove(["Stingray.Props.C03", "Stingray.Tie.C09"])
    explore(ck, 40 if ck.tier == "quick" else 300, slow_formats=(ck.tier == "thorough"))
    return ck.finish(search=lambda c: explore(c, 80, True))


def replay(ck: Check, data: dict[str, Any]) -> int:
    return run(ck)
