"""python -m harness.seed_own [seed]: the own property's quick check under VERIF_SEED=<seed> (default 1) for every kept change:
apply seeded/<id>/patch.diff to /repo, run ./check <property> --seed <seed>, undo (git -C /repo checkout -- .); writes
seeded/_own_check_seed<seed>.json.  Never run anything else against /repo while this runs."""
import json, os, subprocess, glob, shutil, sys
from pathlib import Path
SEED = sys.argv[1] if len(sys.argv) > 1 else '1'
out = {}
for f in sorted(glob.glob('/verif/seeded/*/meta.json')):
    d = json.load(open(f)); sid = d['seed']; pid = d['breaks_property']
    rc = subprocess.run(['git', '-C', '/repo', 'apply', f'/verif/seeded/{sid}/patch.diff']).returncode
    if rc != 0:
        out[sid] = 'patch-does-not-apply'; continue
    try:
        for p in Path('/repo/src').rglob('__pycache__'):
            shutil.rmtree(p, ignore_errors=True)
        r = subprocess.run(['/verif/check', pid, '--tier', 'quick', '--seed', SEED], cwd='/verif', env={**os.environ, 'VERIF_EVIDENCE_DIR': '/var/tmp/verif_seeded_evidence'}, capture_output=True, text=True, timeout=3000)
        line = next((l for l in (r.stdout + r.stderr).splitlines() if l.startswith('VIOLATION')), '')
        out[sid] = ('tie' if 'no-failing-input-found' in line else 'input') if (r.returncode == 1 and line) else f'MISS(exit {r.returncode})'
    finally:
        subprocess.run(['git', '-C', '/repo', 'checkout', '--', '.'])
    print(sid, out[sid], flush=True)
json.dump(out, open('/verif/seeded/_own_check_seed' + SEED + '.json', 'w'), indent=1)
print({k: sum(1 for v in out.values() if v == k) for k in set(out.values())})
