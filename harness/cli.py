"""Command line: ./check Cxx [--tier quick|thorough] [--replay file]"""
from __future__ import annotations

import argparse
import importlib
import json
import signal
import sys
import traceback

from harness.common import VERIF, Check, HarnessError, seed_default, tier_default


def main() -> int:
    ap = argparse.ArgumentParser()
    ap.add_argument("property")
    ap.add_argument("--tier", default=None, choices=["quick", "thorough"])
    ap.add_argument("--replay", default=None)
    ap.add_argument("--seed", type=int, default=None)
    a = ap.parse_args()
    pid = a.property.upper()
    tier = a.tier or tier_default()
    seed = a.seed if a.seed is not None else seed_default()
    try:
        mod = importlib.import_module(f"harness.{pid.lower()}")
    except ModuleNotFoundError:
        print(f"no check for {pid}", file=sys.stderr)
        return 2
    ck = Check(pid, tier, seed)

    class Stuck(BaseException):
        pass

    def on_alarm(signum, frame):  # noqa: ARG001
        import traceback as _tb
        stack = _tb.extract_stack(frame)
        from harness.common import REPO as _REPO
        inside = [f for f in stack if str(f.filename).startswith(str(_REPO))]
        ex = Stuck(f"no result after {limit} s; the interpreter was executing "
                   + (f"{inside[-1].filename.split('/src/')[-1]}:{inside[-1].lineno} ({inside[-1].name})" if inside else "harness code"))
        ex.stack = stack            # type: ignore[attr-defined]
        ex.inside = bool(inside)    # type: ignore[attr-defined]
        if inside and not stuck:
            stuck.append(ex)
        signal.alarm(15)            # harness wrappers catch BaseException around library calls: keep raising until the run ends
        raise ex

    stuck: list[BaseException] = []

    # a run that normally takes a minute (quick) or a quarter of an hour (thorough) and has not ended after `limit` seconds is stuck:
    # if the interpreter is then executing library code, the library loops (or became unusably slow) on an input it used to handle
    limit = int(__import__("os").environ.get("VERIF_LIMIT", 1500 if tier == "quick" else 7200))
    signal.signal(signal.SIGALRM, on_alarm)
    signal.alarm(limit)
    try:
        if a.replay:
            p = (VERIF / a.replay) if not a.replay.startswith("/") else a.replay
            return mod.replay(ck, json.loads(open(p).read()))
        rc = mod.run(ck)
        signal.alarm(0)
        if stuck and rc == 0:
            raise stuck[0]
        if rc == 0:
            print(f"OK property={pid} tier={tier} seed={seed} obligations={sum(o['ok'] for o in ck.obligations)}/{len(ck.obligations)} "
                  f"cases={ck.evaluations} oracle={ck.oracle_evaluations} wall={__import__('time').time()-ck.t0:.1f}s")
        return rc
    except HarnessError as ex:
        print(f"HARNESS-ERROR property={pid}: {ex}", file=sys.stderr)
        return 2
    except Stuck as ex:
        signal.alarm(0)
        if getattr(ex, "inside", False):
            ck.fail("library-does-not-terminate", str(ex), {"stack": traceback.format_list(ex.stack)[-10:]})  # type: ignore[attr-defined]
            try:
                return ck.finish()
            except BaseException:  # noqa: BLE001
                print(f"VIOLATION property={pid} replay=replays/{pid}_{tier}_{seed}.json")
                return 1
        print(f"HARNESS-ERROR property={pid}: {ex}", file=sys.stderr)
        return 2
    except BaseException as ex:  # noqa: BLE001
        if isinstance(ex, (KeyboardInterrupt, SystemExit)):
            raise
        tb = traceback.extract_tb(ex.__traceback__)
        from harness.common import REPO
        inside = [f for f in tb if str(f.filename).startswith(str(REPO))]
        if inside and not a.replay:
            # The exception was raised INSIDE the library, on a path where the harness (which passes on the unchanged tree) expects
            # it to succeed: the property is no longer shown to hold and the run that was to show it cannot complete.  Reported as a
            # violation with the call that failed as the replay -- not as a harness error.
            where = inside[-1]
            traceback.print_exc()
            ck.fail(f"library-raised:{type(ex).__name__}",
                    f"{type(ex).__name__}: {str(ex)[:200]} raised in {where.filename.split('/src/')[-1]}:{where.lineno} ({where.name}) while the "
                    f"check was setting up an input the unchanged library accepts",
                    {"traceback": traceback.format_exception(ex)[-12:]})
            try:
                return ck.finish()
            except BaseException:  # noqa: BLE001
                print(f"VIOLATION property={pid} replay=replays/{pid}_{tier}_{seed}.json")
                return 1
        traceback.print_exc()
        return 2


if __name__ == "__main__":
    sys.exit(main())
