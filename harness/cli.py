"""Command line: ./check Cxx [--tier quick|thorough] [--replay file]"""
from __future__ import annotations

import argparse
import importlib
import json
import signal
import sys
import traceback

from harness.common import VERIF, Check, HarnessError, seed_default, tier_default


def main() -> int:
    ap = argparse.ArgumentParser()
    ap.add_argument("property")
    ap.add_argument("--tier", default=None, choices=["quick", "thorough"])
    ap.add_argument("--replay", default=None)
    ap.add_argument("--seed", type=int, default=None)
    a = ap.parse_args()
    pid = a.property.upper()
    tier = a.tier or tier_default()
    seed = a.seed if a.seed is not None else seed_default()
    try:
        mod = importlib.import_module(f"harness.{pid.lower()}")
    except ModuleNotFoundError:
        print(f"no check for {pid}", file=sys.stderr)
        return 2
    ck = Check(pid, tier, seed)
    try:
        if a.replay:
            p = (VERIF / a.replay) if not a.replay.startswith("/") else a.replay
            return mod.replay(ck, json.loads(open(p).read()))
        rc = mod.run(ck)
        if rc == 0:
            print(f"OK property={pid} tier={tier} seed={seed} obligations={sum(o['ok'] for o in ck.obligations)}/{len(ck.obligations)} "
                  f"cases={ck.evaluations} oracle={ck.oracle_evaluations} wall={__import__('time').time()-ck.t0:.1f}s")
        return rc
    except HarnessError as ex:
        print(f"HARNESS-ERROR property={pid}: {ex}", file=sys.stderr)
        return 2
    except Exception:  # noqa: BLE001
        traceback.print_exc()
        return 2


if __name__ == "__main__":
    sys.exit(main())
