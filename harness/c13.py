"""
C13 -- PICTURE strings: strict acceptance, repeat-count equivalence, one interpretation.

Proof:           lean/Stingray/Props/C13.lean (scan_denotes, scan_size, denotes_unique, scan_size_denoted,
                 scan_case_insensitive, classification_counterexample)
Tie:             lean/Stingray/Tie/C13.lean (both scanners run the same pinned alternation; pinned loop bodies)
Correspondence:  estruct.Representation.normalize_picture/parse and cobol_parser.normalize_picture vs the Lean `scan`,
                 EXHAUSTIVE over the 22-symbol picture alphabet to length 4 (quick) / 5 (thorough)
Oracle:          an independent picture grammar (decode_common.spec_positions) vs both scanners
"""
from __future__ import annotations

import itertools
from typing import Any

from harness.common import Check, err_enum
from harness.decode_common import cps, enum, spec_positions

ALPHABET = list("S+-DBCR$,/*V.AX9Z0P()3")
FOREIGN = ["#", "a9"[0], "x", "s", "v", "é", "ſ", "K", "९", "٣", "_", "'", "=", "Ｘ", "\x00", "z"]


def impl_decoder(s: str) -> str:
    import stingray.estruct as E

    try:
        E.Representation.normalize_picture(s)
        r = E.Representation.parse("PIC " + s)
    except BaseException as ex:  # noqa: BLE001
        return enum(ex)
    g = r.digit_groups
    return (f"ok {r.picture_size} {g[0] or '-'} {g[1] or '-'} {g[2] or '-'} {g[3] or '-'} "
            f"{str(bool(r.zoned_decimal)).lower()}")


def impl_generator(s: str) -> tuple[str, Any]:
    import stingray.cobol_parser as CP

    try:
        elts = CP.normalize_picture(s)
    except BaseException as ex:  # noqa: BLE001
        return enum(ex), None
    return "ok", [{k: v.upper() for k, v in e.items()} for e in elts]


def gen_numeric(s: str) -> str:
    import stingray.cobol_parser as CP

    node = CP.DDE("05", "A", clauses={"name": "A", "picture": s})
    t = CP.JSONSchemaMaker().json_type(node)
    return str(t.get("conversion") == "decimal").lower()


def gen_numeric_ext(s: str) -> str:
    import stingray.cobol_parser as CP

    node = CP.DDE("05", "A", clauses={"name": "A", "picture": s})
    t = CP.JSONSchemaMakerExtendedVocabulary().json_type(node)
    return str(t.get("type") == "decimal").lower()


def decoder_elements(s: str) -> Any:
    import stingray.estruct as E

    return E.Representation.normalize_picture(s)


def check_one(ck: Check, s: str, dec: str, gen: tuple[str, Any]) -> None:
    ck.oracle_evaluations += 1
    spec = spec_positions(s)
    inp = {"picture": s}
    if dec.startswith("ok"):
        size = int(dec.split()[1])
        if spec is None:
            ck.fail("accepts-malformed", f"decoder sizes malformed picture {s!r} as {size}", inp)
        elif size != spec:
            ck.fail("wrong-size", f"decoder sizes {s!r} as {size}, it denotes {spec} positions", inp)
    elif dec != "ValueError":
        ck.fail("decoder-raises-" + dec, f"decoder raises {dec} (not ValueError) on {s!r}", inp)
    if gen[0] == "ok":
        if spec is None:
            ck.fail("accepts-malformed", f"generator accepts malformed picture {s!r}", inp)
    elif gen[0] != "ValueError":
        ck.fail("generator-raises-" + gen[0], f"generator raises {gen[0]} (not ValueError) on {s!r}", inp)
    if (gen[0] == "ok") != dec.startswith("ok"):
        ck.fail("one-interpretation", f"generator says {gen[0]}, decoder says {dec.split()[0]} on {s!r}", inp)
    elif gen[0] == "ok":
        if gen[1] != decoder_elements(s):
            ck.fail("one-interpretation", f"generator and decoder decompose {s!r} differently", inp)
        gnum = gen_numeric(s)
        dnum = dec.split()[-1]
        try:
            xnum = gen_numeric_ext(s)
        except BaseException as ex:  # noqa: BLE001
            xnum = err_enum(ex)
        if xnum != gnum:
            ck.fail("classification:extended-vocabulary", f"the extended-vocabulary generator classifies {s!r} numeric={xnum}, the standard one "
                                                          f"numeric={gnum}", inp)
        if int(dec.split()[1]) == 0:
            # a picture of zero positions never reaches classification: sizing refuses it with ValueError
            from harness.decode_common import impl_calcsize
            if impl_calcsize("DISPLAY", s) != "ValueError":
                ck.fail("zero-size-accepted", f"picture {s!r} of zero positions is sized", inp)
        elif gnum != dnum:
            u = s.upper()
            signs = sum(u.count(c) for c in ("S", "+", "-", "DB", "CR"))
            points = u.count("V") + u.count(".")
            if signs > 1 or points > 1:
                sig = "classification:repeated-sign-or-point"
            elif "(" in s and dnum == "true" and gnum == "false":
                sig = "classification:repeat-count"
            else:
                sig = "classification:other"
            ck.fail(sig, f"generator declares {s!r} {'numeric' if gnum == 'true' else 'text'}, decoder delivers "
                         f"{'Decimal' if dnum == 'true' else 'str'}", inp)


def explore(ck: Check, max_len: int, n_random: int) -> None:
    rng = ck.rng
    strings: list[str] = ["9#9", "99(3)9", "9(0)", "x(5)", "X(5)", "S9(5)V99", "s9(5)v99", "9(3)", "999", "ſ9", "SV9", "P",
                          "B(3)", "ZZ9.99", "$$$,$$9.99CR", "+999", "9(0003)", "9(3", "9)3(", "()", "DB", "D", "CR9",
                          # a zero repeat count next to elements that do occupy positions
                          "9(3)V9(0)", "9(0)V9(2)", "X(0)X", "XX(00)", "S9(0)", "$9(0)", "-X(0)", "x(0).9(1)", "9(2)9(0)9", "A(0)9(4)"]
    for L in range(1, max_len + 1):
        for tup in itertools.product(ALPHABET, repeat=L):
            strings.append("".join(tup))
    ck.exhaustive_parts.append(f"all {sum(len(ALPHABET)**L for L in range(1, max_len+1))} strings over the 22-symbol picture alphabet, length 1..{max_len}")
    # random longer valid-ish pictures, with one foreign character injected at every position
    for _ in range(n_random):
        parts = []
        for _ in range(rng.randint(1, 6)):
            c = rng.choice("AX9Z0" * 3 + "S+-$,/*BV.")
            parts.append(c + (f"({rng.choice([1, 2, 3, 5, 10, 18, 31, rng.randint(1, 40)] + ([0, 0] if rng.random() < 0.15 else []))})" if c in "AX9Z0" and rng.random() < 0.5 else ""))
        p = "".join(parts)
        strings.append(p)
        strings.append(p.lower())
        f = rng.choice(FOREIGN)
        for i in range(len(p) + 1):
            strings.append(p[:i] + f + p[i:])
    dec = [impl_decoder(s) for s in strings]
    gen = [impl_generator(s) for s in strings]
    model = ck.driver.run([f"DEC scan {cps(s)}" for s in strings])
    gnum_model = ck.driver.run([f"DEC gennumeric {cps(s)}" for s in strings])
    for s, d, g in zip(strings, dec, gen):
        ok = d.startswith("ok")
        ck.case(s, nontrivial=True, feature="accepted" if ok else "rejected")
        check_one(ck, s, d, g)
    ck.compare_streams("estruct scanner vs Picture.scan", strings, dec, model)
    gstat = [g[0] if g[0] != "ok" else "ok" for g in gen]
    mstat = [m.split()[0] for m in model]
    ck.compare_streams("cobol_parser scanner vs Picture.scan (acceptance)", strings, gstat, mstat)
    gn = [gen_numeric(s) if g[0] == "ok" else "-" for s, g in zip(strings, gen)]
    gm = [m2 if g[0] == "ok" else "-" for m2, g in zip(gnum_model, gen)]
    ck.compare_streams("json_type classification vs Picture.genNumeric", strings, gn, gm)
    # letter case: the lower-cased picture must give the same verdict and summary
    for s, d in zip(strings[: 5000 if max_len <= 4 else 50000], dec):
        if s != s.lower():
            ck.oracle_evaluations += 1
            if impl_decoder(s.lower()) != d:
                ck.fail("letter-case", f"{s.lower()!r} and {s!r} are interpreted differently", {"picture": s.lower()})
    for s in ("S9(5)V99", "9#9", "x(5)"):
        ck.sample({"picture": s, "decoder": impl_decoder(s), "generator": impl_generator(s)[0]})


def run(ck: Check) -> int:
    ck.rule = ("every string over the picture alphabet {S + - D B C R $ , / * V . A X 9 Z 0 P ( ) 3} up to the length bound, plus "
               "random longer pictures, their lower-case forms, and one foreign character (letters, look-alikes such as U+017F, "
               "non-ASCII digits, punctuation) injected at every position; each string goes through both real scanners and the Lean "
               "scanner; distinct by string")
    ck.trusted_extra = ["Python's re.finditer on the pinned alternation is modelled by Picture.tok/scanGo (validated exhaustively on "
                        "short strings); Representation.parse's clause regex is exercised with the bare format 'PIC <picture>'"]
    ck.assumptions = ["a picture contains no white space (white space ends the PICTURE token)"]
    ck.prove(["Stingray.Props.C13", "Stingray.Tie.C13"])
    if ck.tier == "quick":
        explore(ck, 4, 300)
    else:
        explore(ck, 5, 5000)
    return ck.finish(search=lambda c: explore(c, 4, 3000))


def replay(ck: Check, data: dict[str, Any]) -> int:
    s = data.get("input", {}).get("picture")
    if s is None:
        return run(ck)
    check_one(ck, s, impl_decoder(s), impl_generator(s))
    for f in ck.failures:
        print("FAILS:", f["what"])
    open_sigs = {k["signature"] for k in ck.known if k.get("status") == "open"}
    bad = [f for f in ck.failures if f["signature"] not in open_sigs]
    if not bad:
        print("holds on the replayed input (or only a listed known finding)")
    return 1 if bad else 0
