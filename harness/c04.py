"""
C04 -- a field's width is what its decoder needs, and is the same wherever reported.

Proof:           lean/Stingray/Props/C04.lean (width_display_packed_float, packed_stored_length, width_binary_partial,
                 width_binary_counterexample(_V), struct_agrees_display, struct_agrees_binary_partial)
Tie:             lean/Stingray/Tie/C04.lean (calcsize ladder, decoder's binary ladder and Struct.struct_format extracted and
                 proved equal to the model for every USAGE spelling and every parsed picture)
Correspondence:  EXHAUSTIVE over {13 usages} x {signed, unsigned} x {(m, n): 1 <= m+n <= 18} x {EBCDIC, Struct, Text}, at every
                 site a width is visible (calcsize, minLength/maxLength, location in a record, record length, each reader)
Oracle:          the COBOL storage rule (spec_width) and `unpack(fmt, bytes(width))` not refusing the width
"""
from __future__ import annotations

import io
from typing import Any

from harness.common import Check
from harness.decode_common import FAM, USAGES, cps, enum, impl_calcsize, impl_unpack, picture, spec_positions


def spec_width(fam: str, s: bool, m: int, n: int) -> int:
    if fam == "display":
        return (1 if s else 0) + m + n
    if fam == "packed":
        return (m + n + 2) // 2
    if fam == "binary":
        d = m + n
        return 2 if d <= 4 else 4 if d <= 9 else 8
    return 4 if fam == "float4" else 8


_OTHER: list[Any] = []


def _other_layout() -> Any:
    if not _OTHER:
        from stingray.cobol_parser import schema_iter
        from stingray.schema_instance import SchemaMaker
        _OTHER.append(SchemaMaker.from_json(next(iter(schema_iter(io.StringIO("       01  HDR.\n           05  H-TYPE PIC X(1).\n           05  H-N PIC 9(22).\n"))))))
    return _OTHER[0]


def sites(usage: str, pic: str) -> dict[str, str]:
    """Every place the width of `05 F PIC pic USAGE usage` is visible."""
    from stingray.cobol_parser import schema_iter
    from stingray.schema_instance import EBCDIC, LocationMaker, SchemaMaker, Struct, TextUnpacker
    from stingray.workbook import COBOL_EBCDIC_File

    out: dict[str, str] = {"calcsize": impl_calcsize(usage, pic)}
    text = f"       01  REC.\n           05  F PIC {pic} USAGE {usage}.\n"
    try:
        doc = next(iter(schema_iter(io.StringIO(text))))
        f = doc["properties"]["F"]
        out["maxLength"] = str(f["maxLength"])
        out["minLength"] = str(f["minLength"])
        schema = SchemaMaker.from_json(doc)
        loc = LocationMaker(EBCDIC(), schema).from_schema()
        floc = loc.properties["F"]  # type: ignore[attr-defined]
        out["location"] = str(floc.end - floc.start)
        out["record"] = str(loc.end)
        wb = COBOL_EBCDIC_File("x.data", file_object=io.BytesIO(b""))
        sheet = wb.sheet("").set_schema(schema)
        out["lrecl"] = str(sheet.lrecl)  # type: ignore[attr-defined]
        # the same file described by two layouts one after the other (header / detail): the length is that of the layout bound NOW
        wb2 = COBOL_EBCDIC_File("x.data", file_object=io.BytesIO(b""))
        sheet2 = wb2.sheet("")
        sheet2.set_schema(_other_layout())
        sheet2.set_schema(schema)
        out["lrecl-rebound"] = str(sheet2.lrecl)  # type: ignore[attr-defined]
        out["lrecl-second-sheet"] = str(wb2.sheet("").set_schema(schema).lrecl)  # type: ignore[attr-defined]
        atomic = schema.properties["F"]  # type: ignore[attr-defined]
        out["EBCDIC"] = str(EBCDIC().calcsize(atomic))
    except BaseException as ex:  # noqa: BLE001
        out["schema"] = enum(ex)
        return out
    for name, unp in (("Struct", Struct()), ("Text", TextUnpacker())):
        try:
            out[name] = str(unp.calcsize(atomic))
        except BaseException as ex:  # noqa: BLE001
            out[name] = enum(ex)
    # the readers without the schema's maxLength (hand-written schema carrying only the cobol text)
    bare = SchemaMaker.from_json({"type": "string", "cobol": f"05 F PIC {pic} USAGE {usage}"})
    for name, unp in (("Struct-bare", Struct()), ("Text-bare", TextUnpacker())):
        try:
            out[name] = str(unp.calcsize(bare))
        except BaseException as ex:  # noqa: BLE001
            out[name] = enum(ex)
    return out


def makers_for_other_readers(ck: Check) -> None:
    """JSONSchemaMaker(unpacker class) writes minLength / maxLength with THAT reader's size function: the schema made for the native
    or the text reader states the width that reader reports for the same node (or both refuse the item)"""
    from stingray.cobol_parser import JSONSchemaMaker, dde_sentences, reference_format, structure
    from stingray.schema_instance import EBCDIC, SchemaMaker, Struct, TextUnpacker

    items = [("9(3)", "DISPLAY"), ("S9(5)V99", "DISPLAY"), ("X(7)", "DISPLAY"), ("9(4)", "COMP"), ("9(9)", "BINARY"), ("9(12)", "COMP-4"),
             ("S9(5)", "COMP-3"), ("9(6)", "PACKED-DECIMAL"), ("S9(4)", "COMP"), ("S9(9)", "BINARY")]
    for cls in (EBCDIC, Struct, TextUnpacker):
        for pic, usage in items:
            text = f"       01  REC.\n           05  F PIC {pic} USAGE {usage}.\n"
            inp = {"copybook": text, "maker_for": cls.__name__}
            ck.case(("maker", cls.__name__, pic, usage), feature=f"maker-for/{cls.__name__}")
            ck.oracle_evaluations += 1
            tree = structure(dde_sentences(reference_format(io.StringIO(text))))[0]
            try:
                doc = JSONSchemaMaker(cls).jsonschema(tree)
                declared = str(doc["properties"]["F"]["maxLength"])
                if doc["properties"]["F"]["minLength"] != doc["properties"]["F"]["maxLength"]:
                    declared = "min!=max"
            except BaseException as ex:  # noqa: BLE001
                declared = "refused:" + enum(ex)
            try:
                bare = SchemaMaker.from_json({"type": "string", "cobol": f"05 F PIC {pic} USAGE {usage}"})
                own = str(cls().calcsize(bare))
            except BaseException as ex:  # noqa: BLE001
                own = "refused:" + enum(ex)
            if declared != own:
                ck.fail("maker-for-reader", f"JSONSchemaMaker({cls.__name__}) on PIC {pic} USAGE {usage} declares length {declared}; "
                                            f"{cls.__name__}().calcsize of the same item is {own}", inp)


def records_with_shared_names(ck: Check, n: int) -> None:
    """whole records: several groups whose items reuse the same data names (CODE OF HDR / CODE OF TRL) with different pictures and
    usages, some under OCCURS; the width of every item's location, under every reader, is its own calcsize, and the record is their sum"""
    from stingray.cobol_parser import schema_iter
    from stingray.schema_instance import EBCDIC, LocationMaker, SchemaMaker, Struct, TextUnpacker

    rng = ck.rng
    pool = ["CODE", "AMOUNT", "SEQ", "FLAG", "QTY"]
    for k in range(n):
        display_only = k % 3 == 2
        lines = ["       01  REC."]
        want: list[tuple[str, str, int, int, str]] = []   # group, name, occurs, width, clause
        for g in range(rng.randint(2, 4)):
            occ = rng.choice([1, 1, 2, 3])
            lines.append(f"           05  GRP-{g}" + (f" OCCURS {occ} TIMES" if occ > 1 else "") + ".")
            for name in rng.sample(pool, rng.randint(1, 4)):
                if display_only or rng.random() < 0.4:
                    u, s, m, nn = "DISPLAY", rng.random() < 0.3, rng.randint(1, 9), rng.choice([0, 0, 2])
                else:
                    u = rng.choice([x for x in USAGES if FAM[x] in ("packed", "binary")])
                    s, m, nn = (FAM[u] == "packed" and rng.random() < 0.5), rng.randint(1, 9), (rng.choice([0, 2]) if FAM[u] == "packed" else 0)
                if rng.random() < 0.3 and u == "DISPLAY":
                    pic = f"X({rng.randint(1, 12)})"
                    w = int(pic[2:-1])
                else:
                    pic = picture(s, m, nn, style=k % 3)
                    w = spec_width(FAM[u], s, m, nn)
                clause = f"PIC {pic}" + (f" USAGE {u}" if u != "DISPLAY" or rng.random() < 0.3 else "")
                lines.append(f"               10  {name} {clause}.")
                want.append((f"GRP-{g}", name, occ, w, clause))
        text = "\n".join(lines) + "\n"
        inp = {"copybook": text}
        ck.case(("record", text), feature="record/shared-names" + ("/display-only" if display_only else ""))
        try:
            schema = SchemaMaker.from_json(next(iter(schema_iter(io.StringIO(text)))))
        except BaseException as ex:  # noqa: BLE001
            ck.fail("record-schema", f"record with item names reused in different groups cannot be loaded: {enum(ex)}", inp)
            continue
        readers = [("EBCDIC", EBCDIC())] + ([("Struct", Struct()), ("Text", TextUnpacker())] if display_only else [])
        for rname, unp in readers:
            ck.oracle_evaluations += 1
            try:
                loc = LocationMaker(unp, schema).from_schema()
                total = 0
                for grp, name, occ, w, clause in want:
                    gl = loc.properties[grp]  # type: ignore[attr-defined]
                    one = gl.items if occ > 1 else gl
                    fl = one.properties[name]
                    got = fl.end - fl.start
                    total += w * occ
                    if got != w:
                        ck.fail("record-item-width", f"{rname}: {name} OF {grp} ({clause}) is located in {got} bytes; its size function says {w}",
                                {**inp, "reader": rname, "item": f"{name} OF {grp}"})
                        break
                else:
                    if loc.end != total:
                        ck.fail("record-item-width", f"{rname}: record length {loc.end}, the items' sizes sum to {total}", {**inp, "reader": rname})
            except BaseException as ex:  # noqa: BLE001
                ck.fail("record-item-width", f"{rname}: locating the items of the record raises {enum(ex)}", {**inp, "reader": rname})


def binding_histories(ck: Check, n: int, reqs: list[str], impl: list[str], inputs: list[Any]) -> None:
    """One open EBCDIC workbook, a history of set_schema calls with layouts of different lengths (on the same sheet or on new
    sheets): the record length each sheet then works with is compared with Facade.EFile.run, and (oracle) is the explicit lrecl when
    one was given, else the length of the layout bound by THAT call."""
    from stingray.cobol_parser import schema_iter
    from stingray.schema_instance import SchemaMaker
    from stingray.workbook import COBOL_EBCDIC_File

    rng = ck.rng
    layouts: dict[int, Any] = {}

    def layout(w: int) -> Any:
        if w not in layouts:
            a = rng.randint(1, max(1, w - 1)) if w > 1 else 1
            text = (f"       01  L{w}.\n           05  A PIC X({a}).\n" + (f"           05  B PIC X({w - a}).\n" if w - a else ""))
            layouts[w] = SchemaMaker.from_json(next(iter(schema_iter(io.StringIO(text)))))
        return layouts[w]

    for _ in range(n):
        given = rng.choice([None, None, None, 0, 80, rng.randint(1, 40)])
        lens = [rng.randint(1, 40) for _ in range(rng.randint(1, 5))]
        ck.case(("bindings", given, tuple(lens)), feature="set_schema-history/" + ("explicit-lrecl" if given else "computed"))
        ck.oracle_evaluations += 1
        inp = {"lrecl_given": given, "layout_lengths_bound_in_turn": lens}
        try:
            wb = COBOL_EBCDIC_File("x.data", file_object=io.BytesIO(b""), lrecl=given)
            sheet = wb.sheet("")
            got = []
            for k, w in enumerate(lens):
                if k and rng.random() < 0.4:
                    sheet = wb.sheet("")
                sheet.set_schema(layout(w))
                got.append(sheet.lrecl)   # type: ignore[attr-defined]
            out = ",".join(map(str, got))
        except BaseException as ex:  # noqa: BLE001
            out = enum(ex)
            got = []
        want = [given if given else w for w in lens]
        if got != want:
            ck.fail("display-sites", f"layouts of {lens} bytes bound in turn on one EBCDIC workbook (lrecl given: {given}): the sheets work with "
                                     f"record lengths {out}, the layouts' / the given length are {want}", inp)
        reqs.append(f"FAC lrecl {given if given is not None else '-'} {','.join(map(str, lens))}")
        impl.append(out)
        inputs.append(inp)


def explore(ck: Check, full_sites: bool) -> None:
    rng = ck.rng
    reqs: list[str] = []
    impl: list[str] = []
    inputs: list[Any] = []
    points = [(u, s, m, n) for u in USAGES for s in (False, True) for m in range(0, 19) for n in range(0, 19) if 1 <= m + n <= 18]
    ck.exhaustive_parts.append(f"all {len(points)} points {{13 USAGE spellings}} x {{signed, unsigned}} x {{(m,n): 1<=m+n<=18}}")
    for idx, (u, s, m, n) in enumerate(points):
        fam = FAM[u]
        pic = picture(s, m, n, style=idx % 3)
        inp = {"usage": u, "picture": pic}
        want = spec_width(fam, s, m, n)
        st = sites(u, pic) if (full_sites or idx % 3 == 0 or fam == "binary") else {"calcsize": impl_calcsize(u, pic)}
        ck.case((u, pic), feature=f"{fam}/{'signed' if s else 'unsigned'}")
        ck.oracle_evaluations += 1
        # model: three size functions
        reqs += [f"DEC calcsize {u} {cps(pic)}", f"DEC struct {u} {cps(pic)}", f"DEC text {cps(pic)}"]
        impl += [st["calcsize"], st.get("Struct-bare", "?"), st.get("Text-bare", "?")]
        inputs += [inp, inp, inp]
        # oracle 1: the layout width is the storage rule's
        binary_sig = None
        if fam == "binary":
            d = m + n
            lad = lambda k: 2 if k < 5 else 4 if k < 10 else 8  # noqa: E731
            if s and lad(d + 1) != lad(d):
                binary_sig = "binary-width:S-counted-as-digit"
            elif n > 0 and lad(m) != lad(d):
                binary_sig = "binary-width:fraction-digits"
        if st["calcsize"] != str(want):
            ck.fail(binary_sig if (binary_sig and binary_sig.startswith("binary-width:S")) else f"{fam}-width",
                    f"USAGE {u} PIC {pic} is laid out in {st['calcsize']} bytes; the storage rule says {want}", inp)
        # oracle 2: every site reports the same number
        same = {k: v for k, v in st.items() if k in ("maxLength", "minLength", "location", "record", "lrecl", "lrecl-rebound", "lrecl-second-sheet", "EBCDIC")}
        bad = {k: v for k, v in same.items() if v != st["calcsize"]}
        if "schema" in st:
            ck.fail(f"{fam}-schema", f"USAGE {u} PIC {pic}: schema cannot be built/loaded: {st['schema']}", inp)
        elif bad:
            ck.fail(f"{fam}-sites", f"USAGE {u} PIC {pic}: calcsize={st['calcsize']} but {bad}", inp)
        if "Struct" in st and fam in ("display", "binary", "float4", "float8") and st["Struct"] != st["calcsize"]:
            ck.fail(binary_sig or f"{fam}-struct-reader", f"USAGE {u} PIC {pic}: EBCDIC reader {st['calcsize']} bytes, native reader {st['Struct']}", inp)
        if "Text" in st and st["Text"] != st["calcsize"]:
            ck.fail(f"{fam}-text-reader", f"USAGE {u} PIC {pic}: EBCDIC reader {st['calcsize']} bytes, text reader {st['Text']}", inp)
        # the same readers on a schema node that carries only the COBOL text (no maxLength: e.g. the items of an elementary OCCURS)
        if fam == "display" and st.get("Text-bare", st["calcsize"]) != st["calcsize"]:
            ck.fail(f"{fam}-text-reader", f"USAGE {u} PIC {pic}: EBCDIC reader {st['calcsize']} bytes, text reader without maxLength "
                                          f"{st['Text-bare']}", inp)
        if fam == "display" and st.get("Struct-bare", st["calcsize"]) != st["calcsize"]:
            ck.fail(f"{fam}-struct-reader", f"USAGE {u} PIC {pic}: EBCDIC reader {st['calcsize']} bytes, native reader without maxLength "
                                            f"{st['Struct-bare']}", inp)
        # oracle 3: the item's own decoder accepts a field of that width
        if st["calcsize"].isdigit() and fam in ("display", "packed", "binary"):
            out = impl_unpack(u, pic, bytes(int(st["calcsize"])))
            if out.split()[0] not in ("dec", "int", "str"):
                ck.fail(binary_sig or f"{fam}-decoder-refuses-width",
                        f"USAGE {u} PIC {pic}: laid out in {st['calcsize']} bytes, which its decoder refuses ({out})", inp)
    # alphanumeric / edited pictures: one byte per character position
    edited = ["X", "X(10)", "A(3)", "XXBXX", "ZZ9.99", "$$$,$$9.99", "99/99/99", "+999", "999-", "9(3)CR", "9(3)DB", "***9", "Z(5)9",
              "0009", "S9(3)V99", "x(7)", "$9,999.99", "A(2)X(2)9(2)"]
    for pic in edited + [p.lower() for p in edited[:6]]:
        want = spec_positions(pic)
        got = impl_calcsize("DISPLAY", pic)
        ck.case(("edited", pic), feature="display/edited")
        ck.oracle_evaluations += 1
        reqs.append(f"DEC calcsize DISPLAY {cps(pic)}")
        impl.append(got)
        inputs.append({"usage": "DISPLAY", "picture": pic})
        if got != str(want):
            ck.fail("display-width", f"PIC {pic} laid out in {got} bytes, it denotes {want} positions", {"usage": "DISPLAY", "picture": pic})
    # a data name that contains a USAGE word must not change the item's usage (D35)
    for name in ("COMP-TOTAL", "BINARY-FLAG", "TOTAL-COMP", "DISPLAY-NAME", "PACKED-DECIMAL-AMT", "MYCOMP-3", "COMPUTATIONAL-X", "A-COMP-3-B"):
        for pic, usage in (("9(3)", None), ("X(5)", None), ("S9(4)", "COMP-3")):
            fmt = f"05 {name} PIC {pic}" + (f" USAGE {usage}" if usage else "")
            got = impl_calcsize("", "", fmt=fmt)
            want_u = usage or "DISPLAY"
            want = impl_calcsize(want_u, pic)
            ck.case(("name", fmt), feature="usage-word-in-name")
            ck.oracle_evaluations += 1
            reqs.append(f"DEC calcsize {want_u} {cps(pic)}")
            impl.append(got)
            inputs.append({"format": fmt})
            if got != want:
                ck.fail("usage-word-in-data-name", f"calcsize({fmt!r}) = {got}; as 'USAGE {want_u} PIC {pic}' it is {want}", {"format": fmt})
    # clauses around the PICTURE / USAGE: a VALUE clause before the USAGE (clause order is free), and a VALUE literal that happens to
    # be (or contain) a USAGE word -- the width is that of the item's own picture and usage
    value_forms = [("PIC {p} VALUE ZERO USAGE {u}", None), ("PIC {p} VALUE 0 {u}", None), ("VALUE ZERO {u} PIC {p}", None),
                   ("PIC {p} USAGE {u} VALUE IS ZERO", None), ("VALUE IS 1 PIC {p} USAGE IS {u}", None)]
    for form, _ in value_forms:
        for u, pic in (("COMP-3", "S9(5)V99"), ("BINARY", "9(4)"), ("COMP", "9(9)"), ("PACKED-DECIMAL", "9(6)"), ("DISPLAY", "9(3)")):
            fmt = "05 F " + form.format(p=pic, u=u)
            got = impl_calcsize("", "", fmt=fmt)
            want = impl_calcsize(u, pic)
            ck.case(("value-order", fmt), feature="value-clause-before-usage")
            ck.oracle_evaluations += 1
            if got != want:
                ck.fail("value-clause-order", f"calcsize({fmt!r}) = {got}; the item's own USAGE {u} PIC {pic} is {want} bytes", {"format": fmt})
    for lit in ("'COMP'", "'COMP-3'", '"BINARY"', "'USAGE COMP-3'", "'A COMP-3 B'", "'PACKED-DECIMAL'", "COMP", "'DISPLAY'"):
        for pic, usage in (("X(12)", None), ("X(12)", "DISPLAY"), ("S9(5)", "COMP-3")):
            fmt = f"05 F PIC {pic}" + (f" USAGE {usage}" if usage else "") + (" VALUE IS " if len(lit) % 2 else " VALUE ") + lit
            got = impl_calcsize("", "", fmt=fmt)
            want = impl_calcsize(usage or "DISPLAY", pic)
            ck.case(("value-literal", fmt), feature="value-literal-is-usage-word")
            ck.oracle_evaluations += 1
            if got != want:
                ck.fail("value-literal-taken-as-usage", f"calcsize({fmt!r}) = {got}; the item's own picture and usage give {want} bytes",
                        {"format": fmt})
    records_with_shared_names(ck, 40 if full_sites else 12)
    makers_for_other_readers(ck)
    binding_histories(ck, 200 if full_sites else 40, reqs, impl, inputs)
    model = ck.driver.run(reqs)
    # Struct-bare / Text-bare were only computed where sites() ran
    keep = [i for i, v in enumerate(impl) if v != "?"]
    ck.compare_streams("size functions vs Decode.calcsize/structCalcsize/textCalcsize", [inputs[i] for i in keep],
                       [impl[i] for i in keep], [model[i] for i in keep])
    ck.sample({"usage": "COMP-3", "picture": "9(4)", "sites": sites("COMP-3", "9(4)")})
    ck.sample({"usage": "COMP", "picture": "S9(4)", "sites": sites("COMP", "S9(4)")})


def run(ck: Check) -> int:
    ck.rule = ("the complete space {13 USAGE spellings} x {signed, unsigned} x {(m, n) : 1 <= m+n <= 18}, pictures spelled three ways; for each "
               "point the width at every site (estruct.calcsize, schema min/maxLength, AtomicLocation, record end, lrecl, EBCDIC/Struct/Text "
               "readers) is compared with the COBOL storage rule, with each other and with the Lean model; plus edited pictures and data names "
               "containing USAGE words; distinct by (usage, picture)")
    ck.trusted_extra = ["struct.calcsize of a single code h/i/q/f/d/<n>s is 2/4/8/4/8/n"]
    ck.assumptions = ["Text reader is compared for sizes only; COMP-1/COMP-2 are sized but never decoded by the code"]
    ck.prove(["Stingray.Props.C04", "Stingray.Tie.C04"])
    explore(ck, full_sites=(ck.tier == "thorough"))
    return ck.finish(search=lambda c: explore(c, full_sites=True))


def replay(ck: Check, data: dict[str, Any]) -> int:
    inp = data.get("input", {})
    if "picture" in inp:
        print(sites(inp["usage"], inp["picture"]))
    return run(ck)
