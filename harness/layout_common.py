"""Shared implementation-side helpers for the layout family (C01, C06, C10)."""
from __future__ import annotations

import io
from typing import Any, Optional

from harness.common import err_enum
from harness.gen_copybook import Node, Path, preorder


def build_docs(text: str) -> list[dict[str, Any]]:
    from stingray.cobol_parser import schema_iter

    return list(schema_iter(io.StringIO(text)))


def load(doc: dict[str, Any]):
    from stingray.schema_instance import SchemaMaker

    return SchemaMaker.from_json(doc)


def dump_doc(doc: dict[str, Any]) -> str:
    """Canonical dump of a generated JSON Schema, same syntax as Drv.Lay.dump."""
    import stingray.estruct as E

    if doc.get("oneOf"):
        return f"oneOf({doc.get('$anchor', '-')})[{','.join(dump_doc(a) for a in doc['oneOf'])}]"
    if "$ref" in doc:
        return f"ref({doc['$ref'][1:]})"
    t = doc.get("type")
    if t == "array":
        count = str(doc["maxItems"]) if "maxItems" in doc else "@" + doc["maxItemsDependsOn"]["$ref"][1:]
        return f"array({doc.get('$anchor', '-')},{count})<{dump_doc(doc['items'])}>"
    if t == "object":
        return f"object({doc.get('$anchor', '-')}){{{','.join(k + '=' + dump_doc(v) for k, v in doc['properties'].items())}}}"
    size = doc.get("maxLength")
    if size is None:
        size = E.calcsize(doc["cobol"])
    return f"atomic({doc.get('$anchor', '-')},{size})"


def nav_path(nav: Any, path: Path) -> Any:
    for step in path:
        nav = nav.index(step) if isinstance(step, int) else nav.name(step)
    return nav


def impl_range(nav: Any, path: Path) -> str:
    try:
        n = nav_path(nav, path)
        return f"{n.location.start}:{n.location.end}"
    except BaseException as ex:  # noqa: BLE001
        return "none:" + err_enum(ex)


def held_ranges(nav: Any, paths: list[Path]) -> dict[Path, str]:
    """the byte range of every path when navigators are HELD: per depth, first every occurrence navigator of every table is taken
    from the one table navigator, then the named members are reached through them, and only when all navigators exist are their
    locations read (a client that builds `items = [tbl.index(i) for i in …]` before looking at any of them)"""
    memo: dict[Path, Any] = {(): nav}
    order = sorted((p for p in paths if p), key=lambda p: (len(p), 0 if isinstance(p[-1], int) else 1))
    for p in order:
        parent = memo.get(p[:-1])
        if parent is None or isinstance(parent, str):
            continue
        try:
            memo[p] = parent.index(p[-1]) if isinstance(p[-1], int) else parent.name(p[-1])
        except BaseException as ex:  # noqa: BLE001
            memo[p] = "none:" + err_enum(ex)
    out: dict[Path, str] = {}
    for p in paths:
        n = memo.get(p)
        if n is None:
            continue
        if isinstance(n, str):
            out[p] = n
            continue
        try:
            out[p] = f"{n.location.start}:{n.location.end}"
        except BaseException as ex:  # noqa: BLE001
            out[p] = "none:" + err_enum(ex)
    return out


def pattern_record(n: int) -> bytes:
    """position-revealing bytes: no two windows of length >= 2 starting at different offsets are equal (n < 62000)"""
    return bytes(((i * 7) ^ (i >> 8) * 13 + (i >> 3)) & 0xFF for i in range(n))


def extra_paths(root: Node, spec: dict[Path, tuple[int, int]], rng, k: int = 6) -> list[Path]:
    """a few paths the rule does not define: unknown names, names one level too deep, indices at and beyond the count"""
    out: list[Path] = []
    keys = list(spec)
    for _ in range(k):
        p = rng.choice(keys)
        r = rng.random()
        if r < 0.3:
            out.append(p + ("NO-SUCH-NAME",))
        elif r < 0.6:
            out.append(p + (rng.choice([0, 1, 4, 99]),))
        else:
            other = rng.choice(keys)
            if other:
                out.append(p + (other[-1],))
    # every repeated item: the index at its count, one beyond and far beyond (all must be refused)
    arrays = [p for p in keys if p + (0,) in spec]
    for p in arrays[:4]:
        n = 0
        while p + (n,) in spec:
            n += 1
        out += [p + (n,), p + (n + 1,), p + (n + rng.randint(2, 40),)]
    return [p for p in out if p not in spec]
