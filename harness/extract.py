"""
extract.py -- regenerate lean/Stingray/Extracted/*.lean from the working tree of the repository.

A small Python-AST -> Lean translator.  It recognises a fixed subset (integer/string literals,
names bound through an environment, + - * // %, comparisons and chains, `in (literal tuple/set)`,
conditional expressions, if/elif/else ladders ending in return/raise, `len(x)`, literal
tuples/sets/dicts).  Anything else raises `Unavailable`; the item is then emitted as a stub whose
`Tie` theorem cannot be proved, so the obligation counts as not discharged.

The generated files contain *what the code says now*; `Stingray/Tie/Cxx.lean` proves that this is
(semantically) what the model assumes.
"""
from __future__ import annotations

import ast
from pathlib import Path
from typing import Any, Callable, Optional


class Unavailable(Exception):
    pass


# ------------------------------------------------------------------------------------------
# expression translator
# ------------------------------------------------------------------------------------------

BINOPS = {ast.Add: "+", ast.Sub: "-", ast.Mult: "*", ast.FloorDiv: "/", ast.Mod: "%"}
CMPOPS = {ast.Lt: "<", ast.LtE: "≤", ast.Gt: ">", ast.GtE: "≥", ast.Eq: "=", ast.NotEq: "≠"}


def lean_str(s: str) -> str:
    out = ['"']
    for ch in s:
        if ch == '"':
            out.append('\\"')
        elif ch == "\\":
            out.append("\\\\")
        elif ch == "\n":
            out.append("\\n")
        elif ch == "\t":
            out.append("\\t")
        elif ord(ch) < 32 or ord(ch) == 127:
            out.append("\\x%02x" % ord(ch))
        else:
            out.append(ch)
    out.append('"')
    return "".join(out)


class Tr:
    """Translate expressions under an environment mapping source text -> Lean text."""

    def __init__(self, env: dict[str, str], hooks: Optional[list[Callable[[ast.AST, "Tr"], Optional[str]]]] = None):
        self.env = env
        self.hooks = hooks or []

    def e(self, node: ast.AST) -> str:
        for h in self.hooks:
            r = h(node, self)
            if r is not None:
                return r
        src = ast.unparse(node)
        if src in self.env:
            return self.env[src]
        match node:
            case ast.Constant(value=bool()):
                return "True" if node.value else "False"
            case ast.Constant(value=int()):
                return str(node.value)
            case ast.Constant(value=str()):
                return lean_str(node.value)
            case ast.UnaryOp(op=ast.USub(), operand=ast.Constant(value=int())):
                return f"(-{node.operand.value})"
            case ast.UnaryOp(op=ast.Not()):
                return f"(¬ {self.e(node.operand)})"
            case ast.BinOp() if type(node.op) in BINOPS:
                return f"({self.e(node.left)} {BINOPS[type(node.op)]} {self.e(node.right)})"
            case ast.BoolOp():
                op = " ∧ " if isinstance(node.op, ast.And) else " ∨ "
                return "(" + op.join(self.e(v) for v in node.values) + ")"
            case ast.Compare():
                parts = []
                left = node.left
                for op, right in zip(node.ops, node.comparators):
                    if isinstance(op, (ast.In, ast.NotIn)):
                        elts = literal_elts(right)
                        txt = f"({self.e(left)} ∈ [{', '.join(self.e(x) for x in elts)}])"
                        parts.append(txt if isinstance(op, ast.In) else f"(¬ {txt})")
                    elif type(op) in CMPOPS:
                        parts.append(f"({self.e(left)} {CMPOPS[type(op)]} {self.e(right)})")
                    else:
                        raise Unavailable(f"comparison {ast.dump(op)}")
                    left = right
                return parts[0] if len(parts) == 1 else "(" + " ∧ ".join(parts) + ")"
            case ast.IfExp():
                return f"(if {self.e(node.test)} then {self.e(node.body)} else {self.e(node.orelse)})"
        raise Unavailable(f"expression not in the translated subset: {src}")

    def ladder(self, stmts: list[ast.stmt], wrap_ok: str = "some", err: str = "none") -> str:
        """if/elif/else ladder whose leaves are `return e` or `raise`."""
        stmts = [s for s in stmts if not is_docstring(s) and not is_logging(s)]
        if not stmts:
            raise Unavailable("fell off the end of a ladder")
        s = stmts[0]
        match s:
            case ast.Return(value=v) if v is not None:
                return f"{wrap_ok} ({self.e(v)})" if wrap_ok else self.e(v)
            case ast.Raise():
                return err
            case ast.If():
                rest = s.orelse if s.orelse else stmts[1:]
                return (f"if {self.e(s.test)} then {self.ladder(s.body, wrap_ok, err)}\n    else "
                        f"{self.ladder(rest, wrap_ok, err)}")
        raise Unavailable(f"statement not in the translated subset: {ast.unparse(s)[:80]}")


def literal_elts(node: ast.AST) -> list[ast.AST]:
    if isinstance(node, (ast.Tuple, ast.Set, ast.List)):
        return list(node.elts)
    raise Unavailable(f"not a literal collection: {ast.unparse(node)}")


def is_docstring(s: ast.stmt) -> bool:
    return isinstance(s, ast.Expr) and isinstance(s.value, ast.Constant) and isinstance(s.value.value, str)


def is_logging(s: ast.stmt) -> bool:
    return (isinstance(s, ast.Expr) and isinstance(s.value, ast.Call)
            and ast.unparse(s.value.func).startswith("logger."))


# ------------------------------------------------------------------------------------------
# locating things
# ------------------------------------------------------------------------------------------


class Src:
    def __init__(self, repo: Path):
        self.repo = repo
        self.trees: dict[str, ast.Module] = {}

    def mod(self, name: str) -> ast.Module:
        if name not in self.trees:
            p = self.repo / "src" / "stingray" / f"{name}.py"
            self.trees[name] = ast.parse(p.read_text())
        return self.trees[name]

    def func(self, mod: str, qual: str) -> ast.FunctionDef:
        body: list[ast.stmt] = self.mod(mod).body
        node: Any = None
        for part in qual.split("."):
            for s in body:
                if isinstance(s, (ast.FunctionDef, ast.ClassDef)) and s.name == part:
                    node = s
                    body = s.body
                    break
            else:
                raise Unavailable(f"{mod}.{qual} not found")
        if not isinstance(node, ast.FunctionDef):
            raise Unavailable(f"{mod}.{qual} is not a function")
        return node

    def cls(self, mod: str, name: str) -> ast.ClassDef:
        for s in self.mod(mod).body:
            if isinstance(s, ast.ClassDef) and s.name == name:
                return s
        raise Unavailable(f"class {mod}.{name} not found")

    def module_assign(self, mod: str, name: str) -> ast.AST:
        for s in self.mod(mod).body:
            if isinstance(s, ast.Assign) and any(isinstance(t, ast.Name) and t.id == name for t in s.targets):
                return s.value
            if isinstance(s, ast.AnnAssign) and isinstance(s.target, ast.Name) and s.target.id == name and s.value:
                return s.value
        raise Unavailable(f"{mod}.{name} not found")


def walk_stmts(body: list[ast.stmt]):
    for s in body:
        yield s
        for field in ("body", "orelse", "finalbody"):
            sub = getattr(s, field, None)
            if isinstance(sub, list) and sub and isinstance(sub[0], ast.stmt):
                yield from walk_stmts(sub)


# ------------------------------------------------------------------------------------------
# items
# ------------------------------------------------------------------------------------------

ITEMS: dict[str, list[tuple[str, Callable[[Src], str], str]]] = {}


def item(prop: str, name: str, stub: str):
    """Register an extraction item: produces Lean text for Extracted/<prop>.lean."""

    def deco(fn: Callable[[Src], str]):
        ITEMS.setdefault(prop, []).append((name, fn, stub))
        return fn

    return deco


# ---- C05 -----------------------------------------------------------------------------------


@item("C05", "recfmNInitRead", "def recfmNInitRead : Nat := 0 -- extraction unavailable")
def _c05_init(src: Src) -> str:
    fn = src.func("estruct", "RECFM_N.__init__")
    for s in walk_stmts(fn.body):
        if isinstance(s, ast.Assign) and ast.unparse(s.targets[0]) == "self.buffer":
            v = s.value
            if (isinstance(v, ast.Call) and ast.unparse(v.func) == "self.source.read" and len(v.args) == 1
                    and isinstance(v.args[0], ast.Constant) and isinstance(v.args[0].value, int)):
                return ("/-- `RECFM_N.__init__`: `self.buffer = self.source.read(N)` -/\n"
                        f"def recfmNInitRead : Nat := {v.args[0].value}")
    raise Unavailable("RECFM_N.__init__: self.buffer = self.source.read(<int>) not found")


@item("C05", "recfmNRefill",
      "def recfmNKeep (bufLen used : Nat) : Nat := 0 -- extraction unavailable\n"
      "def recfmNRefill (bufLen used : Nat) : Int := -1 -- extraction unavailable")
def _c05_refill(src: Src) -> str:
    """The statement that rebuilds `self.buffer` after a record was consumed:
    buffer = buffer[K:] + source.read(E).  We emit K (how much is dropped) and E (how much is read),
    as functions of len(buffer) and the announced `used`."""
    fn = src.func("estruct", "RECFM_N.record_iter")
    loop = next((s for s in fn.body if isinstance(s, ast.While)), None)
    if loop is None:
        raise Unavailable("RECFM_N.record_iter: while loop not found")
    local: dict[str, ast.AST] = {}
    target = None
    for s in loop.body:
        if isinstance(s, ast.Assign) and len(s.targets) == 1:
            t = ast.unparse(s.targets[0])
            if t == "self.buffer":
                target = s.value
            elif isinstance(s.targets[0], ast.Name):
                local[t] = s.value
    if target is None:
        raise Unavailable("RECFM_N.record_iter: assignment to self.buffer not found")

    def subst(n: ast.AST) -> ast.AST:
        class S(ast.NodeTransformer):
            def visit_Name(self, node: ast.Name):
                if node.id in local:
                    return subst(local[node.id])
                return node
        import copy
        return S().visit(copy.deepcopy(n))

    target = subst(target)
    if not (isinstance(target, ast.BinOp) and isinstance(target.op, ast.Add)):
        raise Unavailable("refill is not `kept + source.read(n)`")
    kept, read = target.left, target.right
    if not (isinstance(kept, ast.Subscript) and ast.unparse(kept.value) == "self.buffer"
            and isinstance(kept.slice, ast.Slice) and kept.slice.upper is None and kept.slice.step is None
            and kept.slice.lower is not None):
        raise Unavailable(f"kept part is not self.buffer[k:]: {ast.unparse(kept)}")
    if not (isinstance(read, ast.Call) and ast.unparse(read.func) == "self.source.read" and len(read.args) == 1):
        raise Unavailable(f"read part is not self.source.read(n): {ast.unparse(read)}")

    def len_hook(node: ast.AST, tr: Tr) -> Optional[str]:
        # len(self.buffer[a:]) == len(self.buffer) - a  (natural subtraction), len(self.buffer) == bufLen
        if isinstance(node, ast.Call) and isinstance(node.func, ast.Name) and node.func.id == "len" and len(node.args) == 1:
            a = node.args[0]
            if ast.unparse(a) == "self.buffer":
                return "(bufLen : Int)"
            if (isinstance(a, ast.Subscript) and ast.unparse(a.value) == "self.buffer" and isinstance(a.slice, ast.Slice)
                    and a.slice.upper is None and a.slice.step is None and a.slice.lower is not None):
                low = Tr({"self._used": "used"}).e(a.slice.lower)
                return f"((bufLen - {low} : Nat) : Int)"
        return None

    k = Tr({"self._used": "used"}).e(kept.slice.lower)
    e = Tr({"self._used": "(used : Int)"}, [len_hook]).e(read.args[0])
    return ("/-- `RECFM_N.record_iter`: `self.buffer = self.buffer[K:] + self.source.read(E)`; this is K. -/\n"
            f"def recfmNKeep (bufLen used : Nat) : Nat := {k}\n"
            "/-- … and this is E (an `Int`: a negative argument would make Python read everything). -/\n"
            f"def recfmNRefill (bufLen used : Nat) : Int := {e}")


# ---- C17 -----------------------------------------------------------------------------------


@item("C17", "cleaner",
      'def cleanerPattern : String := "" -- extraction unavailable\n'
      "def cleanerFlags : List String := []\ndef cleanerReplace : List (String × String) := []")
def _c17_cleaner(src: Src) -> str:
    """name_cleaner: the pattern, its flags, and the chain of str.replace calls in the loop body."""
    fn = src.func("workbook", "name_cleaner")
    loop = next((s for s in fn.body if isinstance(s, ast.While)), None)
    if loop is None:
        raise Unavailable("name_cleaner: while loop not found")
    match_call = next((n for n in ast.walk(loop.test) if isinstance(n, ast.Call) and ast.unparse(n.func) == "re.match"), None)
    if match_call is None or not (isinstance(match_call.args[0], ast.Constant) and isinstance(match_call.args[0].value, str)):
        raise Unavailable("name_cleaner: re.match(<literal>, ...) not found")
    if ast.unparse(match_call.args[1]) != "name":
        raise Unavailable("name_cleaner: re.match is not applied to `name`")
    flags: list[str] = []
    for a in match_call.args[2:] + [k.value for k in match_call.keywords if k.arg == "flags"]:
        for part in ast.unparse(a).split("|"):
            flags.append(part.strip().removeprefix("re."))
    # the loop body: bad_char = groups[1][0]; name = name.replace(bad_char, "_").replace("__", "_")
    assigns = [s for s in loop.body if isinstance(s, ast.Assign)]
    if len(assigns) != 2 or len(loop.body) != 2:
        raise Unavailable("name_cleaner: loop body is not two assignments")
    if ast.unparse(assigns[0]) != "bad_char = groups[1][0]":
        raise Unavailable(f"name_cleaner: unexpected {ast.unparse(assigns[0])}")
    chain: list[tuple[str, str]] = []
    node = assigns[1].value
    while isinstance(node, ast.Call) and isinstance(node.func, ast.Attribute) and node.func.attr == "replace":
        a, b = node.args
        def lit(x: ast.AST) -> str:
            if isinstance(x, ast.Constant) and isinstance(x.value, str):
                return x.value
            if isinstance(x, ast.Name) and x.id == "bad_char":
                return "<bad_char>"
            raise Unavailable(f"name_cleaner: replace argument {ast.unparse(x)}")
        chain.insert(0, (lit(a), lit(b)))
        node = node.func.value
    if ast.unparse(node) != "name" or ast.unparse(assigns[1].targets[0]) != "name":
        raise Unavailable("name_cleaner: replace chain does not start from / assign to `name`")
    if not (isinstance(fn.body[-1], ast.Return) and ast.unparse(fn.body[-1].value) == "name"):
        raise Unavailable("name_cleaner: does not end in `return name`")
    return (f"def cleanerPattern : String := {lean_str(match_call.args[0].value)}\n"
            f"def cleanerFlags : List String := [{', '.join(lean_str(f) for f in sorted(flags))}]\n"
            f"def cleanerReplace : List (String × String) := [{', '.join('(' + lean_str(a) + ', ' + lean_str(b) + ')' for a, b in chain)}]")


# ---- generic: pin the (docstring-free) source of a function -----------------------------------


def pinned_source(src: Src, mod: str, qual: str) -> list[str]:
    """The function body, statement by statement, normalised by ast.unparse (docstrings and logging dropped)."""
    fn = src.func(mod, qual)
    return [ast.unparse(s) for s in fn.body if not is_docstring(s) and not is_logging(s)]


def lean_str_list(xs: list[str]) -> str:
    return "[" + ", ".join(lean_str(x) for x in xs) + "]"


# ---- C16 -----------------------------------------------------------------------------------


@item("C16", "digitString", "def digitStringSrc : List String := [] -- extraction unavailable")
def _c16_digit_string(src: Src) -> str:
    return f"def digitStringSrc : List String := {lean_str_list(pinned_source(src, 'schema_instance', 'digit_string'))}"


@item("C16", "decimalPlaces", "def decimalPlacesSrc : List String := [] -- extraction unavailable")
def _c16_decimal_places(src: Src) -> str:
    return f"def decimalPlacesSrc : List String := {lean_str_list(pinned_source(src, 'schema_instance', 'decimal_places'))}"


@item("C16", "conversion", "def conversionTable : List (String × String) := [] -- extraction unavailable")
def _c16_conversion(src: Src) -> str:
    v = src.module_assign("schema_instance", "CONVERSION")
    if not isinstance(v, ast.Dict):
        raise Unavailable("CONVERSION is not a dict literal")
    rows = []
    for k, val in zip(v.keys, v.values):
        if not isinstance(k, ast.Constant) or not (k.value is None or isinstance(k.value, str)):
            raise Unavailable(f"CONVERSION key {ast.unparse(k)}")
        rows.append(("None" if k.value is None else k.value, ast.unparse(val)))
    body = ", ".join(f"({lean_str(a)}, {lean_str(b)})" for a, b in rows)
    return f"def conversionTable : List (String × String) := [{body}]"


# ------------------------------------------------------------------------------------------
# driver
# ------------------------------------------------------------------------------------------


def main(repo: Path, outdir: Path) -> dict[str, Any]:
    src = Src(repo)
    outdir.mkdir(parents=True, exist_ok=True)
    report: dict[str, Any] = {"items": {}, "unavailable": [], "files": []}
    for prop, items in sorted(ITEMS.items()):
        chunks = [
            "/-! GENERATED by harness/extract.py from the repository's working tree on every run. Do not edit. -/",
            "set_option linter.unusedVariables false",
            f"namespace Stingray.Extracted.{prop}",
        ]
        for name, fn, stub in items:
            try:
                text = fn(src)
                report["items"][f"{prop}.{name}"] = "ok"
            except Unavailable as ex:
                text = stub
                report["items"][f"{prop}.{name}"] = f"unavailable: {ex}"
                report["unavailable"].append(f"{prop}.{name}")
            except SyntaxError as ex:
                text = stub
                report["items"][f"{prop}.{name}"] = f"unavailable: syntax error {ex}"
                report["unavailable"].append(f"{prop}.{name}")
            chunks.append(text)
        chunks.append(f"end Stingray.Extracted.{prop}")
        content = "\n\n".join(chunks) + "\n"
        f = outdir / f"{prop}.lean"
        if not f.exists() or f.read_text() != content:
            f.write_text(content)
        report["files"].append(f.name)
    return report


if __name__ == "__main__":
    import json
    import sys

    repo = Path(sys.argv[1] if len(sys.argv) > 1 else "/repo")
    out = Path(__file__).resolve().parent.parent / "lean" / "Stingray" / "Extracted"
    print(json.dumps(main(repo, out), indent=1))
