"""
extract.py -- regenerate lean/Stingray/Extracted/*.lean from the working tree of the repository.

A small Python-AST -> Lean translator.  It recognises a fixed subset (integer/string literals,
names bound through an environment, + - * // %, comparisons and chains, `in (literal tuple/set)`,
conditional expressions, if/elif/else ladders ending in return/raise, `len(x)`, literal
tuples/sets/dicts).  Anything else raises `Unavailable`; the item is then emitted as a stub whose
`Tie` theorem cannot be proved, so the obligation counts as not discharged.

The generated files contain *what the code says now*; `Stingray/Tie/Cxx.lean` proves that this is
(semantically) what the model assumes.
"""
from __future__ import annotations

import ast
from pathlib import Path
from typing import Any, Callable, Optional


class Unavailable(Exception):
    pass


# ------------------------------------------------------------------------------------------
# expression translator
# ------------------------------------------------------------------------------------------

BINOPS = {ast.Add: "+", ast.Sub: "-", ast.Mult: "*", ast.FloorDiv: "/", ast.Mod: "%"}
CMPOPS = {ast.Lt: "<", ast.LtE: "≤", ast.Gt: ">", ast.GtE: "≥", ast.Eq: "=", ast.NotEq: "≠"}


def lean_str(s: str) -> str:
    out = ['"']
    for ch in s:
        if ch == '"':
            out.append('\\"')
        elif ch == "\\":
            out.append("\\\\")
        elif ch == "\n":
            out.append("\\n")
        elif ch == "\t":
            out.append("\\t")
        elif ord(ch) < 32 or ord(ch) == 127:
            out.append("\\x%02x" % ord(ch))
        else:
            out.append(ch)
    out.append('"')
    return "".join(out)


class Tr:
    """Translate expressions under an environment mapping source text -> Lean text."""

    def __init__(self, env: dict[str, str], hooks: Optional[list[Callable[[ast.AST, "Tr"], Optional[str]]]] = None):
        self.env = env
        self.hooks = hooks or []

    def e(self, node: ast.AST) -> str:
        for h in self.hooks:
            r = h(node, self)
            if r is not None:
                return r
        src = ast.unparse(node)
        if src in self.env:
            return self.env[src]
        match node:
            case ast.Constant(value=bool()):
                return "True" if node.value else "False"
            case ast.Constant(value=int()):
                return str(node.value)
            case ast.Constant(value=str()):
                return lean_str(node.value)
            case ast.UnaryOp(op=ast.USub(), operand=ast.Constant(value=int())):
                return f"(-{node.operand.value})"
            case ast.UnaryOp(op=ast.Not()):
                return f"(¬ {self.e(node.operand)})"
            case ast.BinOp() if type(node.op) in BINOPS:
                return f"({self.e(node.left)} {BINOPS[type(node.op)]} {self.e(node.right)})"
            case ast.BoolOp():
                op = " ∧ " if isinstance(node.op, ast.And) else " ∨ "
                return "(" + op.join(self.e(v) for v in node.values) + ")"
            case ast.Compare():
                parts = []
                left = node.left
                for op, right in zip(node.ops, node.comparators):
                    if isinstance(op, (ast.In, ast.NotIn)):
                        elts = literal_elts(right)
                        txt = f"({self.e(left)} ∈ [{', '.join(self.e(x) for x in elts)}])"
                        parts.append(txt if isinstance(op, ast.In) else f"(¬ {txt})")
                    elif type(op) in CMPOPS:
                        parts.append(f"({self.e(left)} {CMPOPS[type(op)]} {self.e(right)})")
                    else:
                        raise Unavailable(f"comparison {ast.dump(op)}")
                    left = right
                return parts[0] if len(parts) == 1 else "(" + " ∧ ".join(parts) + ")"
            case ast.IfExp():
                return f"(if {self.e(node.test)} then {self.e(node.body)} else {self.e(node.orelse)})"
        raise Unavailable(f"expression not in the translated subset: {src}")

    def ladder(self, stmts: list[ast.stmt], wrap_ok: str = "some", err: str = "none") -> str:
        """if/elif/else ladder whose leaves are `return e` or `raise`."""
        stmts = [s for s in stmts if not is_docstring(s) and not is_logging(s)]
        if not stmts:
            raise Unavailable("fell off the end of a ladder")
        s = stmts[0]
        match s:
            case ast.Return(value=v) if v is not None:
                return f"{wrap_ok} ({self.e(v)})" if wrap_ok else self.e(v)
            case ast.Raise():
                return err
            case ast.If():
                rest = s.orelse if s.orelse else stmts[1:]
                return (f"if {self.e(s.test)} then {self.ladder(s.body, wrap_ok, err)}\n    else "
                        f"{self.ladder(rest, wrap_ok, err)}")
        raise Unavailable(f"statement not in the translated subset: {ast.unparse(s)[:80]}")


def literal_elts(node: ast.AST) -> list[ast.AST]:
    if isinstance(node, (ast.Tuple, ast.Set, ast.List)):
        return list(node.elts)
    raise Unavailable(f"not a literal collection: {ast.unparse(node)}")


def is_docstring(s: ast.stmt) -> bool:
    return isinstance(s, ast.Expr) and isinstance(s.value, ast.Constant) and isinstance(s.value.value, str)


def is_logging(s: ast.stmt) -> bool:
    return (isinstance(s, ast.Expr) and isinstance(s.value, ast.Call)
            and ast.unparse(s.value.func).startswith("logger."))


# ------------------------------------------------------------------------------------------
# locating things
# ------------------------------------------------------------------------------------------


class Src:
    def __init__(self, repo: Path):
        self.repo = repo
        self.trees: dict[str, ast.Module] = {}

    def mod(self, name: str) -> ast.Module:
        if name not in self.trees:
            p = self.repo / "src" / "stingray" / f"{name}.py"
            self.trees[name] = ast.parse(p.read_text())
        return self.trees[name]

    def func(self, mod: str, qual: str) -> ast.FunctionDef:
        body: list[ast.stmt] = self.mod(mod).body
        node: Any = None
        def flat(stmts: list[ast.stmt]) -> list[ast.stmt]:
            out: list[ast.stmt] = []
            for st in stmts:
                if isinstance(st, ast.Try):        # optional back-ends are defined under try/except ImportError
                    out += flat(st.body)
                else:
                    out.append(st)
            return out

        for part in qual.split("."):
            for s in flat(body):
                if isinstance(s, (ast.FunctionDef, ast.ClassDef)) and s.name == part:
                    node = s
                    body = s.body
                    break
            else:
                raise Unavailable(f"{mod}.{qual} not found")
        if not isinstance(node, ast.FunctionDef):
            raise Unavailable(f"{mod}.{qual} is not a function")
        return node

    def cls(self, mod: str, name: str) -> ast.ClassDef:
        for s in self.mod(mod).body:
            if isinstance(s, ast.ClassDef) and s.name == name:
                return s
        raise Unavailable(f"class {mod}.{name} not found")

    def module_assign(self, mod: str, name: str) -> ast.AST:
        for s in self.mod(mod).body:
            if isinstance(s, ast.Assign) and any(isinstance(t, ast.Name) and t.id == name for t in s.targets):
                return s.value
            if isinstance(s, ast.AnnAssign) and isinstance(s.target, ast.Name) and s.target.id == name and s.value:
                return s.value
        raise Unavailable(f"{mod}.{name} not found")


def walk_stmts(body: list[ast.stmt]):
    for s in body:
        yield s
        for field in ("body", "orelse", "finalbody"):
            sub = getattr(s, field, None)
            if isinstance(sub, list) and sub and isinstance(sub[0], ast.stmt):
                yield from walk_stmts(sub)


# ------------------------------------------------------------------------------------------
# items
# ------------------------------------------------------------------------------------------

ITEMS: dict[str, list[tuple[str, Callable[[Src], str], str]]] = {}


def item(prop: str, name: str, stub: str):
    """Register an extraction item: produces Lean text for Extracted/<prop>.lean."""

    def deco(fn: Callable[[Src], str]):
        ITEMS.setdefault(prop, []).append((name, fn, stub))
        return fn

    return deco


# ---- C05 -----------------------------------------------------------------------------------


@item("C05", "recfmNInitRead", "def recfmNInitRead : Nat := 0 -- extraction unavailable")
def _c05_init(src: Src) -> str:
    fn = src.func("estruct", "RECFM_N.__init__")
    for s in walk_stmts(fn.body):
        if isinstance(s, ast.Assign) and ast.unparse(s.targets[0]) == "self.buffer":
            v = s.value
            if (isinstance(v, ast.Call) and ast.unparse(v.func) == "self.source.read" and len(v.args) == 1
                    and isinstance(v.args[0], ast.Constant) and isinstance(v.args[0].value, int)):
                return ("/-- `RECFM_N.__init__`: `self.buffer = self.source.read(N)` -/\n"
                        f"def recfmNInitRead : Nat := {v.args[0].value}")
    raise Unavailable("RECFM_N.__init__: self.buffer = self.source.read(<int>) not found")


@item("C05", "recfmNRefill",
      "def recfmNKeep (bufLen used : Nat) : Nat := 0 -- extraction unavailable\n"
      "def recfmNRefill (bufLen used : Nat) : Int := -1 -- extraction unavailable")
def _c05_refill(src: Src) -> str:
    """The statement that rebuilds `self.buffer` after a record was consumed:
    buffer = buffer[K:] + source.read(E).  We emit K (how much is dropped) and E (how much is read),
    as functions of len(buffer) and the announced `used`."""
    fn = src.func("estruct", "RECFM_N.record_iter")
    loop = next((s for s in fn.body if isinstance(s, ast.While)), None)
    if loop is None:
        raise Unavailable("RECFM_N.record_iter: while loop not found")
    local: dict[str, ast.AST] = {}
    target = None
    for s in loop.body:
        if isinstance(s, ast.Assign) and len(s.targets) == 1:
            t = ast.unparse(s.targets[0])
            if t == "self.buffer":
                target = s.value
            elif isinstance(s.targets[0], ast.Name):
                local[t] = s.value
    if target is None:
        raise Unavailable("RECFM_N.record_iter: assignment to self.buffer not found")

    def subst(n: ast.AST) -> ast.AST:
        class S(ast.NodeTransformer):
            def visit_Name(self, node: ast.Name):
                if node.id in local:
                    return subst(local[node.id])
                return node
        import copy
        return S().visit(copy.deepcopy(n))

    target = subst(target)
    if not (isinstance(target, ast.BinOp) and isinstance(target.op, ast.Add)):
        raise Unavailable("refill is not `kept + source.read(n)`")
    kept, read = target.left, target.right
    if not (isinstance(kept, ast.Subscript) and ast.unparse(kept.value) == "self.buffer"
            and isinstance(kept.slice, ast.Slice) and kept.slice.upper is None and kept.slice.step is None
            and kept.slice.lower is not None):
        raise Unavailable(f"kept part is not self.buffer[k:]: {ast.unparse(kept)}")
    if not (isinstance(read, ast.Call) and ast.unparse(read.func) == "self.source.read" and len(read.args) == 1):
        raise Unavailable(f"read part is not self.source.read(n): {ast.unparse(read)}")

    def len_hook(node: ast.AST, tr: Tr) -> Optional[str]:
        # len(self.buffer[a:]) == len(self.buffer) - a  (natural subtraction), len(self.buffer) == bufLen
        if isinstance(node, ast.Call) and isinstance(node.func, ast.Name) and node.func.id == "len" and len(node.args) == 1:
            a = node.args[0]
            if ast.unparse(a) == "self.buffer":
                return "(bufLen : Int)"
            if (isinstance(a, ast.Subscript) and ast.unparse(a.value) == "self.buffer" and isinstance(a.slice, ast.Slice)
                    and a.slice.upper is None and a.slice.step is None and a.slice.lower is not None):
                low = Tr({"self._used": "used"}).e(a.slice.lower)
                return f"((bufLen - {low} : Nat) : Int)"
        return None

    k = Tr({"self._used": "used"}).e(kept.slice.lower)
    e = Tr({"self._used": "(used : Int)"}, [len_hook]).e(read.args[0])
    return ("/-- `RECFM_N.record_iter`: `self.buffer = self.buffer[K:] + self.source.read(E)`; this is K. -/\n"
            f"def recfmNKeep (bufLen used : Nat) : Nat := {k}\n"
            "/-- … and this is E (an `Int`: a negative argument would make Python read everything). -/\n"
            f"def recfmNRefill (bufLen used : Nat) : Int := {e}")


# ---- C17 -----------------------------------------------------------------------------------


@item("C17", "cleaner",
      'def cleanerPattern : String := "" -- extraction unavailable\n'
      "def cleanerFlags : List String := []\ndef cleanerReplace : List (String × String) := []")
def _c17_cleaner(src: Src) -> str:
    """name_cleaner: the pattern, its flags, and the chain of str.replace calls in the loop body."""
    fn = src.func("workbook", "name_cleaner")
    loop = next((s for s in fn.body if isinstance(s, ast.While)), None)
    if loop is None:
        raise Unavailable("name_cleaner: while loop not found")
    match_call = next((n for n in ast.walk(loop.test) if isinstance(n, ast.Call) and ast.unparse(n.func) == "re.match"), None)
    if match_call is None or not (isinstance(match_call.args[0], ast.Constant) and isinstance(match_call.args[0].value, str)):
        raise Unavailable("name_cleaner: re.match(<literal>, ...) not found")
    if ast.unparse(match_call.args[1]) != "name":
        raise Unavailable("name_cleaner: re.match is not applied to `name`")
    flags: list[str] = []
    for a in match_call.args[2:] + [k.value for k in match_call.keywords if k.arg == "flags"]:
        for part in ast.unparse(a).split("|"):
            flags.append(part.strip().removeprefix("re."))
    # the loop body: bad_char = groups[1][0]; name = name.replace(bad_char, "_").replace("__", "_")
    assigns = [s for s in loop.body if isinstance(s, ast.Assign)]
    if len(assigns) != 2 or len(loop.body) != 2:
        raise Unavailable("name_cleaner: loop body is not two assignments")
    if ast.unparse(assigns[0]) != "bad_char = groups[1][0]":
        raise Unavailable(f"name_cleaner: unexpected {ast.unparse(assigns[0])}")
    chain: list[tuple[str, str]] = []
    node = assigns[1].value
    while isinstance(node, ast.Call) and isinstance(node.func, ast.Attribute) and node.func.attr == "replace":
        a, b = node.args
        def lit(x: ast.AST) -> str:
            if isinstance(x, ast.Constant) and isinstance(x.value, str):
                return x.value
            if isinstance(x, ast.Name) and x.id == "bad_char":
                return "<bad_char>"
            raise Unavailable(f"name_cleaner: replace argument {ast.unparse(x)}")
        chain.insert(0, (lit(a), lit(b)))
        node = node.func.value
    if ast.unparse(node) != "name" or ast.unparse(assigns[1].targets[0]) != "name":
        raise Unavailable("name_cleaner: replace chain does not start from / assign to `name`")
    if not (isinstance(fn.body[-1], ast.Return) and ast.unparse(fn.body[-1].value) == "name"):
        raise Unavailable("name_cleaner: does not end in `return name`")
    return (f"def cleanerPattern : String := {lean_str(match_call.args[0].value)}\n"
            f"def cleanerFlags : List String := [{', '.join(lean_str(f) for f in sorted(flags))}]\n"
            f"def cleanerReplace : List (String × String) := [{', '.join('(' + lean_str(a) + ', ' + lean_str(b) + ')' for a, b in chain)}]")


# ---- generic: pin the (docstring-free) source of a function -----------------------------------


def pinned_source(src: Src, mod: str, qual: str) -> list[str]:
    """The function body, statement by statement, normalised by ast.unparse (docstrings and logging dropped)."""
    fn = src.func(mod, qual)
    return [ast.unparse(s) for s in fn.body if not is_docstring(s) and not is_logging(s)]


def lean_str_list(xs: list[str]) -> str:
    return "[" + ", ".join(lean_str(x) for x in xs) + "]"


# ---- C16 -----------------------------------------------------------------------------------


@item("C16", "digitString", "def digitStringSrc : List String := [] -- extraction unavailable")
def _c16_digit_string(src: Src) -> str:
    return f"def digitStringSrc : List String := {lean_str_list(pinned_source(src, 'schema_instance', 'digit_string'))}"


@item("C16", "decimalPlaces", "def decimalPlacesSrc : List String := [] -- extraction unavailable")
def _c16_decimal_places(src: Src) -> str:
    return f"def decimalPlacesSrc : List String := {lean_str_list(pinned_source(src, 'schema_instance', 'decimal_places'))}"


@item("C16", "conversion", "def conversionTable : List (String × String) := [] -- extraction unavailable")
def _c16_conversion(src: Src) -> str:
    v = src.module_assign("schema_instance", "CONVERSION")
    if not isinstance(v, ast.Dict):
        raise Unavailable("CONVERSION is not a dict literal")
    rows = []
    for k, val in zip(v.keys, v.values):
        if not isinstance(k, ast.Constant) or not (k.value is None or isinstance(k.value, str)):
            raise Unavailable(f"CONVERSION key {ast.unparse(k)}")
        rows.append(("None" if k.value is None else k.value, ast.unparse(val)))
    body = ", ".join(f"({lean_str(a)}, {lean_str(b)})" for a, b in rows)
    return f"def conversionTable : List (String × String) := [{body}]"


# ---- the estruct usage ladders (C04, C02, C18) ----------------------------------------------


def usage_branches(fn: ast.FunctionDef, var: str = "representation.usage") -> list[tuple[list[str], list[ast.stmt]]]:
    """The top-level if/elif chain of tests `representation.usage in (...)`: [(usages, body)]."""
    chain = next((s for s in fn.body if isinstance(s, ast.If) and isinstance(s.test, ast.Compare)
                  and ast.unparse(s.test.left) == var), None)
    if chain is None:
        raise Unavailable(f"{fn.name}: usage ladder not found")
    out = []
    node: Any = chain
    while isinstance(node, ast.If):
        t = node.test
        if not (isinstance(t, ast.Compare) and ast.unparse(t.left) == var and len(t.ops) == 1
                and isinstance(t.ops[0], ast.In)):
            raise Unavailable(f"{fn.name}: unexpected test {ast.unparse(t)}")
        usages = []
        for e in literal_elts(t.comparators[0]):
            if not (isinstance(e, ast.Constant) and isinstance(e.value, str)):
                raise Unavailable("usage spelling is not a string literal")
            usages.append(e.value)
        out.append((usages, node.body))
        if len(node.orelse) == 1 and isinstance(node.orelse[0], ast.If):
            node = node.orelse[0]
        else:
            if not (len(node.orelse) == 1 and isinstance(node.orelse[0], ast.Raise)):
                raise Unavailable(f"{fn.name}: usage ladder does not end in raise")
            node = None
    return out


REP_ENV = {
    "representation.picture_size": "ps",
    "len(representation.digit_groups[1])": "d1",
    "len(representation.digit_groups[3])": "d3",
}


def ladder_with_locals(tr: Tr, stmts: list[ast.stmt], leaf_assign: Optional[str] = None) -> str:
    """Like Tr.ladder but (a) simple local assignments are substituted, (b) when `leaf_assign` is given a leaf is
    `leaf_assign = <expr>` instead of `return <expr>`."""
    stmts = [s for s in stmts if not is_docstring(s) and not is_logging(s)]
    if not stmts:
        raise Unavailable("empty ladder")
    s = stmts[0]
    if isinstance(s, ast.Assign) and len(s.targets) == 1 and isinstance(s.targets[0], ast.Name):
        name = s.targets[0].id
        if leaf_assign is not None and name == leaf_assign:
            return f"some ({tr.e(s.value)})"
        tr2 = Tr({**tr.env, name: "(" + tr.e(s.value) + ")"}, tr.hooks)
        return ladder_with_locals(tr2, stmts[1:], leaf_assign)
    if isinstance(s, ast.Return) and s.value is not None and leaf_assign is None:
        return f"some ({tr.e(s.value)})"
    if isinstance(s, ast.Raise):
        return "none"
    if isinstance(s, ast.If):
        rest = s.orelse if s.orelse else stmts[1:]
        return (f"(if {tr.e(s.test)} then {ladder_with_locals(tr, s.body, leaf_assign)} else "
                f"{ladder_with_locals(tr, rest, leaf_assign)})")
    raise Unavailable(f"statement not in the translated subset: {ast.unparse(s)[:80]}")


def usage_ladder_lean(name: str, params: str, rettype: str, branches: list[tuple[list[str], str]], doc: str) -> str:
    lines = [f"/-- {doc} -/", f"def {name} (usage : String) {params} : Option {rettype} :="]
    for usages, body in branches:
        lines.append(f"  if usage ∈ [{', '.join(lean_str(u) for u in usages)}] then {body} else")
    lines.append("  none")
    return "\n".join(lines)


@item("C04", "calcsize", "def calcsize (usage : String) (ps d1 d3 : Nat) : Option Nat := none -- extraction unavailable")
def _c04_calcsize(src: Src) -> str:
    fn = src.func("estruct", "calcsize")
    guard = next((s for s in fn.body if isinstance(s, ast.If) and "picture_size" in ast.unparse(s.test)), None)
    if guard is None or not isinstance(guard.body[0], ast.Raise) or guard.orelse:
        raise Unavailable("calcsize: `if representation.picture_size == 0: raise` not found")
    tr = Tr(dict(REP_ENV))
    branches = [(u, ladder_with_locals(tr, body)) for u, body in usage_branches(fn)]
    text = usage_ladder_lean("calcsizeUsage", "(ps d1 d3 : Nat)", "Nat", branches,
                             "`estruct.calcsize`: the USAGE ladder (ps = picture_size, d1/d3 = integer/fraction digit counts)")
    return (text + "\n/-- `estruct.calcsize` with its empty-picture guard -/\n"
            f"def calcsize (usage : String) (ps d1 d3 : Nat) : Option Nat :=\n  if {tr.e(guard.test)} then none else calcsizeUsage usage ps d1 d3")


def _binary_format_ladder(fn: ast.FunctionDef, var: str, label: str) -> tuple[list[str], str]:
    for usages, body in usage_branches(fn):
        if "BINARY" in usages:
            tr = Tr(dict(REP_ENV))
            inner = [s for s in body if isinstance(s, ast.If)]
            if len(inner) != 1:
                raise Unavailable(f"{label}: binary branch is not a single ladder")
            return usages, ladder_with_locals(tr, inner, leaf_assign=var)
    raise Unavailable(f"{label}: binary branch not found")


@item("C04", "unpackBinary", "def unpackBinaryFormat (usage : String) (d1 : Nat) : Option String := none -- extraction unavailable")
def _c04_unpack_binary(src: Src) -> str:
    usages, lad = _binary_format_ladder(src.func("estruct", "unpack"), "format", "estruct.unpack")
    return ("/-- `estruct.unpack`, binary branch: the struct format chosen from the integer digit count -/\n"
            f"def unpackBinaryFormat (usage : String) (d1 : Nat) : Option String :=\n"
            f"  if usage ∈ [{', '.join(lean_str(u) for u in usages)}] then {lad} else none")


@item("C04", "structFormat", "def structFormat (usage : String) (ps d1 : Nat) : Option String := none -- extraction unavailable")
def _c04_struct_format(src: Src) -> str:
    fn = src.func("schema_instance", "Struct.struct_format")

    def fstr_hook(node: ast.AST, tr: Tr) -> Optional[str]:
        if isinstance(node, ast.JoinedStr):
            parts = []
            for v in node.values:
                if isinstance(v, ast.Constant):
                    parts.append(lean_str(v.value))
                elif isinstance(v, ast.FormattedValue) and v.conversion == -1 and v.format_spec is None:
                    parts.append(f"toString {tr.e(v.value)}")
                else:
                    raise Unavailable("f-string part")
            return "(" + " ++ ".join(parts) + ")"
        return None

    tr = Tr(dict(REP_ENV), [fstr_hook])
    branches = []
    for usages, body in usage_branches(fn):
        branches.append((usages, ladder_with_locals(tr, body, leaf_assign="struct_code")))
    if not (isinstance(fn.body[-1], ast.Return) and ast.unparse(fn.body[-1].value) == "struct_code"):
        raise Unavailable("struct_format does not end in `return struct_code`")
    return usage_ladder_lean("structFormat", "(ps d1 : Nat)", "String", branches,
                             "`Struct.struct_format`: the struct code for an atomic item")


@item("C04", "textCalcsize", "def textCalcsizeSrc : List String := [] -- extraction unavailable")
def _c04_text_calcsize(src: Src) -> str:
    return f"def textCalcsizeSrc : List String := {lean_str_list(pinned_source(src, 'schema_instance', 'TextUnpacker.calcsize'))}"


@item("C04", "ebcdicCalcsize", "def ebcdicCalcsizeSrc : List String := [] -- extraction unavailable")
def _c04_ebcdic_calcsize(src: Src) -> str:
    return f"def ebcdicCalcsizeSrc : List String := {lean_str_list(pinned_source(src, 'schema_instance', 'EBCDIC.calcsize'))}"


# ---- C02 / C18: sign nibble tests, digit checks, code page ---------------------------------


def _sign_tests(src: Src) -> list[str]:
    fn = src.func("estruct", "unpack")
    tests = []
    for n in ast.walk(fn):
        if (isinstance(n, ast.Assign) and ast.unparse(n.targets[0]) == "sign" and isinstance(n.value, ast.IfExp)):
            v = n.value
            if not (ast.unparse(v.body) == "-1" and ast.unparse(v.orelse) in ("+1", "1")):
                raise Unavailable(f"sign expression {ast.unparse(v)}")
            tests.append(Tr({"sign_half": "sn"}).e(v.test))
    if len(tests) != 2:
        raise Unavailable(f"expected two sign tests in estruct.unpack, found {len(tests)}")
    return tests


@item("C02", "signTests", "def zonedNeg (sn : Nat) : Prop := False\ndef packedNeg (sn : Nat) : Prop := False -- extraction unavailable")
def _c02_sign(src: Src) -> str:
    z, p = _sign_tests(src)
    return ("/-- `estruct.unpack`: the test that makes a zoned value negative (first occurrence) -/\n"
            f"def zonedNeg (sn : Nat) : Prop := {z}\n"
            "/-- … and a packed value (second occurrence) -/\n"
            f"def packedNeg (sn : Nat) : Prop := {p}")


@item("C02", "codepage", "def cp037 : List Nat := []\ndef classW : List Bool := []\ndef classD : List Bool := []\ndef classS : List Bool := [] -- extraction unavailable")
def _c02_codepage(src: Src) -> str:
    import re as _re
    text = bytes(range(256)).decode("cp037")
    fmt = lambda xs: "[" + ", ".join(xs) + "]"  # noqa: E731
    b = lambda x: "true" if x else "false"  # noqa: E731
    return ("/-- Python's cp037 codec, byte ↦ code point (read from the running interpreter) -/\n"
            f"def cp037 : List Nat := {fmt(str(ord(c)) for c in text)}\n"
            f"def classW : List Bool := {fmt(b(_re.match(r'\w', c)) for c in text)}\n"
            f"def classD : List Bool := {fmt(b(_re.match(r'\d', c)) for c in text)}\n"
            f"def classS : List Bool := {fmt(b(_re.match(r'\s', c)) for c in text)}")


@item("C02", "unpackSrc", "def unpackSrc : List String := [] -- extraction unavailable")
def _c02_unpack_src(src: Src) -> str:
    return f"def unpackSrc : List String := {lean_str_list(pinned_source(src, 'estruct', 'unpack'))}"


# ---- C13: the two scanners -----------------------------------------------------------------


def _scanner(src: Src, mod: str, qual: str) -> tuple[str, list[str], list[str]]:
    fn = src.func(mod, qual)
    comp = next((n for n in ast.walk(fn) if isinstance(n, ast.Call) and ast.unparse(n.func) == "re.compile"), None)
    if comp is None or not (isinstance(comp.args[0], ast.Constant) and isinstance(comp.args[0].value, str)):
        raise Unavailable(f"{mod}.{qual}: re.compile(<literal>) not found")
    flags = []
    for a in comp.args[1:] + [k.value for k in comp.keywords if k.arg == "flags"]:
        flags += [p.strip().removeprefix("re.") for p in ast.unparse(a).split("|")]
    body = [ast.unparse(s) for s in fn.body if not is_docstring(s) and not is_logging(s)
            and not (isinstance(s, ast.Assign) and s.value is comp)]
    return comp.args[0].value, sorted(flags), body


@item("C13", "decoderScanner", 'def decoderPattern : String := ""\ndef decoderFlags : List String := []\ndef decoderBody : List String := [] -- extraction unavailable')
def _c13_decoder(src: Src) -> str:
    pat, flags, body = _scanner(src, "estruct", "Representation.normalize_picture")
    return (f"def decoderPattern : String := {lean_str(pat)}\ndef decoderFlags : List String := {lean_str_list(flags)}\n"
            f"def decoderBody : List String := {lean_str_list(body)}")


@item("C13", "generatorScanner", 'def generatorPattern : String := ""\ndef generatorFlags : List String := []\ndef generatorBody : List String := [] -- extraction unavailable')
def _c13_generator(src: Src) -> str:
    pat, flags, body = _scanner(src, "cobol_parser", "normalize_picture")
    return (f"def generatorPattern : String := {lean_str(pat)}\ndef generatorFlags : List String := {lean_str_list(flags)}\n"
            f"def generatorBody : List String := {lean_str_list(body)}")


@item("C13", "sizeLoop", "def parseSrc : List String := [] -- extraction unavailable")
def _c13_parse(src: Src) -> str:
    return f"def parseSrc : List String := {lean_str_list(pinned_source(src, 'estruct', 'Representation.parse'))}"


# ---- C11: inventory of process-wide mutable state and of the places that mutate it ---------------

MUTATORS = {"add", "append", "update", "pop", "clear", "setdefault", "extend", "remove", "discard", "insert", "popitem", "sort",
            "reverse", "appendleft", "__setitem__"}
MODULES = ["__init__", "estruct", "schema_instance", "cobol_parser", "workbook", "implementations"]


def _is_mutable_value(v: ast.AST) -> bool:
    if isinstance(v, (ast.Dict, ast.List, ast.Set, ast.ListComp, ast.DictComp, ast.SetComp)):
        return True
    if isinstance(v, ast.Call) and isinstance(v.func, ast.Name) and v.func.id in ("dict", "list", "set", "defaultdict", "OrderedDict", "Counter", "deque"):
        return True
    return False


def state_inventory(src: Src) -> list[str]:
    shared: list[str] = []     # process-wide objects that could carry history
    sites: list[str] = []      # statements that mutate process-wide state
    class_attrs: dict[str, set[str]] = {}     # class -> class-level attribute names
    module_names: dict[str, set[str]] = {}    # module -> module-level names bound to mutable objects / instances
    singleton_classes: set[str] = set()
    classes: set[str] = set()
    for m in MODULES:
        try:
            tree = src.mod(m)
        except (FileNotFoundError, SyntaxError) as ex:
            raise Unavailable(f"module {m}: {ex}")
        module_names[m] = set()
        for st in _flat_try(tree.body):
            if isinstance(st, ast.ClassDef):
                classes.add(st.name)
                attrs = set()
                for b in st.body:
                    targets = []
                    if isinstance(b, ast.Assign):
                        targets, val = [t for t in b.targets if isinstance(t, ast.Name)], b.value
                    elif isinstance(b, ast.AnnAssign) and isinstance(b.target, ast.Name) and b.value is not None:
                        targets, val = [b.target], b.value
                    else:
                        continue
                    for t in targets:
                        attrs.add(t.id)
                        kind = "mutable" if _is_mutable_value(val) else "scalar"
                        shared.append(f"class-attr {m}.{st.name}.{t.id} ({kind})")
                class_attrs[st.name] = attrs
            elif isinstance(st, (ast.Assign, ast.AnnAssign)):
                val = st.value
                tgts = st.targets if isinstance(st, ast.Assign) else [st.target]
                for t in tgts:
                    if isinstance(t, ast.Name) and val is not None:
                        if _is_mutable_value(val):
                            shared.append(f"module-object {m}.{t.id}")
                            module_names[m].add(t.id)
                        elif isinstance(val, ast.Call) and isinstance(val.func, ast.Name) and val.func.id[:1].isupper():
                            shared.append(f"module-instance {m}.{t.id} = {val.func.id}()")
                            module_names[m].add(t.id)
                            singleton_classes.add(val.func.id)
    all_class_attrs = set().union(*class_attrs.values()) if class_attrs else set()
    for m in MODULES:
        tree = src.mod(m)
        for fn, qual in _functions(tree):
            in_singleton = qual.split(".")[0] in singleton_classes
            for node in ast.walk(fn):
                if isinstance(node, ast.Global):
                    sites.append(f"global {m}.{qual}: {', '.join(node.names)}")
                # default arguments that are mutable objects are shared across calls
                tgt_list: list[ast.AST] = []
                if isinstance(node, ast.Assign):
                    tgt_list = list(node.targets)
                elif isinstance(node, (ast.AugAssign, ast.AnnAssign)):
                    tgt_list = [node.target]
                for t in tgt_list:
                    if isinstance(t, ast.Attribute) and isinstance(t.value, ast.Name) and t.value.id in classes:
                        sites.append(f"assign {m}.{qual}: {ast.unparse(t)}")
                    if isinstance(t, ast.Attribute) and isinstance(t.value, ast.Name) and t.value.id == "cls":
                        sites.append(f"assign {m}.{qual}: {ast.unparse(t)}")
                    if isinstance(t, ast.Subscript):
                        base = t.value
                        if isinstance(base, ast.Name) and base.id in module_names[m]:
                            sites.append(f"setitem {m}.{qual}: {ast.unparse(base)}[…]")
                        if isinstance(base, ast.Attribute) and (base.attr in all_class_attrs or
                                                                (in_singleton and ast.unparse(base.value) == "self")):
                            sites.append(f"setitem {m}.{qual}: {ast.unparse(base)}[…]")
                if isinstance(node, ast.Call) and isinstance(node.func, ast.Attribute) and node.func.attr in MUTATORS:
                    recv = node.func.value
                    if isinstance(recv, ast.Name) and recv.id in module_names[m]:
                        sites.append(f"mutate {m}.{qual}: {ast.unparse(recv)}.{node.func.attr}()")
                    if isinstance(recv, ast.Attribute) and recv.attr in all_class_attrs and recv.attr.isupper():
                        sites.append(f"mutate {m}.{qual}: {ast.unparse(recv)}.{node.func.attr}()")
            for d in fn.args.defaults + [d for d in fn.args.kw_defaults if d is not None]:
                if _is_mutable_value(d):
                    shared.append(f"mutable-default {m}.{qual}: {ast.unparse(d)}")
    # object state written after construction: every attribute / item assignment and deletion outside __init__, and every
    # caching decorator -- the places where an object (a schema, a maker, a navigator, a sheet, a reader) can come to depend on
    # what was done with it before
    writes: list[str] = []
    for m in MODULES:
        tree = src.mod(m)
        for fn, qual in _functions(tree):
            for dec in fn.decorator_list:
                if "cache" in ast.unparse(dec):
                    writes.append(f"cached {m}.{qual}: @{ast.unparse(dec)}")
            if fn.name in ("__init__", "__post_init__", "__new__"):
                continue
            params = {a.arg for a in fn.args.args + fn.args.kwonlyargs}
            for node in ast.walk(fn):
                tl: list[ast.AST] = []
                if isinstance(node, ast.Assign):
                    tl = list(node.targets)
                elif isinstance(node, (ast.AugAssign, ast.AnnAssign)):
                    tl = [node.target]
                for t in tl:
                    for tt in (t.elts if isinstance(t, (ast.Tuple, ast.List)) else [t]):
                        if isinstance(tt, ast.Attribute):
                            writes.append(f"attr-write {m}.{qual}: {ast.unparse(tt)}")
                        elif isinstance(tt, ast.Subscript):
                            base = tt.value
                            if isinstance(base, ast.Attribute) or (isinstance(base, ast.Name) and base.id in params):
                                writes.append(f"item-write {m}.{qual}: {ast.unparse(base)}[…]")
                if isinstance(node, ast.Delete):
                    for tt in node.targets:
                        if isinstance(tt, (ast.Attribute, ast.Subscript)):
                            writes.append(f"delete {m}.{qual}: {ast.unparse(tt)}")
    return sorted(set(shared)) + ["--"] + sorted(set(sites)) + ["--"] + sorted(set(writes))


def _flat_try(stmts: list[ast.stmt]) -> list[ast.stmt]:
    out: list[ast.stmt] = []
    for st in stmts:
        if isinstance(st, ast.Try):
            out += _flat_try(st.body)
        else:
            out.append(st)
    return out


def _functions(tree: ast.Module):
    for st in _flat_try(tree.body):
        if isinstance(st, (ast.FunctionDef, ast.AsyncFunctionDef)):
            yield st, st.name
        elif isinstance(st, ast.ClassDef):
            for b in st.body:
                if isinstance(b, (ast.FunctionDef, ast.AsyncFunctionDef)):
                    yield b, f"{st.name}.{b.name}"


@item("C11", "stateInventory", "def stateInventory : List String := [] -- extraction unavailable")
def _c11_inventory(src: Src) -> str:
    return f"def stateInventory : List String := {lean_str_list(state_inventory(src))}"


# ---- C12: the text layers ----------------------------------------------------------------------


@item("C12", "referenceFormat", "def referenceFormatSrc : List String := [] -- extraction unavailable")
def _c12_ref(src: Src) -> str:
    return f"def referenceFormatSrc : List String := {lean_str_list(pinned_source(src, 'cobol_parser', 'reference_format'))}"


@item("C12", "sentencePattern", "def sentencePattern : List String := [] -- extraction unavailable")
def _c12_sentence(src: Src) -> str:
    return f"def sentencePattern : List String := {lean_str_list(pinned_source(src, 'cobol_parser', 'dde_sentences'))}"


@item("C12", "clausesPattern", "def clausesPattern : List String := [] -- extraction unavailable")
def _c12_clauses(src: Src) -> str:
    out = []
    for name in ("SPACE", "NAME", "KEY", "CLAUSES", "clause_pattern"):
        out.append(f"{name} = {ast.unparse(src.module_assign('cobol_parser', name))}")
    return f"def clausesPattern : List String := {lean_str_list(out)}"


@item("C12", "clauseDict", "def clauseDictSrc : List String := [] -- extraction unavailable")
def _c12_clause_dict(src: Src) -> str:
    return f"def clauseDictSrc : List String := {lean_str_list(pinned_source(src, 'cobol_parser', 'clause_dict'))}"


# ---- C08: json_type (both vocabularies) ---------------------------------------------------------


def _dict_leaf(node: ast.AST) -> str:
    """{"type": t, "contentEncoding": e, "conversion": c} -> Lean triple"""
    if not isinstance(node, ast.Dict):
        raise Unavailable(f"json_type leaf is not a dict literal: {ast.unparse(node)}")
    d = {}
    for k, v in zip(node.keys, node.values):
        if not (isinstance(k, ast.Constant) and isinstance(v, ast.Constant) and isinstance(k.value, str) and isinstance(v.value, str)):
            raise Unavailable("json_type dict is not string -> string")
        d[k.value] = v.value
    extra = set(d) - {"type", "contentEncoding", "conversion"}
    if extra or "type" not in d:
        raise Unavailable(f"json_type dict has unexpected keys {sorted(extra)}")
    opt = lambda k: f"some {lean_str(d[k])}" if k in d else "none"  # noqa: E731
    return f"({lean_str(d['type'])}, {opt('contentEncoding')}, {opt('conversion')})"


def _json_type_ladder(fn: ast.FunctionDef) -> str:
    """usage ladder over `usage == "DISPLAY"` / `usage in {...}` with dict leaves (assigned to `schema` or returned)"""
    chain = next((s for s in fn.body if isinstance(s, ast.If)), None)
    if chain is None:
        raise Unavailable("json_type: no if ladder")
    num_src = None

    def leaf(stmts: list[ast.stmt]) -> str:
        nonlocal num_src
        stmts = [s for s in stmts if not is_docstring(s)]
        s0 = stmts[0]
        if isinstance(s0, ast.Assign) and ast.unparse(s0.targets[0]) == "picture":
            stmts = stmts[1:]
            s0 = stmts[0]
        if isinstance(s0, ast.If):
            num_src = ast.unparse(s0.test)
            then = leaf(s0.body)
            rest = s0.orelse if s0.orelse else stmts[1:]
            return f"(if numericRaw then {then} else {leaf(rest)})"
        if isinstance(s0, ast.Assign) and ast.unparse(s0.targets[0]) == "schema":
            return _dict_leaf(s0.value)
        if isinstance(s0, ast.Return) and s0.value is not None:
            return _dict_leaf(s0.value)
        raise Unavailable(f"json_type leaf: {ast.unparse(s0)[:60]}")

    lines = []
    node: Any = chain
    while isinstance(node, ast.If):
        t = node.test
        if isinstance(t, ast.Compare) and ast.unparse(t.left) == "usage" and len(t.ops) == 1:
            if isinstance(t.ops[0], ast.Eq) and isinstance(t.comparators[0], ast.Constant):
                usages = [t.comparators[0].value]
            elif isinstance(t.ops[0], ast.In):
                usages = [e.value for e in literal_elts(t.comparators[0])]  # type: ignore[attr-defined]
            else:
                raise Unavailable("json_type test")
        else:
            raise Unavailable(f"json_type test {ast.unparse(t)}")
        lines.append(f"  if usage ∈ [{', '.join(lean_str(u) for u in sorted(usages))}] then some {leaf(node.body)} else")
        if len(node.orelse) == 1 and isinstance(node.orelse[0], ast.If):
            node = node.orelse[0]
        else:
            if not (node.orelse and isinstance(node.orelse[-1], ast.Raise)):
                raise Unavailable("json_type ladder does not end in raise")
            node = None
    lines.append("  none")
    return "\n".join(lines), num_src  # type: ignore[return-value]


@item("C08", "jsonType", "def jsonType (usage : String) (numericRaw : Bool) : Option (String × Option String × Option String) := none -- extraction unavailable\ndef numericTest : String := \"\"")
def _c08_json_type(src: Src) -> str:
    body, num = _json_type_ladder(src.func("cobol_parser", "JSONSchemaMaker.json_type"))
    return ("/-- `JSONSchemaMaker.json_type` -/\n"
            "def jsonType (usage : String) (numericRaw : Bool) : Option (String × Option String × Option String) :=\n" + body +
            f"\n/-- the test that makes a DISPLAY item numeric -/\ndef numericTest : String := {lean_str(num or '')}")


@item("C08", "jsonTypeExt", "def jsonTypeExt (usage : String) (numericRaw : Bool) : Option (String × Option String × Option String) := none -- extraction unavailable\ndef numericTestExt : String := \"\"")
def _c08_json_type_ext(src: Src) -> str:
    body, num = _json_type_ladder(src.func("cobol_parser", "JSONSchemaMakerExtendedVocabulary.json_type"))
    return ("/-- `JSONSchemaMakerExtendedVocabulary.json_type` -/\n"
            "def jsonTypeExt (usage : String) (numericRaw : Bool) : Option (String × Option String × Option String) :=\n" + body +
            f"\ndef numericTestExt : String := {lean_str(num or '')}")


@item("C08", "ebcdicValue", "def ebcdicValueSrc : List String := [] -- extraction unavailable")
def _c08_value(src: Src) -> str:
    return f"def ebcdicValueSrc : List String := {lean_str_list(pinned_source(src, 'schema_instance', 'EBCDIC.value'))}"


# ---- C15 / C09 / C14: pinned sources of the loader, the navigators, the facade ------------------


def _pin_item(prop: str, name: str, mod: str, qual: str) -> None:
    @item(prop, name, f"def {name} : List String := [] -- extraction unavailable")
    def _f(src: Src, _mod=mod, _qual=qual, _name=name) -> str:
        return f"def {_name} : List String := {lean_str_list(pinned_source(src, _mod, _qual))}"


def _pin_many(prop: str, name: str, targets: list[tuple[str, str]]) -> None:
    @item(prop, name, f"def {name} : List String := [] -- extraction unavailable")
    def _f(src: Src, _targets=targets, _name=name) -> str:
        out: list[str] = []
        for mod, qual in _targets:
            out.append(f"## {mod}.{qual}")
            out += pinned_source(src, mod, qual)
        return f"def {_name} : List String := {lean_str_list(out)}"


_pin_item("C15", "walkSchemaSrc", "schema_instance", "SchemaMaker.walk_schema")
_pin_item("C15", "resolveSrc", "schema_instance", "SchemaMaker.resolve")
_pin_many("C15", "dnavSrc", [("schema_instance", "DNav.name"), ("schema_instance", "DNav.index"), ("schema_instance", "DNav.value"),
                             ("schema_instance", "SchemaMaker.from_json")])
_pin_item("C09", "headerSrc", "workbook", "HeadingRowSchemaLoader.header")
_pin_item("C09", "wbnavNameSrc", "schema_instance", "WBNav.name")
_pin_many("C09", "rowIterSrc", [("workbook", "Sheet.row_iter"), ("workbook", "SchemaLoader.header"), ("workbook", "SchemaLoader.body")])
_pin_item("C09", "externalLoadSrc", "workbook", "ExternalSchemaLoader.load")
_pin_item("C09", "rowValuesSrc", "workbook", "Row.values")
_pin_many("C14", "registrySrc", [("workbook", "WBFileRegistry.__init__"), ("workbook", "WBFileRegistry.file_suffix"),
                                 ("workbook", "WBFileRegistry.open_workbook")])
_pin_many("C14", "closeSrcs", [("workbook", "Workbook.__enter__"), ("workbook", "Workbook.__exit__"), ("workbook", "CSV_Workbook.close"),
                               ("workbook", "CSVUnpacker.close"), ("workbook", "JSON_Workbook.close"), ("workbook", "JSONUnpacker.close"),
                               ("workbook", "COBOL_Text_File.close"), ("workbook", "COBOL_EBCDIC_File.close"),
                               ("schema_instance", "EBCDIC.close"), ("schema_instance", "TextUnpacker.close"),
                               ("implementations", "XLS_Workbook.close"), ("implementations", "XLSUnpacker.close"),
                               ("implementations", "XLSX_Workbook.close"), ("implementations", "XLSXUnpacker.close"),
                               ("implementations", "ODS_Workbook.close"), ("implementations", "ODSUnpacker.close"),
                               ("implementations", "Numbers_Workbook.close"), ("implementations", "NumbersUnpacker.close")])

# ---- C01 / C06 / C10 (layout and navigation), C07 / C08 (entries to schema), C05 (record readers): the functions the models
# Layout / Odo / Value / Copybook / Schema / Recfm were written from
_pin_many("C01", "layoutSrc", [("schema_instance", "LocationMaker.__init__"), ("schema_instance", "LocationMaker.from_instance"),
                               ("schema_instance", "LocationMaker.from_schema"), ("schema_instance", "LocationMaker.walk"),
                               ("schema_instance", "LocationMaker.size"), ("schema_instance", "LocationMaker.ndnav")])
_pin_many("C01", "navSrc", [("schema_instance", "NDNav.name"), ("schema_instance", "NDNav.index"), ("schema_instance", "NDNav.value"),
                            ("schema_instance", "NDNav.raw"), ("schema_instance", "EBCDIC.nav"),
                            ("schema_instance", "AtomicLocation.value"), ("schema_instance", "AtomicLocation.raw"),
                            ("schema_instance", "ArrayLocation.value"), ("schema_instance", "ObjectLocation.value"),
                            ("schema_instance", "OneOfLocation.value"), ("schema_instance", "RefToLocation.value"),
                            ("schema_instance", "RefToLocation.referent"), ("schema_instance", "RefToLocation.properties")])
_pin_many("C01", "odoFileSrc", [("workbook", "COBOL_EBCDIC_Sheet.set_schema"), ("workbook", "COBOL_EBCDIC_Sheet.row_iter"),
                                ("schema_instance", "EBCDIC.instance_iter"), ("schema_instance", "EBCDIC.used")])
_pin_many("C04", "setSchemaSrc", [("workbook", "COBOL_EBCDIC_Sheet.set_schema")])
_pin_many("C07", "structureSrc", [("cobol_parser", "structure"), ("cobol_parser", "DDE.__init__"), ("cobol_parser", "schema_iter")])
_pin_many("C07", "schemaMakerSrc", [("cobol_parser", "JSONSchemaMaker.__init__"), ("cobol_parser", "JSONSchemaMaker.jsonschema"),
                                    ("cobol_parser", "JSONSchemaMaker.build_json_schema")])
_pin_many("C05", "recfmSrcs", [("estruct", "RECFM_N.__init__"), ("estruct", "RECFM_N.record_iter"), ("estruct", "RECFM_Reader.used"),
                               ("estruct", "RECFM_F.record_iter"), ("estruct", "RECFM_F.rdw_iter"),
                               ("estruct", "RECFM_V.record_iter"), ("estruct", "RECFM_V.rdw_iter"), ("estruct", "RECFM_V._data_iter"),
                               ("estruct", "RECFM_VB.record_iter"), ("estruct", "RECFM_VB.rdw_iter"), ("estruct", "RECFM_VB.bdw_iter"),
                               ("estruct", "RECFM_VB._data_iter")])


# ------------------------------------------------------------------------------------------
# driver
# ------------------------------------------------------------------------------------------


def main(repo: Path, outdir: Path) -> dict[str, Any]:
    src = Src(repo)
    outdir.mkdir(parents=True, exist_ok=True)
    report: dict[str, Any] = {"items": {}, "unavailable": [], "files": []}
    for prop, items in sorted(ITEMS.items()):
        chunks = [
            "/-! GENERATED by harness/extract.py from the repository's working tree on every run. Do not edit. -/",
            "set_option linter.unusedVariables false",
            f"namespace Stingray.Extracted.{prop}",
        ]
        for name, fn, stub in items:
            try:
                text = fn(src)
                report["items"][f"{prop}.{name}"] = "ok"
            except Unavailable as ex:
                text = stub
                report["items"][f"{prop}.{name}"] = f"unavailable: {ex}"
                report["unavailable"].append(f"{prop}.{name}")
            except SyntaxError as ex:
                text = stub
                report["items"][f"{prop}.{name}"] = f"unavailable: syntax error {ex}"
                report["unavailable"].append(f"{prop}.{name}")
            chunks.append(text)
        chunks.append(f"end Stingray.Extracted.{prop}")
        content = "\n\n".join(chunks) + "\n"
        f = outdir / f"{prop}.lean"
        if not f.exists() or f.read_text() != content:
            f.write_text(content)
        report["files"].append(f.name)
    return report


if __name__ == "__main__":
    import json
    import sys

    repo = Path(sys.argv[1] if len(sys.argv) > 1 else "/repo")
    out = Path(__file__).resolve().parent.parent / "lean" / "Stingray" / "Extracted"
    print(json.dumps(main(repo, out), indent=1))
