"""
C11 -- schemas are immutable and results do not depend on what was processed before.

Proof:           lean/Stingray/Props/C11.lean (reach_step, step_out_independent, probe_history_independent, parse_deterministic;
                 walkM_stale / maker_reuse_sizes / maker_reuse_lookup: ONE LocationMaker over any history of records = fresh makers;
                 D15_counterexample, D16_counterexample for the pinned commit)
Tie:             (i) state inventory: extract.py lists every module-/class-level object and every statement that mutates process-wide
                 state in src/stingray; Tie/C11.state_inventory requires that list to be the reviewed one the model was written from.
                 (ii) correspondence on random histories: one long-lived interpreter runs the history, then the probe; a FRESH
                 interpreter runs the probe alone; the Lean model runs both; three-way comparison, plus deep equality of every JSON
                 document and Schema.json() against the copy taken when it was created.
Oracle:          probe-after-history == probe-in-fresh-process (on the real code)
"""
from __future__ import annotations

import json
import os
import subprocess
import sys
from typing import Any

from harness.c06 import build_record, counters_of, gen_env, kinds_token, tables_of
from harness.common import REPO, VERIF, Check
from harness.gen_copybook import Node, Style, TreeGen, clusters_ok, entry_token, item_tokens, preorder, render, sentence_nodes


class Worker:
    def __init__(self) -> None:
        env = dict(os.environ, STINGRAY_REPO=str(REPO), PYTHONPATH=str(VERIF))
        self.p = subprocess.Popen([sys.executable, "-m", "harness.c11_worker"], cwd=VERIF, env=env, stdin=subprocess.PIPE,
                                  stdout=subprocess.PIPE, text=True)

    def call(self, op: dict[str, Any], timeout: float = 180.0) -> dict[str, Any]:
        """one operation; an operation that does not come back within `timeout` seconds is reported as such (the process is
        replaced), so that a library change that loops forever ends the check instead of hanging it"""
        import select

        assert self.p.stdin and self.p.stdout
        self.p.stdin.write(json.dumps(op) + "\n")
        self.p.stdin.flush()
        ready, _, _ = select.select([self.p.stdout], [], [], timeout)
        if not ready:
            self.p.kill()
            self.__init__()
            return {"error": "does-not-terminate", "op": op.get("op")}
        line = self.p.stdout.readline()
        if not line:
            self.__init__()
            return {"error": "worker-died", "op": op.get("op")}
        return json.loads(line)

    def close(self) -> None:
        try:
            self.p.stdin.close()  # type: ignore[union-attr]
            self.p.wait(timeout=10)
        except Exception:  # noqa: BLE001
            self.p.kill()


def fresh(op: dict[str, Any], cache: dict[str, Any]) -> dict[str, Any]:
    key = json.dumps(op, sort_keys=True)
    if key not in cache:
        w = Worker()
        cache[key] = w.call(op)
        w.close()
    return cache[key]


def fragment(rng) -> tuple[str, list[Node]]:
    """a copybook fragment that does NOT start with an 01 and contains FILLER / unnamed items"""
    g = Node(5, f"GRP-{rng.randint(1, 9)}")
    g.children = [Node(10, rng.choice(["FILLER", None]), pic=f"X({rng.randint(1, 4)})", width=2) for _ in range(rng.randint(1, 3))]
    g.children.insert(rng.randint(0, len(g.children)), Node(10, "NAMED", pic="X(2)", width=2))
    return render([g], Style()), [g]


def model_op(op: dict[str, Any]) -> str | None:
    if op["op"] == "parse":
        return "P:" + ";".join(entry_token(n) for n in op["_nodes"])
    if op["op"] == "mkStd":
        return "S"
    if op["op"] == "mkExt":
        return "X"
    if op["op"] == "load":
        return "L:" + ";".join(op["types"])
    return None


def public(op: dict[str, Any]) -> dict[str, Any]:
    return {k: v for k, v in op.items() if not k.startswith("_")}


def gen_op(ck: Check, pool: dict[str, Any]) -> dict[str, Any]:
    rng = ck.rng
    r = rng.random()
    if r < 0.35:
        if rng.random() < 0.4:
            text, roots = fragment(rng)
            ck.histogram["op/parse-fragment"] += 1
        else:
            tg = TreeGen(rng, max_depth=2, max_width=3, redefines_in_occurs=True)
            roots = [tg.record() for _ in range(rng.choice([1, 1, 2]))]
            text = render(roots, Style())
            ck.histogram["op/parse-copybook"] += 1
        return {"op": "parse", "text": text, "_nodes": sentence_nodes(roots)}
    if r < 0.45:
        ck.histogram["op/mkStd"] += 1
        return {"op": "mkStd"}
    if 0.47 <= r < 0.49:
        ck.histogram["op/rebuild"] += 1
        root, text = rng.choice(pool["odo"])
        return {"op": "rebuild", "text": text}
    if r < 0.47:
        ck.histogram["op/mkExt"] += 1
        text, _ = fragment(rng)
        return {"op": "mkExt", "text": pool["simple"]}
    if 0.49 <= r < 0.52:
        ck.histogram["op/bigread"] += 1
        root, text = rng.choice(pool["odo"])
        before = b""
        k = 0
        while len(before) < 40000 and k < 6000:
            before += build_record(root, gen_env(rng, root, rng.choice(["min", "max", "rand"])), salt=k % 40)
            k += 1
        probe = build_record(root, gen_env(rng, root, "rand"), salt=3)
        return {"op": "bigread", "text": text, "before": before.hex(), "probe": probe.hex(), "fields": [c.name for c in root.children if c.name in counters_of(root)], "_n_before": k, "max_rows": k + 50}
    if 0.52 <= r < 0.60:
        ck.histogram["op/handread"] += 1
        k = rng.randint(1, 3)
        conv = rng.choice(["yesno", "flag", "boolean", None])
        flag: dict[str, Any] = {"type": rng.choice(["string", "boolean"]), "cobol": "05 FLAG PIC X"}
        if conv and rng.random() < 0.7:
            flag["conversion"] = conv
        doc = {"type": "object", "properties": {
            "A": {"type": "string", "cobol": "05 A PIC X(2)"},
            "ITEMS": {"type": "array", "minItems": k, "items": {"type": "string", "cobol": "10 I PIC X(1)"}},
            "FLAG": flag}}
        return {"op": "handread", "doc": doc, "reader": rng.choice(["text", "text", "ebcdic"]), "text": "AB" + "xyz"[:k] + "Y",
                "fields": ["A", "FLAG"]}
    if 0.60 <= r < 0.65:
        ck.histogram["op/hdrdet"] += 1
        nd = rng.randint(1, 4)
        names = ["".join(rng.choice("ABCDEFGHJKLMNP") for _ in range(5)) for _ in range(nd)]
        amts = [rng.randint(0, 9999) for _ in range(nd)]
        hw = rng.choice([3, 5])
        hdr = f"       01  HDR.\n           05  H-TYPE      PIC X(1).\n           05  H-COUNT     PIC 9({hw}).\n"
        det = "       01  DET.\n           05  D-TYPE      PIC X(1).\n           05  D-NAME      PIC X(5).\n           05  D-AMT       PIC 9(4).\n"
        data = ("H" + str(nd).zfill(hw)).encode("cp037") + b"".join(("D" + nm + f"{a:04d}").encode("cp037") for nm, a in zip(names, amts))
        return {"op": "hdrdet", "hdr": hdr, "det": det, "data": data.hex(), "hdr_fields": ["H-TYPE", "H-COUNT"], "det_fields": ["D-NAME", "D-AMT"],
                "keep": rng.random() < 0.3,
                "_want": {"header": [repr("H"), f"Decimal('{nd}')"], "details": [[repr(nm), f"Decimal('{a}')"] for nm, a in zip(names, amts)]}}
    if 0.73 <= r < 0.75:
        ck.histogram["op/rebind"] += 1
        kw, nw, n = rng.randint(1, 6), rng.randint(1, 5), rng.randint(1, 5)
        hw = rng.choice([x for x in range(2, 14) if x != kw + nw])
        first = f"       01  HDR.\n           05  H-ALL PIC X({hw}).\n"
        second = f"       01  DET.\n           05  D-KEY     PIC X({kw}).\n           05  D-NUM     PIC 9({nw}).\n"
        keys = ["".join(rng.choice("ABCDEFGHJKLMNP") for _ in range(kw)) for _ in range(n)]
        nums = [rng.randint(0, 10 ** nw - 1) for _ in range(n)]
        data = b"".join((k + str(v).zfill(nw)).encode("cp037") for k, v in zip(keys, nums))
        return {"op": "rebind", "first": first, "second": second, "data": data.hex(), "fields": ["D-KEY", "D-NUM"], "max_rows": n + 3,
                "_want": [[repr(k), f"Decimal('{v}')"] for k, v in zip(keys, nums)]}
    if 0.70 <= r < 0.73:
        ck.histogram["op/twofiles"] += 1
        files = []
        want = []
        for tag in "AB":
            kw, nw, n = rng.randint(1, 6), rng.randint(1, 5), rng.randint(1, 5)
            cb = f"       01  REC-{tag}.\n           05  {tag}-KEY     PIC X({kw}).\n           05  {tag}-NUM     PIC 9({nw}).\n"
            keys = ["".join(rng.choice("ABCDEFGHJKLMNP") for _ in range(kw)) for _ in range(n)]
            nums = [rng.randint(0, 10 ** nw - 1) for _ in range(n)]
            data = b"".join((k + str(v).zfill(nw)).encode("cp037") for k, v in zip(keys, nums))
            files.append({"copybook": cb, "data": data.hex(), "fields": [f"{tag}-KEY", f"{tag}-NUM"]})
            want.append([[repr(k), f"Decimal('{v}')"] for k, v in zip(keys, nums)])
        return {"op": "twofiles", "files": files, "max_rows": 12, "_want": want}
    if 0.65 <= r < 0.70:
        ck.histogram["op/wbread"] += 1
        n = rng.randint(2, 4)
        cols = [f"col{j}" for j in range(n)]
        props: dict[str, Any] = {}
        for j, c in enumerate(cols):
            anchored = [k for k, v in props.items() if "$anchor" in v]
            if anchored and rng.random() < 0.3:
                props[c] = {"$ref": "#" + rng.choice(anchored)}
            else:
                props[c] = {"type": "string", "$anchor": c}
        reads = []
        for _ in range(rng.randint(1, 3)):
            reads.append([[f"v{j}-{rng.randint(0, 9)}" for j in range(n)], rng.sample(cols, rng.randint(1, n))])
        return {"op": "wbread", "doc": {"type": "object", "properties": props}, "reads": reads, "alias": rng.random() < 0.4}
    if r < 0.77:
        ck.histogram["op/load"] += 1
        return {"op": "load", "types": rng.sample(["string", "decimal", "integer", "number", "null", "boolean", "float"], 3)}
    if 0.89 <= r < 0.92:
        ck.histogram["op/makerreuse"] += 1
        root, text = rng.choice(pool["odo"])
        envs = [gen_env(rng, root, rng.choice(["min", "max", "rand"])) for _ in range(rng.randint(2, 4))]
        recs = [build_record(root, e, salt=i) for i, e in enumerate(envs)]
        redef = [n.unique for n in preorder(root) if n.redefines and not n.is_group and n.level == 5]
        redef += [n.redefines for n in preorder(root) if n.redefines and n.level == 5]
        fields = list(counters_of(root)) + [t.unique for t in tables_of(root) if t.level == 5][:2] + redef[:4] + [root.children[-1].unique]
        return {"op": "makerreuse", "text": text, "records": [r.hex() for r in recs], "fields": list(dict.fromkeys(fields)),
                "_lens": [len(r) for r in recs],
                "_model": f"LAY maker {kinds_token(root)} {','.join(r.hex() for r in recs)} {' '.join(item_tokens(root))}" if clusters_ok(root) else None}
    if r < 0.92:
        ck.histogram["op/read"] += 1
        root, text = rng.choice(pool["odo"])
        envs = [gen_env(rng, root, rng.choice(["min", "max", "rand"])) for _ in range(rng.randint(1, 3))]
        recs = [build_record(root, e, salt=i) for i, e in enumerate(envs)]
        redef = [n.unique for n in preorder(root) if n.redefines and not n.is_group and n.level == 5]
        redef += [n.redefines for n in preorder(root) if n.redefines and n.level == 5]
        fields = list(counters_of(root)) + [t.unique for t in tables_of(root) if t.level == 5][:2] + redef[:4]
        return {"op": "read", "text": text, "records": [r.hex() for r in recs], "fields": fields, "keep": rng.random() < 0.5}
    ck.histogram["op/drop"] += 1
    return {"op": "drop"}


def explore(ck: Check, n_hist: int, max_len: int) -> None:
    rng = ck.rng
    # a fixed ODO copybook for the read operations
    odo = []
    for want_redefines in (False, True, True):
        while True:
            tg = TreeGen(rng, max_depth=2, max_width=5, odo=True, redefines=want_redefines)
            root = tg.record()
            # with REDEFINES: an elementary level-05 redefinition placed after a table, so that its offset depends on the counter
            if tables_of(root) and (not want_redefines or any(
                    n.redefines and n.level == 5 and not n.is_group and i > min(j for j, m in enumerate(root.children) if m.odo or any(
                        k.odo for k in preorder(m))) for i, n in enumerate(root.children))):
                break
        odo.append((root, render([root], Style())))
    pool = {"odo": odo,
            "simple": "       01 R.\n           05 A PIC 9(3).\n           05 B PIC S9(3)V99 COMP-3.\n           05 C PIC X(4).\n"}
    cache: dict[str, Any] = {}
    worker = Worker()
    reqs: list[str] = []
    impl: list[str] = []
    inputs: list[Any] = []
    try:
        for h in range(n_hist):
            ops = [gen_op(ck, pool) for _ in range(rng.randint(1, max_len))]
            probe = gen_op(ck, pool)
            while probe["op"] == "drop":
                probe = gen_op(ck, pool)
            outs = [worker.call(public(o)) for o in ops]
            got = worker.call(public(probe))
            ref = fresh(public(probe), cache)
            ck.case(json.dumps([public(o) for o in ops + [probe]])[:4000], feature=f"probe/{probe['op']}")
            ck.oracle_evaluations += 1
            inp = {"history": [public(o) for o in ops], "probe": public(probe)}
            if got != ref:
                diff = next((k for k in set(got) | set(ref) if got.get(k) != ref.get(k)), "?")
                ck.fail(f"history-dependent:{probe['op']}",
                        f"probe {probe['op']} after {len(ops)} earlier operations differs from the same probe in a fresh process "
                        f"(key {diff!r}: {str(got.get(diff))[:120]} vs {str(ref.get(diff))[:120]})", inp)
            for o, res in zip(ops + [probe], outs + [got]):
                if o["op"] == "bigread":
                    ck.oracle_evaluations += 1
                    if res.get("after") != res.get("alone") or res.get("after_rows") != o["_n_before"] + 1:
                        ck.fail("history-dependent:bigread", f"a record read after {o['_n_before']} others ({len(o['before']) // 2} bytes) yields "
                                f"{str(res.get('after'))[:80]} ({res.get('after_rows')} rows); read alone it yields {str(res.get('alone'))[:80]}",
                                {"op": {k: (v if k not in ("before",) else v[:80] + "…") for k, v in public(o).items()}})
                if o["op"] == "makerreuse":
                    ck.oracle_evaluations += 1
                    ends = [x.get("end") for x in res.get("reused", [])]
                    if res.get("reused") != res.get("fresh") or ends != o["_lens"]:
                        k = next((i for i, (a, b) in enumerate(zip(res.get("reused", []), res.get("fresh", []))) if a != b), 0)
                        ck.fail("history-dependent:makerreuse", f"one LocationMaker laying out {len(o['records'])} records: record {k} is laid out as "
                                f"{str(res.get('reused', [None] * (k + 1))[k])[:120]}; a fresh maker gives {str(res.get('fresh', [None] * (k + 1))[k])[:120]}; "
                                f"record lengths written {o['_lens']}", {"op": public(o)})
                    if o.get("_model"):
                        reqs.append(o["_model"])
                        impl.append(",".join(str(e) for e in ends))
                        inputs.append({"op": public(o), "what": "sizes computed by one re-used maker"})
                if o["op"] == "rebuild":
                    ck.oracle_evaluations += 1
                    if not (res.get("fresh") == res.get("first") == res.get("second")) or not res.get("ext_same"):
                        which = "first" if res.get("fresh") != res.get("first") else "second" if res.get("first") != res.get("second") else "extended"
                        ck.fail("history-dependent:rebuild", f"one parse of a copybook, JSON Schema built from it repeatedly: the {which} build differs "
                                + (f"from the schema of a fresh parse ({str(res.get(which))[:100]} vs {str(res.get('fresh'))[:100]})" if which != "extended"
                                   else "vocabulary build gives two different documents for the same parse"), {"op": public(o)})
                if o["op"] == "rebind":
                    ck.oracle_evaluations += 1
                    for how in ("same-sheet", "second-sheet"):
                        if res.get(how) != o["_want"]:
                            ck.fail("history-dependent:rebind", f"a file of fixed-length records bound to one layout and then, before any row is taken, "
                                                                f"to another ({how}): rows {str(res.get(how))[:100]}; written {str(o['_want'])[:100]}", {"op": public(o)})
                            break
                if o["op"] == "twofiles":
                    ck.oracle_evaluations += 1
                    if res.get("rows") != o["_want"] or res.get("error"):
                        ck.fail("history-dependent:twofiles", f"two files open at once and read alternately yield {str(res.get('rows'))[:120]} "
                                f"{res.get('error') or ''}; written {str(o['_want'])[:120]}", {"op": public(o)})
                if o["op"] == "hdrdet":
                    ck.oracle_evaluations += 1
                    if res.get("header") != o["_want"]["header"] or res.get("details") != o["_want"]["details"]:
                        ck.fail("history-dependent:hdrdet", f"header/detail file: the header row kept while the sheet moved on to the detail "
                                f"schema yields {res.get('header')} (written {o['_want']['header']}); details {str(res.get('details'))[:80]} "
                                f"(written {str(o['_want']['details'])[:80]})", {"op": public(o)})
                if o["op"] == "wbread":
                    ck.oracle_evaluations += 1
                    for rd in res.get("reads", []):
                        want = [repr(rd["row"][rd["listing"].index(nm)]) for nm in rd["names"]]
                        if rd["values"] != want:
                            ck.fail("history-dependent:wbread", f"workbook row {rd['row']} read by names {rd['names']} (columns listed "
                                    f"{rd['listing']}) gives {rd['values']}; the cells under those names are {want}", {"op": public(o)})
                            break
            imm = worker.call({"op": "check_immutable"})
            ck.oracle_evaluations += 1
            if not imm.get("immutable", False):
                ck.fail("kept-row-changed" if "kept row" in str(imm.get("detail")) else "schema-mutated",
                        f"a schema or a row that is still held changed while later work was done: {imm.get('detail')}", inp)
            # model: names / kinds of the modelled operations of this history (each history continues the worker's state,
            # so the model is run on the probe alone: by the theorem its answer does not depend on the prefix)
            mo = model_op(probe)
            if mo is not None:
                reqs.append("HIS run " + mo)
                if probe["op"] == "parse":
                    impl.append("names:" + ",".join(got.get("names", ["?"])))
                elif probe["op"] == "load":
                    impl.append("kinds:" + ",".join(str(b).lower() for b in got.get("kinds", [])))
                else:
                    impl.append("unit")
                inputs.append(inp)
            if h < 2:
                ck.sample({"history_ops": [o["op"] for o in ops], "probe": probe["op"]})
    finally:
        worker.close()
    model = ck.driver.run(reqs)
    ck.compare_streams("probe after history (real library) vs History.step from g0", inputs, impl, model)


def run(ck: Check) -> int:
    ck.rule = ("random histories over {parse copybook, parse a fragment without 01, construct standard / extended-vocabulary maker (and use it), "
               "load documents with given type names, read 1-3 records of a DEPENDING ON layout with different counter values keeping or "
               "dropping the navigators, drop+gc}, all run in ONE long-lived interpreter (so later histories extend earlier ones), each "
               "followed by a probe whose result is compared with the same probe in a fresh interpreter; distinct by history")
    ck.trusted_extra = ["documents and loaded schemas are values in the model; their immutability is observed on the real objects by deep "
                        "comparison with a copy taken at creation", "the suffix registry is process-wide by design (C14) and not part of C11"]
    ck.assumptions = ["single-threaded use"]
    ck.prove(["Stingray.Props.C11", "Stingray.Tie.C11"])
    if ck.tier == "quick":
        explore(ck, 40, 8)
    else:
        explore(ck, 600, 25)
    return ck.finish(search=lambda c: explore(c, 150, 12))


def replay(ck: Check, data: dict[str, Any]) -> int:
    inp = data.get("input", {})
    if "history" in inp:
        w = Worker()
        for o in inp["history"]:
            w.call(o)
        got = w.call(inp["probe"])
        w.close()
        ref = fresh(inp["probe"], {})
        print("after history:", json.dumps(got)[:300])
        print("fresh process:", json.dumps(ref)[:300])
        return 0 if got == ref else 1
    return run(ck)
