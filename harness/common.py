"""
Shared machinery for every property check (run under /venv/bin/python, 3.12).

One `Check` object per run:
  1. extraction      harness/extract.py regenerates lean/Stingray/Extracted/*.lean from /repo's working tree
  2. proof           `lake build` of Props/Cxx + Tie/Cxx, axiom audit, forbidden-token grep
  3. correspondence  the property module runs model (Lean driver) and implementation on the same inputs
  4. oracle          spec-level oracle on the real code
  5. decision        VIOLATION / KNOWN-FINDING / exit code, evidence/Cxx.json
"""
from __future__ import annotations

import collections
import fcntl
import json
import os
import random
import re
import subprocess
import sys
import time
import traceback
from pathlib import Path
from typing import Any, Callable, Iterable, Optional

VERIF = Path(__file__).resolve().parent.parent
REPO = Path(os.environ.get("STINGRAY_REPO", "/repo")).resolve()
LEAN = VERIF / "lean"
SRC = REPO / "src"
GUARD = "STINGRAY_READER_VERIF"

# The implementation under test is always the working tree of REPO.
if str(SRC) not in sys.path:
    sys.path.insert(0, str(SRC))
os.environ.setdefault(GUARD, "1")
import logging  # noqa: E402

logging.getLogger("stingray").setLevel(logging.CRITICAL)   # the library reports absent cells etc. through logger.error

ALLOWED_AXIOMS = {"propext", "Classical.choice", "Quot.sound"}
FORBIDDEN = re.compile(
    r"\bsorry\b|\badmit\b|^\s*axiom\s|native_decide|bv_decide|implemented_by|\bunsafe\s|maxHeartbeats\s+0"
)

TRUSTED_BASE_COMMON = [
    "Lean 4.33.0 kernel (thorough tier: re-checked with leanchecker)",
    "axioms allowed per theorem: propext, Classical.choice, Quot.sound (measured by #print axioms, listed in coverage.axioms)",
    "harness/extract.py (Python-AST -> Lean translator for the extracted kernels/constants)",
    "the correspondence harness: generators, canonicaliser, line protocol, diff",
    "the specification definitions in the Props file (writers/encoders/layout rule) -- what the reader must agree with",
]


def tier_default() -> str:
    t = os.environ.get("VERIF_TIER", "quick")
    return t if t in ("quick", "thorough") else "quick"


def seed_default() -> int:
    try:
        return int(os.environ.get("VERIF_SEED", "0"))
    except ValueError:
        return 0


class HarnessError(Exception):
    """Something in the machinery itself went wrong (exit 2, never a VIOLATION)."""


# ------------------------------------------------------------------------------------------
# Lean side
# ------------------------------------------------------------------------------------------


def _lock():
    lock_path = LEAN / ".build.lock"
    fh = open(lock_path, "w")
    fcntl.flock(fh, fcntl.LOCK_EX)
    return fh


def run_extract() -> dict[str, Any]:
    """Regenerate lean/Stingray/Extracted/*.lean from the working tree. Returns the report."""
    from harness import extract

    return extract.main(REPO, LEAN / "Stingray" / "Extracted")


def lake_build(targets: list[str], timeout: int = 1500) -> tuple[bool, str]:
    fh = _lock()
    try:
        proc = subprocess.run(
            ["lake", "build", *targets],
            cwd=LEAN,
            capture_output=True,
            text=True,
            timeout=timeout,
        )
        return proc.returncode == 0, proc.stdout + proc.stderr
    finally:
        fh.close()


def lean_run_file(path: Path, timeout: int = 900) -> tuple[int, str]:
    proc = subprocess.run(
        ["lake", "env", "lean", str(path)],
        cwd=LEAN,
        capture_output=True,
        text=True,
        timeout=timeout,
    )
    return proc.returncode, proc.stdout + proc.stderr


_DECL = re.compile(r"^(?:@\[[^\]]*\]\s*)?(?:private\s+|protected\s+)?theorem\s+([A-Za-z_][\w'.]*)", re.M)
_NS = re.compile(r"^namespace\s+([\w.]+)", re.M)


def strip_comments(text: str) -> str:
    """Remove Lean block comments (nested) and line comments."""
    out = []
    i, depth, n = 0, 0, len(text)
    while i < n:
        if text.startswith("/-", i):
            depth += 1
            i += 2
        elif depth and text.startswith("-/", i):
            depth -= 1
            i += 2
        elif depth:
            if text[i] == "\n":
                out.append("\n")
            i += 1
        elif text.startswith("--", i):
            while i < n and text[i] != "\n":
                i += 1
        else:
            out.append(text[i])
            i += 1
    return "".join(out)


def theorems_in(path: Path) -> list[tuple[str, int]]:
    """(fully qualified name, line) of every `theorem` in a Lean file (single top-level namespace)."""
    raw = path.read_text()
    text = strip_comments(raw)
    spaces = [(m.start(), m.group(1)) for m in _NS.finditer(text)]
    res = []
    for m in _DECL.finditer(text):
        line = text.count("\n", 0, m.start()) + 1
        ns = [n for pos, n in spaces if pos < m.start()]
        prefix = ns[-1] + "." if ns else ""
        res.append((prefix + m.group(1), line))
    return res


def forbidden_tokens(paths: Iterable[Path]) -> list[str]:
    hits = []
    for p in paths:
        text = strip_comments(p.read_text())
        for n, line in enumerate(text.split("\n"), 1):
            if FORBIDDEN.search(line):
                hits.append(f"{p.relative_to(VERIF)}:{n}: {line.strip()}")
    return hits


def lean_sources() -> list[Path]:
    return sorted(p for p in (LEAN / "Stingray").rglob("*.lean")) + [LEAN / "Driver.lean"]


def audit_axioms(module: str, names: list[str]) -> dict[str, Optional[list[str]]]:
    """#print axioms for each theorem; None = the theorem is not available."""
    if not names:
        return {}
    audit_dir = LEAN / ".lake" / "audit"
    audit_dir.mkdir(parents=True, exist_ok=True)
    f = audit_dir / f"Audit_{module.replace('.', '_')}.lean"
    f.write_text(f"import {module}\n" + "".join(f"#print axioms {n}\n" for n in names))
    rc, out = lean_run_file(f)
    res: dict[str, Optional[list[str]]] = {n: None for n in names}
    for m in re.finditer(r"'([^']+)' depends on axioms: \[([^\]]*)\]", out):
        res[m.group(1)] = [a.strip() for a in m.group(2).replace("\n", " ").split(",") if a.strip()]
    for m in re.finditer(r"'([^']+)' does not depend on any axioms", out):
        res[m.group(1)] = []
    return res


class Driver:
    """`lake env lean --run Driver.lean`: one request per line in, one canonical line out."""

    def __init__(self) -> None:
        self.calls = 0

    def run(self, lines: list[str], timeout: int = 3000) -> list[str]:
        if not lines:
            return []
        self.calls += 1
        data = "\n".join(lines) + "\n"
        proc = subprocess.run(
            ["lake", "env", "lean", "--run", "Driver.lean"],
            cwd=LEAN,
            input=data,
            capture_output=True,
            text=True,
            timeout=timeout,
        )
        if proc.returncode != 0:
            raise HarnessError(f"Lean driver failed rc={proc.returncode}: {proc.stderr[-2000:]}")
        out = proc.stdout.split("\n")
        if out and out[-1] == "":
            out.pop()
        if len(out) != len(lines):
            raise HarnessError(
                f"Lean driver answered {len(out)} lines for {len(lines)} requests; stderr={proc.stderr[-1000:]}"
            )
        return out


# ------------------------------------------------------------------------------------------
# Known findings
# ------------------------------------------------------------------------------------------


def load_known() -> list[dict[str, Any]]:
    p = VERIF / "known_findings.json"
    if not p.exists():
        return []
    return json.loads(p.read_text())["findings"]


# ------------------------------------------------------------------------------------------
# The check object
# ------------------------------------------------------------------------------------------


def err_enum(ex: BaseException) -> str:
    """Map an exception to the small canonical enum used on both sides of the protocol."""
    import struct as _struct

    name = type(ex).__name__
    if isinstance(ex, _struct.error):
        return "StructError"
    if name == "DesignError":
        return "DesignError"
    for cls in ("ValueError", "IndexError", "KeyError", "TypeError", "AttributeError", "RuntimeError",
                "AssertionError", "NotImplementedError", "StopIteration", "RecursionError", "OverflowError",
                "ZeroDivisionError"):
        if name == cls:
            return cls
    for base in type(ex).__mro__:
        if base.__name__ in ("ValueError", "IndexError", "KeyError", "TypeError", "ArithmeticError"):
            return base.__name__
    return "Other:" + name


class Check:
    def __init__(self, pid: str, tier: str, seed: int) -> None:
        self.pid = pid
        self.tier = tier
        self.seed = seed
        self.t0 = time.time()
        self.rng = random.Random(f"{pid}/{seed}")
        self.driver = Driver()
        # proof side
        self.obligations: list[dict[str, Any]] = []
        self.proof_broken: list[str] = []  # names of theorems / ties that no longer check
        self.build_log = ""
        self.extract_report: dict[str, Any] = {}
        # correspondence side
        self.evaluations = 0
        self.distinct: set[Any] = set()
        self.disagreements: list[dict[str, Any]] = []
        self.samples: list[Any] = []
        self.histogram: collections.Counter[str] = collections.Counter()
        self.exhaustive_parts: list[str] = []
        self.rule = ""
        # oracle side
        self.failures: list[dict[str, Any]] = []  # {signature, what, input}
        self.oracle_evaluations = 0
        self.notes: list[str] = []
        self.assumptions: list[str] = []
        self.trusted_extra: list[str] = []
        self.known = [k for k in load_known() if k.get("property") == pid]

    # -------------------------------------------------------------- proof
    def prove(self, modules: list[str]) -> None:
        """Extract, build the given Lean modules, audit axioms. Records obligations."""
        try:
            self.extract_report = run_extract()
        except Exception as ex:  # extraction itself crashed: every tie is undischarged
            self.extract_report = {"error": repr(ex), "unavailable": ["*"]}
            self.notes.append("extract.py crashed: " + "".join(traceback.format_exception_only(ex)).strip())
        ok, log = lake_build(modules + ["Stingray.Model"])
        self.build_log = log
        failed_lines: dict[str, list[int]] = collections.defaultdict(list)
        for m in re.finditer(r"error: (?:\./)?(Stingray/[\w/]+\.lean):(\d+):\d+", log):
            failed_lines[m.group(1)].append(int(m.group(2)))
        failed_targets = set(re.findall(r"^- ([\w.]+)\s*$", log, re.M))
        for mod in modules:
            rel = mod.replace(".", "/") + ".lean"
            path = LEAN / rel
            kind = "tie" if ".Tie." in mod else "theorem"
            if not path.exists():
                self.proof_broken.append(mod)
                self.obligations.append({"name": mod, "kind": kind, "ok": False, "why": "module missing"})
                continue
            thms = theorems_in(path)
            bad: set[str] = set()
            mod_failed = (not ok) and (rel in failed_lines or mod in failed_targets)
            if rel in failed_lines:
                starts = [ln for _, ln in thms] + [10**9]
                for eline in failed_lines[rel]:
                    for i, (name, ln) in enumerate(thms):
                        if ln <= eline < starts[i + 1]:
                            bad.add(name)
                if not bad:
                    bad = {n for n, _ in thms}
            elif mod_failed:
                bad = {n for n, _ in thms}  # a dependency failed: nothing in this module is checked
            axioms = {} if mod_failed else audit_axioms(mod, [n for n, _ in thms])
            for name, _ in thms:
                entry: dict[str, Any] = {"name": name, "kind": kind}
                if name in bad:
                    entry.update(ok=False, why="does not compile against the current extraction/model")
                else:
                    ax = axioms.get(name)
                    if mod_failed and bad:
                        # another theorem of this module fails, so no compiled module exists to audit this one in
                        entry.update(ok=False, unchecked=True, why="module did not build: " + ", ".join(sorted(bad))[:200])
                    elif ax is None:
                        entry.update(ok=False, why="not found by #print axioms")
                    elif not set(ax) <= ALLOWED_AXIOMS:
                        entry.update(ok=False, why=f"axioms {ax}", axioms=ax)
                    else:
                        entry.update(ok=True, axioms=ax)
                if not entry["ok"] and not entry.get("unchecked"):
                    self.proof_broken.append(name)
                self.obligations.append(entry)
        hits = forbidden_tokens(lean_sources())
        if hits:
            self.proof_broken.append("forbidden-token")
            self.notes.append("forbidden tokens: " + "; ".join(hits[:5]))
        unavailable = self.extract_report.get("unavailable", [])
        mine = [u for u in unavailable if u == "*" or u.startswith(self.pid)]
        if mine:
            self.notes.append(f"extraction unavailable: {mine}")
            for u in mine:
                if f"extract:{u}" not in self.proof_broken:
                    self.proof_broken.append(f"extract:{u}")
        if self.tier == "thorough" and not self.proof_broken:
            self.leanchecker(modules)

    def leanchecker(self, modules: list[str]) -> None:
        t = time.time()
        try:
            proc = subprocess.run(["lake", "env", "leanchecker", *modules], cwd=LEAN, capture_output=True,
                                  text=True, timeout=1800)
            ok = proc.returncode == 0
            self.notes.append(f"leanchecker {' '.join(modules)}: rc={proc.returncode} in {time.time()-t:.0f}s")
            if not ok:
                self.proof_broken.append("leanchecker")
                self.notes.append(proc.stdout[-500:] + proc.stderr[-500:])
        except subprocess.TimeoutExpired:
            self.notes.append("leanchecker timed out (not counted as failure)")

    # -------------------------------------------------------------- correspondence
    def case(self, key: Any, nontrivial: bool = True, feature: Optional[str] = None) -> None:
        self.evaluations += 1
        if nontrivial:
            self.distinct.add(key if isinstance(key, (str, int, tuple)) else repr(key))
        if feature:
            self.histogram[feature] += 1

    def sample(self, s: Any, limit: int = 6) -> None:
        if len(self.samples) < limit:
            self.samples.append(s)

    def disagree(self, what: str, inp: Any, impl: Any, model: Any) -> None:
        self.disagreements.append({"what": what, "input": inp, "impl": impl, "model": model})

    def compare_streams(self, what: str, inputs: list[Any], impl: list[str], model: list[str]) -> int:
        n = 0
        for i, (a, b) in enumerate(zip(impl, model)):
            if a != b:
                n += 1
                if len(self.disagreements) < 50:
                    self.disagree(what, inputs[i] if i < len(inputs) else i, a, b)
        return n

    # -------------------------------------------------------------- oracle
    def fail(self, signature: str, what: str, inp: Any) -> None:
        """A concrete input on which the REAL code violates the property (spec-level oracle)."""
        self.failures.append({"signature": signature, "what": what, "input": inp})

    # -------------------------------------------------------------- decision
    def finish(self, search: Optional[Callable[["Check"], None]] = None) -> int:
        open_known = {k["signature"]: k for k in self.known if k.get("status") == "open"}
        unknown = [f for f in self.failures if f["signature"] not in open_known]
        broken = list(self.proof_broken)
        corr_broken = len(self.disagreements) > 0
        searched = False
        if not unknown and (broken or corr_broken) and search is not None:
            # A tie / proof / correspondence no longer checks: look harder for a concrete failing input.
            searched = True
            try:
                search(self)
            except Exception as ex:
                self.notes.append("enlarged search crashed: " + repr(ex))
            unknown = [f for f in self.failures if f["signature"] not in open_known]
        printed = set()
        for f in self.failures:
            k = open_known.get(f["signature"])
            if k and k["signature"] not in printed:
                printed.add(k["signature"])
                print(f"KNOWN-FINDING: property={self.pid} {k['id']} {k['what']}")
        violations = 0
        rc = 0
        replay_dir = VERIF / "replays"
        replay_dir.mkdir(exist_ok=True)
        if unknown:
            violations = len(unknown)
            first = unknown[0]
            path = replay_dir / f"{self.pid}_{self.tier}_{self.seed}.json"
            path.write_text(json.dumps({
                "property": self.pid, "kind": "failing-input", "signature": first["signature"],
                "what": first["what"], "input": first["input"],
                "more": _per_signature(unknown[1:], 5),
                "failures_by_signature": dict(collections.Counter(f["signature"] for f in unknown)),
                "broken_proof_obligations": broken, "correspondence_disagreements": self.disagreements[:5],
                "replay": f"./check {self.pid} --replay replays/{path.name}",
            }, indent=1, default=str))
            print(f"VIOLATION property={self.pid} replay={path.relative_to(VERIF)}")
            rc = 1
        elif broken or corr_broken:
            violations = 1
            path = replay_dir / f"{self.pid}_{self.tier}_{self.seed}.json"
            path.write_text(json.dumps({
                "property": self.pid, "kind": "no-failing-input-found",
                "no_longer_checks": broken,
                "correspondence_disagreements": self.disagreements[:10],
                "build_log_tail": self.build_log[-3000:] if broken else "",
                "searched": searched, "oracle_evaluations": self.oracle_evaluations,
            }, indent=1, default=str))
            print(f"VIOLATION property={self.pid} replay={path.relative_to(VERIF)} no-failing-input-found")
            rc = 1
        if rc == 0:
            stale = replay_dir / f"{self.pid}_{self.tier}_{self.seed}.json"
            if stale.exists():
                stale.unlink()
        self.write_evidence(violations, sorted(printed))
        return rc

    def write_evidence(self, violations: int, known_printed: list[str]) -> None:
        n_obl = len(self.obligations)
        n_ok = sum(1 for o in self.obligations if o["ok"])
        axioms = sorted({a for o in self.obligations for a in o.get("axioms", [])})
        cov: dict[str, Any] = {
            "obligations": n_obl,
            "discharged": n_ok,
            "checker_cmd": f"cd lean && lake build Stingray.Props.{self.pid} Stingray.Tie.{self.pid} && lake env lean .lake/audit/Audit_Stingray_Props_{self.pid}.lean",
            "trusted_base": TRUSTED_BASE_COMMON + self.trusted_extra,
            "axioms": axioms,
            "theorems": [o["name"] + ("" if o["ok"] else " [NOT DISCHARGED: " + o.get("why", "") + "]")
                         for o in self.obligations],
            "evaluations": self.evaluations + self.oracle_evaluations,
            "correspondence_evaluations": self.evaluations,
            "oracle_evaluations": self.oracle_evaluations,
            "distinct_nontrivial": len(self.distinct),
            "rule": self.rule,
            "samples": self.samples or ["(none)"],
            "exhaustive": bool(self.exhaustive_parts),
            "exhaustive_parts": self.exhaustive_parts,
            "input_distribution": dict(self.histogram),
            "disagreements": len(self.disagreements),
            "oracle_failures": len(self.failures),
            "known_findings_printed": known_printed,
            "extraction": {k: v for k, v in self.extract_report.items() if k != "items"},
            "notes": self.notes,
        }
        ev = {
            "property_id": self.pid,
            "tier": self.tier,
            "seed": self.seed,
            "level": "proof",
            "coverage": cov,
            "assumptions": self.assumptions,
            "wall_s": round(time.time() - self.t0, 2),
            "violations": violations,
        }
        # Runs against a deliberately changed /repo (harness.seed, harness.seed_own) set VERIF_EVIDENCE_DIR to a scratch directory, so
        # that evidence/ only ever holds records of runs on the tree as it is.
        out = Path(os.environ.get("VERIF_EVIDENCE_DIR") or (VERIF / "evidence"))
        out.mkdir(parents=True, exist_ok=True)
        (out / f"{self.pid}.json").write_text(json.dumps(ev, indent=1, default=str) + "\n")


def _per_signature(fs: list[dict[str, Any]], k: int) -> list[dict[str, Any]]:
    seen: collections.Counter[str] = collections.Counter()
    out = []
    for f in fs:
        if seen[f["signature"]] < k:
            seen[f["signature"]] += 1
            out.append({"signature": f["signature"], "what": f["what"], "input": f["input"]})
    return out[:60]


def hexs(b: bytes) -> str:
    return b.hex() if b else "-"


def rolling(b: bytes) -> int:
    h = 0
    for x in b:
        h = (h * 31 + x) % 1000003
    return h
